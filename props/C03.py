"""C03 — transpose is the exact adjoint of every operator (alg facet + wiring; element-level adjoints are in
C13 (reshape / move-axis), C14 (einsum blocks), C15/C08 (QU rotation), C09 (Toeplitz symmetric))."""
from __future__ import annotations

import z3

from props import driver
from pyvc import builtins_model as B
from pyvc.values import Obj, SSeq, PyFunc, Value, fresh_int, to_z3, z_and, z_eq, z_not, Unsupported
from theories import alg as A

CORE = 'furax._base.core'
BL = 'furax._base.blocks'
ORACLE = {'name': 'adjoint_family'}


def build(ck):
    T = A.AlgTheory(ck.P, core_as_terms=False)
    P = ck.P
    ck.trust('lemma:LA2 adj is an involutive anti-homomorphism, additive, commuting with real scalars',
             'lemma:LA4 adjoints of block row / diagonal / column operators', 'lemma:W-fold')
    ck.assume_note('C03: jax.linear_transpose(f, s) is the adjoint of f provided f is linear and s is its input structure '
                   '(linearity of every mv is C04); transposes of the iterative-solver inverse are excluded by the property')
    axioms = driver.size_axioms() + A.reduce_axioms() + T.class_axioms() + A.transpose_axioms() + A.block_struct_axioms()

    # ------------------------------------------------------------------ default transpose and TransposeOperator
    def default_transpose(S):
        S.oracle = ORACLE
        a = A.plain_operator(S, 'PackOperator', 'a')
        out = S.call(S.I.getattr(a, 'transpose'), [])
        ok = out.normal and isinstance(out.value, Obj) and out.value.cls.name == 'TransposeOperator' \
            and out.value.fields.get('operator') is a
        S.oblige('post', bool(ok), tag='wraps-self-in-a-lazy-transpose')
        if not ok:
            return
        t = out.value
        c, w, i_, o_ = A.den_of(S.I, t)
        S.oblige('post', z3.And(w == A.adjw(A.denw(a.plain)), c == A.denc(a.plain)), tag='denotes-the-adjoint', exact=False)
        ins_ = S.call(S.I.getattr(t, 'in_structure'), [])
        outs_ = S.call(S.I.getattr(t, 'out_structure'), [])
        S.oblige('post', z_and(ins_.normal and z_eq(ins_.value, A.outs(a.plain)), outs_.normal and
                               z_eq(outs_.value, A.ins(a.plain))), tag='structures-swapped')
        tt = S.call(S.I.getattr(t, 'transpose'), [])
        S.oblige('post', tt.normal and tt.value is a, tag='transpose-of-transpose-is-the-operator')
        tprop = S.call(B.PyFunc(lambda interp: interp.getattr(interp.getattr(a, 'T'), 'T'), 'a.T.T'), [])
        S.oblige('post', tprop.normal and tprop.value is a, tag='T-property-twice-is-the-operator')
    ck.explore(f'{CORE}.AbstractLinearOperator.transpose', default_transpose, T, axioms=axioms, call_hook=A.plain_call_hook)

    # TransposeOperator.mv: wiring of jax.linear_transpose
    class LinT(Value):
        def __init__(self, f, s):
            self.f, self.s = f, s

        def py_call(self, interp, args, kwargs):
            return (('adjoint-applied', self, args),)

    def transpose_mv(S):
        S.oracle = ORACLE
        a = A.plain_operator(S, 'PackOperator', 'a')
        t = S.new('TransposeOperator', operator=a)
        T.externals['jax.linear_transpose'] = lambda interp, f, s: LinT(f, s)
        x = z3.Const('x', A.Struct)
        out = S.call(S.I.getattr(t, 'mv'), [x])
        ok = out.normal and isinstance(out.value, tuple) and out.value[0] == 'adjoint-applied'
        S.oblige('post', bool(ok), tag='returns-the-first-component-of-the-linear-transpose')
        if ok:
            lt, args = out.value[1], out.value[2]
            from pyvc.values import BoundMethod
            f_ok = isinstance(lt.f, BoundMethod) and lt.f.self_val is a and lt.f.func.info.name == 'mv'
            S.oblige('post', bool(f_ok), tag='linear_transpose-of-the-operand-mv')
            S.oblige('post', z_eq(lt.s, A.ins(a.plain)), tag='linear_transpose-at-the-operand-input-structure')
            S.oblige('post', len(args) == 1 and args[0] is x, tag='applied-to-the-argument')
    ck.explore(f'{CORE}.TransposeOperator.mv', transpose_mv, T, axioms=axioms, call_hook=A.plain_call_hook)

    # ------------------------------------------------------------------ CompositionOperator.transpose
    def composition_transpose(S):
        S.oracle = ORACLE
        ops = S.seq('operands', kind='list', sort=A.Op)
        n = to_z3(ops.length)
        S.assume(z3.And(n >= 1, A.chain_ok(ops.arr, n)))
        o = S.new('CompositionOperator', operands=B.PyList(None, seq=ops))
        out = S.call(S.I.getattr(o, 'transpose'), [])
        ok = out.normal and isinstance(out.value, Obj) and out.value.cls.name == 'CompositionOperator'
        S.oblige('post', bool(ok), tag='result-is-a-composition', note=str(out.where))
        if not ok:
            return
        rs = B.as_seq(S.I, out.value.fields['operands'])
        ra = A.arr_of(S.run, rs, S.I)
        S.assume(A.lem_adj_reverse(ra, ops.arr, n))            # LA2 instance for the two lists at hand
        c, w, i_, o_ = A.den_of(S.I, out.value)
        S.oblige('post', z_eq(rs.length, ops.length), tag='same-number-of-factors')
        S.oblige('post', z3.And(w == A.adjw(A.Ww(ops.arr, 0, n)), c == A.Wc(ops.arr, 0, n)), tag='denotes-the-adjoint', exact=False)
        S.oblige('post', z3.And(i_ == A.outs(ops.arr[0]), o_ == A.ins(ops.arr[n - 1])), tag='structures-swapped', exact=False)
        S.oblige('post', A.chain_ok(ra, n), tag='transposed-chain-well-typed', exact=False)
    ck.explore(f'{CORE}.CompositionOperator.transpose', composition_transpose, T, axioms=axioms)

    # ------------------------------------------------------------------ AdditionOperator.transpose
    def addition_transpose(S):
        S.oracle = ORACLE
        ops = S.seq('operands', kind='list', sort=A.Op)
        n = to_z3(ops.length)
        k = fresh_int('k')
        S.assume(z3.And(n >= 1, z3.ForAll([k], z3.Implies(z3.And(k >= 0, k < n), z3.And(
            A.ins(ops.arr[k]) == A.ins(ops.arr[0]), A.outs(ops.arr[k]) == A.outs(ops.arr[0]))))))
        o = S.new('AdditionOperator', operands=B.PyList(None, seq=ops))
        out = S.call(S.I.getattr(o, 'transpose'), [])
        ok = out.normal and isinstance(out.value, Obj) and out.value.cls.name == 'AdditionOperator'
        S.oblige('post', bool(ok), tag='result-is-a-sum', note=str(out.where))
        if not ok:
            return
        rs = B.as_seq(S.I, out.value.fields['operands'])
        ra = A.arr_of(S.run, rs, S.I)
        S.assume(A.lem_adj_container(A.Sw, ra, A.Sw, ops.arr, n, A.Sc))
        c, w, i_, o_ = A.den_of(S.I, out.value)
        S.oblige('post', z_eq(rs.length, ops.length), tag='same-number-of-terms')
        S.oblige('post', z3.And(w == A.adjw(A.Sw(ops.arr, n)), c == A.Sc(ops.arr, n)), tag='denotes-the-adjoint', exact=False)
        S.oblige('post', z3.And(i_ == A.outs(ops.arr[0]), o_ == A.ins(ops.arr[0])), tag='structures-swapped', exact=False)
    ck.explore(f'{CORE}.AdditionOperator.transpose', addition_transpose, T, axioms=axioms)

    # ------------------------------------------------------------------ block operators' transposes
    block_transposes(ck, T, axioms)


def block_transposes(ck, T, axioms):
    """transposes of the three block operators: the column / diagonal / row operator of the transposed blocks (LA4)"""
    P = ck.P
    DUAL = {'Row': 'Col', 'Diag': 'Diag', 'Col': 'Row'}
    CLS = {'Row': 'BlockRowOperator', 'Diag': 'BlockDiagonalOperator', 'Col': 'BlockColumnOperator'}
    for kind in ('Row', 'Diag', 'Col'):
        def block_transpose(S, kind=kind):
            S.oracle = ORACLE
            ops = S.seq('blocks', kind='list', sort=A.Op)
            n = to_z3(ops.length)
            k = fresh_int('k')
            S.assume(n >= 1)
            if kind == 'Row':
                S.assume(z3.ForAll([k], z3.Implies(z3.And(k >= 0, k < n), A.outs(ops.arr[k]) == A.outs(ops.arr[0]))))
            if kind == 'Col':
                S.assume(z3.ForAll([k], z3.Implies(z3.And(k >= 0, k < n), A.ins(ops.arr[k]) == A.ins(ops.arr[0]))))
            o = S.new(CLS[kind], blocks=B.PyList(None, seq=ops))
            out = S.call(S.I.getattr(o, 'transpose'), [])
            dual = DUAL[kind]
            ok = out.normal and isinstance(out.value, Obj) and out.value.cls.name == CLS[dual]
            S.oblige('post', bool(ok), tag=f'transpose-of-{kind}-is-a-{dual}-operator', note=str(out.where))
            if not ok:
                return
            rs = B.as_seq(S.I, out.value.fields['blocks'])
            ra = A.arr_of(S.run, rs, S.I)
            S.assume(A.lem_adj_container(A.BLKW[dual], ra, A.BLKW[kind], ops.arr, n))
            # the structure trees of the transposed container are those of the original, swapped (leaf-wise swap)
            S.assume(z3.Implies(z3.ForAll([k], z3.Implies(z3.And(k >= 0, k < n), z3.And(A.ins(ra[k]) == A.outs(ops.arr[k]),
                                                                                   A.outs(ra[k]) == A.ins(ops.arr[k])))),
                                z3.And(A.BLKS[dual + 'in'](ra, n) == A.BLKS[kind + 'out'](ops.arr, n),
                                       A.BLKS[dual + 'out'](ra, n) == A.BLKS[kind + 'in'](ops.arr, n))))
            c, w, i_, o_ = A.den_of(S.I, out.value)
            S.oblige('post', z_eq(rs.length, ops.length), tag='same-number-of-blocks')
            S.oblige('post', z3.And(w == A.adjw(A.BLKW[kind](ops.arr, n)), c == 1), tag='denotes-the-adjoint (LA4)', exact=False)
            S.oblige('post', z3.And(i_ == A.BLKS[kind + 'out'](ops.arr, n), o_ == A.BLKS[kind + 'in'](ops.arr, n)),
                     tag='structures-swapped', exact=False)
        ck.explore(f'{BL}.{CLS[kind]}.transpose', block_transpose, T, axioms=axioms,
                   contracts={**A.block_structure_contracts(), **A.container_callee_contracts(P)})


    # ------------------------------------------------------------------ Toast observation matrix and its transpose
    class MatrixV(Value):
        """a (sparse) square matrix token: `.T` flips the flag, `M @ x` records the product (dependency: CSR @, CSR.T)"""

        def __init__(self, name, transposed=False):
            self.name, self.transposed = name, transposed

        def py_getattr(self, interp, name):
            if name == 'T':
                return MatrixV(self.name, not self.transposed)
            if name == 'shape':
                n = z3.Int(self.name + '_n')
                return (n, n)
            if name == 'dtype':
                return z3.Const(self.name + '_dtype', A.Struct)
            raise Unsupported(f'matrix attribute {name}')

        def py_binop(self, interp, op, other, refl):
            if op == 'MatMult' and not refl:
                return ('matvec', self.name, self.transposed, other)
            return B.NOT_IMPLEMENTED

    def toast(S):
        M = MatrixV('M')
        o = S.new('ToastObservationMatrixOperator', matrix=M)
        x = z3.Const('x', A.Struct)
        y = S.call(S.I.getattr(o, 'mv'), [x])
        S.oblige('post', y.normal and y.value == ('matvec', 'M', False, x), tag='mv-is-matrix-times-x')
        t = S.call(S.I.getattr(o, 'transpose'), [])
        ok = t.normal and isinstance(t.value, Obj) and t.value.cls.name == 'ToastObservationMatrixTransposeOperator' \
            and t.value.fields.get('operator') is o
        S.oblige('post', bool(ok), tag='transpose-wraps-self')
        if ok:
            ty = S.call(S.I.getattr(t.value, 'mv'), [x])
            S.oblige('post', ty.normal and ty.value == ('matvec', 'M', True, x), tag='transpose-mv-is-transposed-matrix-times-x')
            tt = S.call(S.I.getattr(t.value, 'transpose'), [])
            S.oblige('post', tt.normal and tt.value is o, tag='transpose-of-transpose-is-the-operator')
    T.externals['jax.ShapeDtypeStruct'] = lambda interp, shape, dtype, **k: ('sds', shape, dtype)
    ck.explore('furax.toast.obs_matrix.ToastObservationMatrixOperator.transpose', toast, T, axioms=axioms)
    transpose_overrides(ck)
    # the hand-written transposes whose contracts live in the packs owning those classes are re-run here by reference
    # (axis operators C13, QU rotations C15; the einsum operator C14 in the thorough tier: its scenarios take a minute)
    from props import C13, C15
    ck.include(C13.build, 'C13', lambda fn: fn.endswith('.transpose') or 'Transpose' in fn)
    ck.include(C15.build, 'C15', lambda fn: 'QURotationTransposeOperator' in fn or fn.endswith('QURotationOperator.transpose'))
    if ck.tier == 'thorough':
        from props import C14
        ck.include(C14.build, 'C14', lambda fn: fn.endswith('.transpose') or fn.endswith('._get_transposed_subscripts'))


def transpose_overrides(ck):
    """closed world: every class that defines its own `transpose` (or a TransposeOperator subclass with its own mv) is
    under a contract somewhere; a class that is not in the table (a NEW hand-written transpose) leaves the property
    undecided for that class, and the native adjoint oracle is run on it"""
    from props import C08
    P = ck.P
    C08.patch_class_table(P)            # decorators' rewiring (symmetric / orthogonal: transpose is self / inverse)
    base = P.cls(f'{CORE}.AbstractLinearOperator')
    lazy = P.cls(f'{CORE}.TransposeOperator')
    where = {'AdditionOperator': 'C03', 'CompositionOperator': 'C03', 'TransposeOperator': 'C03', 'BlockRowOperator': 'C03/C10',
             'BlockDiagonalOperator': 'C03/C10', 'BlockColumnOperator': 'C03/C10', 'ToastObservationMatrixOperator': 'C03',
             'ToastObservationMatrixTransposeOperator': 'C03', 'AbstractRavelOrReshapeOperator': 'C13',
             'ReshapeTransposeOperator': 'C13', 'MoveAxisOperator': 'C13', 'DenseBlockDiagonalOperator': 'C14',
             'QURotationOperator': 'C15', 'QURotationTransposeOperator': 'C15',
             # `symmetric` decorator: transpose returns self; that the operator IS symmetric is C08's obligation
             'DiagonalOperator': 'C08 (symmetric)', 'HWPOperator': 'C08 (symmetric)', 'HomothetyOperator': 'C08 (symmetric)',
             'IdentityOperator': 'C08 (symmetric)', 'SymmetricBandToeplitzOperator': 'C08/C09 (symmetric)'}
    table = {}
    for c in sorted(P.classes.values(), key=lambda c: c.name):
        if base not in c.mro or c is base:
            continue
        own = 'transpose' in c.methods or 'transpose' in getattr(c, 'patched', {})
        lazy_mv = lazy in c.mro and 'mv' in c.methods
        if not (own or lazy_mv):
            continue
        table[c.name] = where.get(c.name, 'NOT COVERED')
        if c.name not in where:
            ck._undecided(f'{c.module}.{c.name}.transpose', 'transpose-overrides',
                          'hand-written transpose without a contract (new override?)',
                          oracle={'name': 'adjoint_family', 'cls': c.name})
    ck.samples.append({'transpose_overrides': table})

"""Shared by C01 and C07: the rule scan AlgebraicReductionRule.apply, HomothetyRule.apply, IdentityRule.apply,
verified in the `alg` facet against the rule contract (any rule set, any registration order)."""
from __future__ import annotations

import z3

from pyvc import builtins_model as B
from pyvc.loops import LoopSpec
from pyvc.values import Obj, SSeq, concrete, fresh_const, fresh_int, fresh_name, to_z3, z_and, z_eq, z_not, zbool
from theories import alg as A

RULES = 'furax._base.rules'
ORACLE = {'C01': {'name': 'reduce_family'}, 'C07': {'name': 'normal_form_family'}}


def size_axioms():
    o = z3.Const('o!sz', A.Op)
    return [z3.ForAll([o], z3.And(A.insize(o) == A.ssize(A.ins(o)), A.outsize(o) == A.ssize(A.outs(o))),
                      patterns=[A.insize(o), A.outsize(o)]),
            z3.ForAll([o], z3.Implies(A.isHom(o), z3.And(A.denw(o) == A.EMPTY, A.ins(o) == A.outs(o), z3.Not(A.isId(o)))),
                      patterns=[A.isHom(o)]),
            z3.ForAll([o], z3.Implies(A.isId(o), z3.And(A.denw(o) == A.EMPTY, A.denc(o) == 1, A.ins(o) == A.outs(o),
                                                        z3.Not(A.isHom(o)))), patterns=[A.isId(o)]),
            A.ax_empty(), A.REGLEN >= 0]


def hom_nf(arr, n):
    """NF2: at most one scalar operator, sitting at the end chosen by `first.out_size() <= last.in_size()`"""
    j = fresh_int('j')
    left = A.outsize(arr[0]) <= A.insize(arr[n - 1])
    return z3.ForAll([j], z3.Implies(z3.And(j >= 0, j < n, A.isHom(arr[j])),
                                     z3.If(left, j == 0, j == n - 1)))


def no_identity(arr, n):
    j = fresh_int('j')
    return z3.ForAll([j], z3.Implies(z3.And(j >= 0, j < n), z3.Not(A.isId(arr[j]))))


def nf1(arr, n, upto=None):
    j = fresh_int('j')
    rng = z3.And(j >= 0, j + 1 < n) if upto is None else z3.And(j >= 0, j < upto, j + 1 < n)
    return z3.ForAll([j], z3.Implies(rng, z3.Not(A.Red(arr[j], arr[j + 1]))))


def ends_kept(arr, n, arr0, n0):
    return z3.Implies(z3.And(n >= 1, n0 >= 1), z3.And(A.outs(arr[0]) == A.outs(arr0[0]),
                                                      A.ins(arr[n - 1]) == A.ins(arr0[n0 - 1])))


# ------------------------------------------------------------------------------- callee contracts
def _pre_chain_ok(interp, a0, n0, who):
    """inside the scan the two n-ary rules are always called on a well-typed chain: stated as a PRECONDITION of the
    call (its own obligation) and then available as a fact — the postconditions below are conditional on it"""
    if not getattr(interp, 'strict_rule_calls', False):
        return
    from theories import colmat as CM
    CM.ob(interp, 'pre', f'{who}-is-called-on-a-well-typed-chain', A.chain_ok(a0, n0))
    interp.run.assume(A.chain_ok(a0, n0))


def sel_facts(sel, r_arr, n, a0, n0):
    """the result is an order-preserving selection of the operands: r[k] = a0[sel(k)], k <= sel(k) <= n0 - n + k"""
    k = fresh_int('k')
    return z3.ForAll([k], z3.Implies(z3.And(k >= 0, k < n),
                                     z3.And(sel(k) >= 0, sel(k) < n0, r_arr[k] == a0[sel(k)], k <= sel(k), sel(k) <= n0 - n + k)),
                     patterns=[r_arr[k]])


def prefix_kept(r_arr, n, a0, n0, m):
    """an identity-free prefix of length m stays in place"""
    j = fresh_int('j')
    return z3.Implies(z3.And(0 <= m, m <= n0, no_identity(a0, m)),
                      z3.And(m <= n, z3.ForAll([j], z3.Implies(z3.And(0 <= j, j < m), r_arr[j] == a0[j]))))


def suffix_kept(r_arr, n, a0, n0, m):
    """an identity-free suffix a0[m:] stays at the end"""
    j, t = fresh_int('j'), fresh_int('t')
    d = n - (n0 - m)
    return z3.Implies(z3.And(0 <= m, m <= n0, z3.ForAll([j], z3.Implies(z3.And(m <= j, j < n0), z3.Not(A.isId(a0[j]))))),
                      z3.And(d >= 0, z3.ForAll([t], z3.Implies(z3.And(0 <= t, t < n0 - m), r_arr[d + t] == a0[m + t]))))


def identity_rule_contract(interp, fi, args, kwargs):
    """IdentityRule.apply — proved in scenario `identity_rule` below (pot: trusted, like the scalar relocation).
    Ghost arguments: the prefix / suffix clauses are instantiated at the caller's `index` and `index + len(new_ops)` when
    the call is made from inside the scan (they are proved for EVERY m in the scenario)."""
    ops = B.as_seq(interp, args[-1])
    run = interp.run
    a0 = A.arr_of(run, ops)
    n0 = to_z3(ops.length)
    _pre_chain_ok(interp, a0, n0, 'IdentityRule.apply')
    r = A.op_seq('noid')
    n = to_z3(r.length)
    sel = z3.Function(fresh_name('sel'), z3.IntSort(), z3.IntSort())
    run.assume(z3.And(n >= 0, n <= n0, A.Ww(r.arr, 0, n) == A.Ww(a0, 0, n0), A.Wc(r.arr, 0, n) == A.Wc(a0, 0, n0),
                      no_identity(r.arr, n), z3.Implies(A.chain_ok(a0, n0), A.chain_ok(r.arr, n)),
                      z3.Implies(A.chain_ok(a0, n0), ends_kept(r.arr, n, a0, n0)),
                      z3.Implies(z3.And(A.chain_ok(a0, n0), n == 0, n0 >= 1), A.outs(a0[0]) == A.ins(a0[n0 - 1])),
                      A.lem_empty(r.arr, 0), sel_facts(sel, r.arr, n, a0, n0),
                      # dropping operators does not create inversions among the remaining ones
                      A.pot(r.arr, n) <= A.pot(a0, n0), A.pot(r.arr, n) >= 0))
    fr = interp.framestack[-1] if getattr(interp, 'framestack', None) else None
    roles = getattr(interp, 'scan_roles', None) or {}
    if fr is not None:
        ok, index = fr.lookup(roles.get('index', 'index'))
        ok2, new_ops = fr.lookup(roles.get('new_ops', 'new_ops'))
        if ok:
            m = to_z3(index)
            run.assume(prefix_kept(r.arr, n, a0, n0, m))
            if ok2:
                run.assume(suffix_kept(r.arr, n, a0, n0, m + to_z3(B.as_seq(interp, new_ops).length)))
    return B.PyList(None, seq=r)


def homothety_rule_contract(interp, fi, args, kwargs):
    """HomothetyRule.apply — proved in scenario `homothety_rule` below"""
    ops = B.as_seq(interp, args[-1])
    run = interp.run
    a0 = A.arr_of(run, ops)
    n0 = to_z3(ops.length)
    _pre_chain_ok(interp, a0, n0, 'HomothetyRule.apply')
    r = A.op_seq('hom')
    n = to_z3(r.length)
    run.assume(z3.And(n >= 0, n <= n0, z3.Implies(n0 >= 1, n >= 1),
                      A.Ww(r.arr, 0, n) == A.Ww(a0, 0, n0), A.Wc(r.arr, 0, n) == A.Wc(a0, 0, n0),
                      z3.Implies(A.chain_ok(a0, n0), z3.And(A.chain_ok(r.arr, n), ends_kept(r.arr, n, a0, n0))),
                      z3.Implies(z3.And(A.chain_ok(a0, n0), n0 >= 1), hom_nf(r.arr, n)),
                      z3.Implies(no_identity(a0, n0), no_identity(r.arr, n)), A.lem_empty(r.arr, 0),
                      # relocating / merging scalar factors does not change the relative order of the other operators
                      A.pot(r.arr, n) <= A.pot(a0, n0), A.pot(r.arr, n) >= 0))
    return B.PyList(None, seq=r)


# ------------------------------------------------------------------------------- loop contracts of the scan
def scan_roles(P):
    """the locals of AlgebraicReductionRule.apply by ROLE, read off its AST (so that renaming a local does not break the
    contracts): the scan is `while <index> < len(<operands>) - 1`, its body binds `<left>, <right> = <operands>[<index>],
    <operands>[<index> + 1]` and, in the registry loop, `<new_ops> = <rule>.apply(<left>, <right>)`"""
    import ast
    roles = {'operands': 'operands', 'index': 'index', 'left': 'left', 'right': 'right', 'new_ops': 'new_ops'}
    try:
        fi = P.cls('AlgebraicReductionRule').methods['apply']
        node = fi.node if hasattr(fi, 'node') else fi
        wh = next(n for n in ast.walk(node) if isinstance(n, ast.While))
        t = wh.test
        # `<index> < len(<operands>) - 1`, `<index> + 1 < len(<operands>)`, ...: the list is the argument of len(), the index
        # is the other name of the test
        ln = next(c for c in ast.walk(t) if isinstance(c, ast.Call) and getattr(c.func, 'id', None) == 'len')
        if isinstance(ln.args[0], ast.Name):
            roles['operands'] = ln.args[0].id
        others = [n.id for n in ast.walk(t) if isinstance(n, ast.Name) and n.id not in ('len', roles['operands'])]
        if others:
            roles['index'] = others[0]

        def selects(v, plus_one):
            """v is `<operands>[<index>]` (plus_one False) or `<operands>[<index> + 1]` (plus_one True)"""
            if not (isinstance(v, ast.Subscript) and isinstance(v.value, ast.Name) and v.value.id == roles['operands']):
                return False
            i = v.slice
            if not plus_one:
                return isinstance(i, ast.Name) and i.id == roles['index']
            return isinstance(i, ast.BinOp) and isinstance(i.op, ast.Add) and any(
                isinstance(x, ast.Name) and x.id == roles['index'] for x in (i.left, i.right))
        for st in wh.body:
            if not isinstance(st, ast.Assign):
                continue
            tg, v = st.targets[0], st.value
            if isinstance(tg, ast.Tuple) and isinstance(v, ast.Tuple) and len(tg.elts) == 2 == len(v.elts):
                pairs = list(zip(tg.elts, v.elts))
            else:
                pairs = [(tg, v)]
            for name, val in pairs:
                if isinstance(name, ast.Name) and selects(val, False):
                    roles['left'] = name.id
                if isinstance(name, ast.Name) and selects(val, True):
                    roles['right'] = name.id
        for n in ast.walk(wh):
            if isinstance(n, ast.Assign) and isinstance(n.value, ast.Call) and isinstance(n.value.func, ast.Attribute) \
                    and n.value.func.attr == 'apply' and len(n.value.args) == 2 and isinstance(n.targets[0], ast.Name):
                roles['new_ops'] = n.targets[0].id
                break
    except Exception:       # noqa: BLE001  (unexpected shape of the function: the default names are tried)
        pass
    return roles


def scan_loop_specs(ghost, roles=None):
    roles = roles or {'operands': 'operands', 'index': 'index', 'left': 'left', 'right': 'right', 'new_ops': 'new_ops'}
    OPS, IDX, LEFT, RIGHT = roles['operands'], roles['index'], roles['left'], roles['right']

    def lst(L, name=None):
        v = L.var(name or OPS)
        return v.as_seq()

    def inv_while(L):
        ops = lst(L)
        arr = A.arr_of(L.run, ops)
        n = to_z3(ops.length)
        idx = to_z3(L.var(IDX))
        return z3.And(idx >= 0, n >= 0, A.pot(arr, n) >= 0,
                      A.Ww(arr, 0, n) == ghost['W0w'], A.Wc(arr, 0, n) == ghost['W0c'],        # C01
                      A.chain_ok(arr, n),
                      z3.Implies(n >= 1, z3.And(A.outs(arr[0]) == ghost['outs0'], A.ins(arr[n - 1]) == ghost['ins0'])),
                      z3.Implies(n == 0, ghost['outs0'] == ghost['ins0']),
                      nf1(arr, n, idx),                                                          # C07 NF1
                      z3.Implies(n >= 1, hom_nf(arr, n)),                                        # C07 NF2
                      no_identity(arr, n))                                                       # C07 NF3

    def havoc_while(L):
        L.set(OPS, B.PyList(None, seq=A.op_seq('ops_h')))
        L.set(IDX, fresh_int('index_h'))

    def inv_for(L):
        left, right = L.var(LEFT), L.var(RIGHT)
        m = fresh_int('m')
        return z3.ForAll([m], z3.Implies(z3.And(m >= 0, m < to_z3(L.k)),
                                         z3.Not(z3.And(A.Chk(A.REG[m], left, right), A.Apl(A.REG[m], left, right)))))

    def variant(L):
        ops = lst(L)
        arr = A.arr_of(L.run, ops)
        n = to_z3(ops.length)
        return (n, A.pot(arr, n), n - to_z3(L.var(IDX)))

    return {(f'{RULES}.AlgebraicReductionRule.apply', 0): LoopSpec(inv_while, havoc_while, name='scan',
                                                                  variant=variant if ghost.get('termination') else None),
            (f'{RULES}.AlgebraicReductionRule.apply', 1): LoopSpec(inv_for, lambda L: None, name='registry',
                                                                  unchanged=(OPS, IDX))}


def scan(ck, T, prop):
    """obligations of AlgebraicReductionRule.apply for property `prop` ('C01' or 'C07')"""
    P = ck.P
    ghost = {'termination': prop == 'C01'}
    roles = scan_roles(P)

    def body(S):
        S.oracle = ORACLE[prop]
        ops = S.seq('operands', kind='list', sort=A.Op)
        n0 = to_z3(ops.length)
        S.assume(n0 >= 1)
        a0 = ops.arr
        ghost.update(W0w=A.Ww(a0, 0, n0), W0c=A.Wc(a0, 0, n0), outs0=A.outs(a0[0]), ins0=A.ins(a0[n0 - 1]))
        S.assume(z3.And(A.chain_ok(a0, n0), A.lem_empty(a0, 0)))
        rule = Obj(P.cls('AlgebraicReductionRule'))
        S.I.strict_rule_calls = True
        S.I.scan_roles = roles
        lst0 = B.PyList(None, seq=ops)
        out = S.call(S.I.getattr(rule, 'apply'), [lst0])
        if not out.normal:
            if prop == 'C01':
                S.oblige('exc', False, tag=f'no-exception-escapes-{out.value.name}', note=f'{out.value.args} at {out.where}')
            return
        r = B.as_seq(S.I, out.value)
        arr = A.arr_of(S.run, r)
        n = to_z3(r.length)
        for lem in (A.lem_empty(arr, 0), A.lem_split(arr, 0, 1, n), A.lem_single(arr, 0), A.lem_empty(arr, 1)):
            S.assume(lem)
        if prop == 'C01':
            S.oblige('post', z3.And(A.Ww(arr, 0, n) == ghost['W0w'], A.Wc(arr, 0, n) == ghost['W0c']),
                     tag='product-preserved', exact=False)
            S.oblige('post', A.chain_ok(arr, n), tag='result-chain-well-typed', exact=False)
            S.oblige('post', z3.Implies(n >= 1, z3.And(A.outs(arr[0]) == ghost['outs0'],
                                                       A.ins(arr[n - 1]) == ghost['ins0'])),
                     tag='end-structures-kept', exact=False)
            S.oblige('post', z3.Implies(n == 0, ghost['outs0'] == ghost['ins0']), tag='empty-result-only-for-square-chain',
                     exact=False)
        else:
            S.oblige('post', z3.Implies(n0 >= 2, nf1(arr, n)), tag='NF1-no-adjacent-pair-reducible', exact=False)
            S.oblige('post', z3.Implies(n0 >= 2, hom_nf(arr, n)), tag='NF2-at-most-one-scalar-at-the-smaller-end',
                     exact=False)
            S.oblige('post', z3.Implies(n >= 2, no_identity(arr, n)), tag='NF3-no-identity-inside-a-longer-chain',
                     exact=False)
    contracts = {f'{RULES}.IdentityRule.apply': identity_rule_contract,
                 f'{RULES}.HomothetyRule.apply': homothety_rule_contract}
    ck.explore(f'{RULES}.AlgebraicReductionRule.apply', body, T, contracts=contracts, loop_specs=scan_loop_specs(ghost, roles),
               axioms=size_axioms())


# ------------------------------------------------------------------------------- IdentityRule / HomothetyRule
Cnt = z3.Function('HomCount', A.OpArr, z3.IntSort(), z3.IntSort())     # number of scalar operators in a[0:k]


def cnt_axioms(arr, n):
    """definition of HomCount by unfolding + the (inductive, trusted) monotonicity lemma"""
    k, k2 = fresh_int('k'), fresh_int('k')
    return [Cnt(arr, 0) == 0,
            z3.ForAll([k], z3.Implies(k >= 0, Cnt(arr, k + 1) == Cnt(arr, k) + z3.If(A.isHom(arr[k]), 1, 0)),
                      patterns=[Cnt(arr, k + 1)]),
            z3.ForAll([k, k2], z3.Implies(z3.And(0 <= k, k <= k2), Cnt(arr, k) <= Cnt(arr, k2)),
                      patterns=[z3.MultiPattern(Cnt(arr, k), Cnt(arr, k2))]),
            # consequences of the definition (induction, trusted with it): a count of 1 leaves room for one scalar
            # operator only, a count of 0 for none
            z3.ForAll([k, k2], z3.Implies(z3.And(0 <= k, k < n, 0 <= k2, k2 < n, A.isHom(arr[k]), A.isHom(arr[k2]),
                                                 Cnt(arr, n) == 1), k == k2),
                      patterns=[z3.MultiPattern(A.isHom(arr[k]), A.isHom(arr[k2]))]),
            z3.ForAll([k], z3.Implies(z3.And(0 <= k, k < n, Cnt(arr, n) == 0), z3.Not(A.isHom(arr[k]))),
                      patterns=[A.isHom(arr[k])])]


def rules_scenarios(ck, T, prop):
    P = ck.P

    def identity_rule(S):
        S.oracle = ORACLE[prop]
        ops = S.seq('operands', kind='list', sort=A.Op)
        n0 = to_z3(ops.length)
        a0 = ops.arr
        rule = Obj(P.cls('IdentityRule'))
        out = S.call(S.I.getattr(rule, 'apply'), [B.PyList(None, seq=ops)])
        if not out.normal:
            S.oblige('exc', False, tag=f'no-exception-{out.value.name}', note=str(out.where))
            return
        r = B.as_seq(S.I, out.value)
        arr = A.arr_of(S.run, r)
        n = to_z3(r.length)
        S.oblige('post', z3.And(n >= 0, n <= n0), tag='length')
        S.oblige('post', z3.And(A.Ww(arr, 0, n) == A.Ww(a0, 0, n0), A.Wc(arr, 0, n) == A.Wc(a0, 0, n0)),
                 tag='product-preserved', exact=False)
        S.oblige('post', no_identity(arr, n), tag='no-identity-left')
        S.oblige('post', z3.Implies(A.chain_ok(a0, n0), A.chain_ok(arr, n)), tag='chain-well-typed', exact=False)
        S.oblige('post', z3.Implies(A.chain_ok(a0, n0), ends_kept(arr, n, a0, n0)), tag='ends-kept', exact=False)
        S.oblige('post', z3.Implies(z3.And(A.chain_ok(a0, n0), n == 0, n0 >= 1), A.outs(a0[0]) == A.ins(a0[n0 - 1])),
                 tag='empty-only-for-square-chain', exact=False)
        # order-preserving selection (witness: the ghost index map of the filtering comprehension), kept prefix / suffix
        g = S.run.ghost.get('last_filter')
        if g is None:
            S.oblige('post', False, tag='result-is-a-filtering-of-the-operands')
            return
        m, m2 = z3.Int('m_prefix'), z3.Int('m_suffix')
        S.assume(A.lem_filter_prefix(g, m))         # instances of the selection lemma (props/lemmas.py)
        S.assume(A.lem_filter_suffix(g, m2))
        S.oblige('post', sel_facts(g['idx'], arr, n, a0, n0), tag='order-preserving-selection')
        S.oblige('post', prefix_kept(arr, n, a0, n0, m), tag='identity-free-prefix-stays-in-place (every m)')
        S.oblige('post', suffix_kept(arr, n, a0, n0, m2), tag='identity-free-suffix-stays-at-the-end (every m)')
    ck.explore(f'{RULES}.IdentityRule.apply', identity_rule, T, axioms=size_axioms())

    ghost = {}

    def hom_roles():
        """locals of HomothetyRule.apply's collecting loop by role (AST): the list appended to, the product accumulated with
        `*=`, the counter incremented with `+= 1`"""
        import ast
        roles = {'new': 'new_operands', 'value': 'value', 'count': 'homothety_number'}
        try:
            fi = P.cls('HomothetyRule').methods['apply']
            loop = next(n for n in ast.walk(fi.node) if isinstance(n, ast.For))
            for n in ast.walk(loop):
                if isinstance(n, ast.AugAssign) and isinstance(n.target, ast.Name):
                    if isinstance(n.op, ast.Mult):
                        roles['value'] = n.target.id
                    elif isinstance(n.op, ast.Add):
                        roles['count'] = n.target.id
                elif isinstance(n, ast.Call) and isinstance(n.func, ast.Attribute) and n.func.attr == 'append' \
                        and isinstance(n.func.value, ast.Name):
                    roles['new'] = n.func.value.id
        except Exception:       # noqa: BLE001
            pass
        return roles
    HR = hom_roles()

    def hom_specs():
        def inv(L):
            ops = ghost['ops']
            a0, n0 = ops.arr, to_z3(ops.length)
            k = to_z3(L.k)
            new = L.var(HR['new']).as_seq()
            an = A.arr_of(L.run, new)
            nn = to_z3(new.length)
            value = to_z3(L.var(HR['value']))
            hn = to_z3(L.var(HR['count']))
            j = fresh_int('j')
            return z3.And(
                nn >= 0, nn <= k, nn + hn == k,
                A.Ww(an, 0, nn) == A.Ww(a0, 0, k), value * A.Wc(an, 0, nn) == A.Wc(a0, 0, k),
                hn == Cnt(a0, k),
                z3.ForAll([j], z3.Implies(z3.And(j >= 0, j < nn), z3.Not(A.isHom(an[j])))),
                z3.Implies(no_identity(a0, n0), no_identity(an, nn)),
                z3.Implies(A.chain_ok(a0, n0), z3.And(
                    A.chain_ok(an, nn),
                    z3.Implies(z3.And(k >= 1, nn >= 1), z3.And(A.ins(an[nn - 1]) == A.ins(a0[k - 1]),
                                                               A.outs(an[0]) == A.outs(a0[0]))),
                    z3.Implies(z3.And(k >= 1, nn == 0), A.ins(a0[k - 1]) == A.outs(a0[0])))))

        def havoc(L):
            L.set(HR['new'], B.PyList(None, seq=A.op_seq('new_h')))
            L.set(HR['value'], z3.Real('value_h'))
            L.set(HR['count'], z3.Int('hn_h'))
        return {(f'{RULES}.HomothetyRule.apply', 0): LoopSpec(inv, havoc, name='collect')}

    def homothety_rule(S):
        S.oracle = ORACLE[prop]
        ops = S.seq('operands', kind='list', sort=A.Op)
        ghost['ops'] = ops
        n0 = to_z3(ops.length)
        a0 = ops.arr
        for ax in cnt_axioms(a0, n0):
            S.assume(ax)
        for lem in (A.lem_empty(a0, 0), A.lem_split(a0, 0, 1, n0), A.lem_single(a0, 0)):
            S.assume(lem)
        k = fresh_int('kk')
        # W-fold: extending a prefix by one element (instances for every prefix length, pattern-driven)
        S.assume(z3.ForAll([k], z3.Implies(z3.And(k >= 0, k < n0),
                                           z3.And(A.Ww(a0, 0, k + 1) == z3.Concat(A.Ww(a0, 0, k), A.denw(a0[k])),
                                                  A.Wc(a0, 0, k + 1) == A.Wc(a0, 0, k) * A.denc(a0[k]))),
                           patterns=[A.Ww(a0, 0, k + 1), A.Wc(a0, 0, k + 1)]))
        rule = Obj(P.cls('HomothetyRule'))
        out = S.call(S.I.getattr(rule, 'apply'), [B.PyList(None, seq=ops)])
        if not out.normal:
            S.oblige('exc', False, tag=f'no-exception-{out.value.name}', note=str(out.where))
            return
        r = B.as_seq(S.I, out.value)
        arr = A.arr_of(S.run, r)
        n = to_z3(r.length)
        S.oblige('post', z3.And(n >= 0, n <= n0, z3.Implies(n0 >= 1, n >= 1)), tag='length')
        S.oblige('post', z3.And(A.Ww(arr, 0, n) == A.Ww(a0, 0, n0), A.Wc(arr, 0, n) == A.Wc(a0, 0, n0)),
                 tag='product-preserved', exact=False)
        S.oblige('post', z3.Implies(A.chain_ok(a0, n0), z3.And(A.chain_ok(arr, n), ends_kept(arr, n, a0, n0))),
                 tag='chain-well-typed-and-ends-kept', exact=False)
        S.oblige('post', z3.Implies(z3.And(A.chain_ok(a0, n0), n0 >= 1), hom_nf(arr, n)),
                 tag='at-most-one-scalar-at-the-smaller-end', exact=False)
        S.oblige('post', z3.Implies(no_identity(a0, n0), no_identity(arr, n)), tag='introduces-no-identity')
    ck.explore(f'{RULES}.HomothetyRule.apply', homothety_rule, T, loop_specs=hom_specs(), axioms=size_axioms())

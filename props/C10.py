"""C10 — block operators act as the block matrices of their blocks.

Facet `alg` (theories/alg.py + theories/blocks.py): a pytree container of operators is (treedef token, leaf sequence of
symbolic length n >= 1); blocks are operators of unknown class (terms of sort Op); `op.mv(x)` / `op(x)` on a block is
the ghost application app(op, x) : Vec.  Real bodies executed (re-read from /repo on every run):

  AbstractBlockOperator.__init__ / in_structure / out_structure / block_leaves / _tree_map,
  BlockRowOperator.__init__ / mv / out_structure / as_matrix,
  BlockDiagonalOperator.mv / inverse / as_matrix,
  BlockColumnOperator.__init__ / mv / in_structure / as_matrix,
  AbstractBlockDiagonalRule.apply (x4) and BlockRow/Diagonal/Column.transpose / reduce (scenarios shared with C01 / C03).

Top-level postconditions (from the property text), leaf order = pytree order k = 0..n-1, same treedef as the blocks:
  BlockDiagonal.mv(x)[k] = app(b_k, x_k);   BlockColumn.mv(x)[k] = app(b_k, x);
  BlockRow.mv(x) = rowsum(b, x, n) = (((b_0 x_0 + b_1 x_1) + b_2 x_2) + ...)   (left fold of the leaf-wise sums);
  in_structure / out_structure: the pytree (treedef of the blocks; leaves ins(b_k) resp. outs(b_k)) — the tokens
  TreeIn / TreeOut of theories/alg.py — resp. ins / outs of the first leaf for the shared side;
  constructors: ValueError iff some block's shared structure differs from the first's;
  inverse: block-wise (diag[inv b_k], LA4) iff every block is square, otherwise refused like any non-square operator;
  as_matrix: hstack / block_diag / vstack of the blocks' dense forms in leaf order (LA9);
  rules: product preserved for containers of the same layout (LA4); transposes: LA4 adjoints.

Bounded part (kind 'bounded', not counted as proof): explicit nestings (lists / tuples / dicts nested up to depth 3,
<= 3 leaves, incl. a single block and blocks whose input is itself a pytree) executed with jax's own recursion
(is_leaf called on every node), and BlockRow.mv for the literal arities 2 and 3.
"""
from __future__ import annotations

import z3

from props import C01, C03, driver
from pyvc import builtins_model as B
from pyvc.values import Obj, SSeq, fresh_int, is_z3, to_z3, z_and, z_eq
from theories import alg as A
from theories import blocks as BK
from theories.blocks import Vec, app, matof, rowsum, vstruct

BL = 'furax._base.blocks'
ORACLE = {'name': 'block_family'}
CLS = {'Row': 'BlockRowOperator', 'Diag': 'BlockDiagonalOperator', 'Col': 'BlockColumnOperator'}
F_SINGLE = 'C10-single-block-row'
F_NESTING = 'C10-block-rule-different-nesting'


def rng(k, n):
    return z3.And(k >= 0, k < n)


def container(S, name='blocks', sort=A.Op, treedef=None):
    """a flat container: (treedef token, leaf sequence of symbolic length)"""
    seq = S.seq(name, kind='list', sort=sort)
    lst = B.PyList(None, seq=seq)
    lst.treedef = treedef if treedef is not None else S.int(name + '_treedef')
    return lst, seq, seq.arr, to_z3(seq.length)


def invariant(S, kind, a, n):
    """class invariant established by the constructors (proved by the __init__ scenarios below)"""
    k = fresh_int('k')
    if kind == 'Row':
        S.assume(z3.ForAll([k], z3.Implies(rng(k, n), A.outs(a[k]) == A.outs(a[0]))))
    if kind == 'Col':
        S.assume(z3.ForAll([k], z3.Implies(rng(k, n), A.ins(a[k]) == A.ins(a[0]))))


def same_container(S, value, treedef, n, elem, what, kind='post'):
    """value is a container with the given treedef and n leaves, leaf k being elem(k)"""
    ok = isinstance(value, B.PyList)
    S.oblige(kind, bool(ok), tag=f'{what}:result-is-a-container')
    if not ok:
        return
    S.oblige(kind, z_eq(getattr(value, 'treedef', None), treedef), tag=f'{what}:same-treedef-as-the-blocks')
    seq = value.as_seq()
    S.oblige(kind, z_eq(seq.length, n), tag=f'{what}:one-leaf-per-block')
    k = fresh_int('k')
    S.oblige(kind, z3.ForAll([k], z3.Implies(rng(k, n), seq.get(k) == elem(k))), tag=f'{what}:leaf-k-in-leaf-order',
             exact=False)


def ground_sum(S, ops, xv):
    """((b_0 x_0 + b_1 x_1) + ...) for a literal list of blocks, with the ground structure facts about its partial sums
    (instances of theories/blocks.vec_axioms for the terms at hand; x_k has structure ins(b_k))"""
    want = app(ops[0], xv[0])
    S.assume(vstruct(want) == A.outs(ops[0]))
    for i in range(1, len(ops)):
        t = app(ops[i], xv[i])
        S.assume(vstruct(t) == A.outs(ops[i]))
        new = BK.vadd(want, t)
        S.assume(vstruct(new) == vstruct(want))
        want = new
    return want


def inverse_scenario(ck, T, oracle=None, twice=False):
    """BlockDiagonalOperator.inverse (shared with C06): block-wise iff every block is square, else the default lazy
    inverse of the whole operator, which refuses it.  With `twice` (C06: A.I.I denotes A) the lemma "X.I.I denotes X for an
    invertible operator of unknown class" is added: A.I is again a block diagonal of square blocks b_k.I, so the
    postcondition proved here for EVERY container applies to it: (A.I).I has the blocks b_k.I.I, which denote b_k."""
    P = ck.P
    def diag_inverse(S):
        S.oracle = oracle or ORACLE
        blocks, seq, a, n = container(S)
        S.assume(n >= 1)
        o = S.new('BlockDiagonalOperator', blocks=blocks)
        k = fresh_int('k')
        square = z3.ForAll([k], z3.Implies(rng(k, n), A.ins(a[k]) == A.outs(a[k])))
        out = S.call(S.I.getattr(o, 'inverse'), [])
        if out.raised('ValueError'):
            S.oblige('exc', z3.Not(square), tag='refused-only-if-some-block-is-not-square')
            calls = S.run.ghost.get('lazy_inverse_of', [])
            S.oblige('exc', len(calls) == 1 and calls[0] is o,
                     tag='refused-by-the-default-lazy-inverse-of-the-whole-operator (InverseOperator(self))')
            return
        if not out.normal:
            S.oblige('exc', False, tag=f'undeclared-{out.value.name}', note=str(out.where))
            return
        S.oblige('post', square, tag='inverted-block-wise-only-if-every-block-is-square')
        r = out.value
        ok = isinstance(r, Obj) and r.cls.name == 'BlockDiagonalOperator' and isinstance(r.fields.get('blocks'), B.PyList)
        S.oblige('post', bool(ok), tag='result-is-a-block-diagonal-operator')
        if not ok:
            return
        rb = r.fields['blocks']
        same_container(S, rb, blocks.treedef, n, lambda k: BK.inversed(a[k]), 'inverse.blocks[k] = b_k.I')
        ra = A.arr_of(S.run, rb.as_seq(), S.I)
        S.assume(BK.lem_inv_container(ra, a, n))        # LA4 instance for the two lists at hand
        c, w, i_, o_ = A.den_of(S.I, r)
        S.oblige('post', z3.And(w == A.invw(A.BLKW['Diag'](a, n)), c == 1), tag='denotes-the-inverse (LA4)', exact=False)

    def record_lazy_inverse(interp, fi, args, kwargs):
        if fi.fullname == 'furax._base.core.InverseOperator.__init__':
            interp.run.ghost.setdefault('lazy_inverse_of', []).append(args[1] if len(args) > 1 else None)
        return None
    ck.explore(f'{BL}.BlockDiagonalOperator.inverse', diag_inverse, T, axioms=BK.inverse_axioms(),
               call_hook=record_lazy_inverse)
    if twice:
        def involution(S):
            """consequence of the contract of X.I (theories/blocks.inverse_axioms) used above: for an invertible operator
            of unknown class, X.I.I denotes X (LA3: inv(inv f) = f; 1/(1/c) = c for c != 0)"""
            o = z3.Const('o', A.Op)
            S.inputs['o'] = o
            S.assume(A.denc(o) != 0)
            oo = BK.inversed(BK.inversed(o))
            S.oblige('lemma', z3.And(A.denw(oo) == A.denw(o), A.denc(oo) == A.denc(o), A.ins(oo) == A.ins(o),
                                     A.outs(oo) == A.outs(o)), tag='inverse-of-the-inverse denotes the operator', exact=False)
        ck.explore(f'{BL}.BlockDiagonalOperator.inverse', involution, T, label='lemma', axioms=BK.inverse_axioms())



def build(ck):
    P = ck.P
    T = BK.BlockTheory(P)
    ck.trust('lemma:LA4 block-matrix products, adjoints and block-wise inverse of row / diagonal / column operators',
             'lemma:LA9 Mat maps row / diag / col to hstack / block_diag / vstack of the blocks\' dense forms',
             'lemma:container-congruence (block row / diagonal / column are functions of their blocks)',
             'lemma:induction on the number of leaves folded (dependency contract of jax.tree.reduce, theories/blocks.py)',
             'discharges:theories/alg.block_structure_contracts (callee contracts of in_structure / out_structure assumed by C01, '
             'C03, C07: TreeIn / TreeOut = the container of the blocks\' structures, ins / outs of the first leaf on the shared side) '
             'and theories/alg.container_callee_contracts Block*.__init__ (ValueError iff a shared structure differs)',
             'ref:C03 transposes of block operators (scenarios shared, run here too)',
             'ref:C01 reduce of block operators and the four block rules (scenarios shared, run here too)')
    ck.assume_note('C10: a pytree container of operators is a treedef token + the sequence of its leaves (flat model); '
                   'nestings are executed explicitly only in the bounded scenarios')
    ck.assume_note('C10: blocks are operators of unknown class: op.mv(x) / op(x) is the ghost application app(op, x) with '
                   'the structure contract vstruct(app(o, x)) = outs(o) for vstruct(x) = ins(o) (C05); mv inputs conform '
                   'to in_structure() (same container layout, leaf k of structure ins(b_k))')
    ck.assume_note('C10: the structure tokens TreeIn / TreeOut of theories/alg.py do not carry the treedef (two containers with '
                   'the same leaves in different layouts get the same token)')
    # background axioms are given per scenario, as few as each needs (quantified axioms make refutation slow)
    NOAX = []

    # ================================================================== constructors
    def init_of(kind):
        shared = {'Row': A.outs, 'Col': A.ins, 'Diag': None}[kind]

        def sc(S):
            S.oracle = ORACLE
            blocks, seq, a, n = container(S)
            S.assume(n >= 1)
            o = Obj(P.cls(CLS[kind]))
            made = S.call(S.I.getattr(o, '__init__'), [blocks])
            k = fresh_int('k')
            if shared is None:
                S.oblige('exc', made.normal, tag='Diag:no-validation')
            else:
                # "some leaf after the first has another shared structure", stated over leaf k (k >= 1) and over leaf
                # k + 1 (k >= 0): the same statement twice, so that the solver's matching finds the instance whichever
                # way the real body walks the leaves
                differ = z3.Exists([k], z3.And(k >= 1, k < n, shared(a[k]) != shared(a[0])))
                differ1 = z3.Exists([k], z3.And(k >= 0, k < n - 1, shared(a[k + 1]) != shared(a[0])))
                side = 'output' if kind == 'Row' else 'input'
                if made.raised('ValueError'):
                    S.oblige('exc', z3.Or(differ, differ1), tag=f'{kind}:ValueError-only-if-some-{side}-structure-differs-from-the-first')
                    return
                if not made.normal:
                    S.oblige('exc', False, tag=f'{kind}:undeclared-{made.value.name}', note=str(made.where))
                    return
                S.oblige('exc', z3.Not(differ1), tag=f'{kind}:blocks-with-mismatching-{side}-structures-are-refused')
            if made.normal:
                S.oblige('post', o.fields.get('blocks') is blocks, tag=f'{kind}:stores-the-container-as-given')
                S.oblige('post', set(o.fields) == {'blocks'}, tag=f'{kind}:no-other-field')
        return sc
    for kind in ('Row', 'Diag', 'Col'):
        name = f'{BL}.{CLS[kind]}.__init__' if kind != 'Diag' else f'{BL}.AbstractBlockOperator.__init__'
        ck.explore(name, init_of(kind), T, axioms=NOAX)

    # ================================================================== block_leaves, _tree_map
    def leaves_and_map(S):
        S.oracle = ORACLE
        kind = ('Row', 'Diag', 'Col')[S.choose(3)]
        blocks, seq, a, n = container(S)
        S.assume(n >= 1)
        o = S.new(CLS[kind], blocks=blocks)
        lv = S.call(B.PyFunc(lambda interp: interp.getattr(o, 'block_leaves'), 'block_leaves'), [])
        ok = lv.normal and isinstance(lv.value, B.PyList)
        S.oblige('post', bool(ok), tag=f'{kind}:block_leaves-is-a-list')
        if ok:
            ls = lv.value.as_seq()
            k = fresh_int('k')
            S.oblige('post', z_eq(ls.length, n), tag=f'{kind}:block_leaves-has-one-entry-per-leaf')
            S.oblige('post', z3.ForAll([k], z3.Implies(rng(k, n), ls.get(k) == a[k])), tag=f'{kind}:block_leaves-in-leaf-order')
        # _tree_map(f, extra): f(block_k, extra_k) leaf by leaf, same treedef
        g = z3.Function('g', A.Op, Vec, Vec)
        extra, xs, xa, m = container(S, 'extra', Vec, treedef=blocks.treedef)
        S.assume(m == n)
        f = B.PyFunc(lambda interp, op, x: g(op, x), 'g')
        out = S.call(S.I.getattr(o, '_tree_map'), [f, extra])
        S.oblige('post', out.normal, tag=f'{kind}:_tree_map-returns')
        if out.normal:
            same_container(S, out.value, blocks.treedef, n, lambda k: g(a[k], xa[k]), f'{kind}:_tree_map(g, extra)')
    ck.explore(f'{BL}.AbstractBlockOperator._tree_map', leaves_and_map, T, axioms=NOAX)

    # ================================================================== in_structure / out_structure
    def structures(S):
        S.oracle = ORACLE
        kind = ('Row', 'Diag', 'Col')[S.choose(3)]
        blocks, seq, a, n = container(S)
        S.assume(n >= 1)
        invariant(S, kind, a, n)
        o = S.new(CLS[kind], blocks=blocks)
        for io, sel in (('in', A.ins), ('out', A.outs)):
            out = S.call(S.I.getattr(o, f'{io}_structure'), [])
            S.oblige('post', out.normal, tag=f'{kind}:{io}_structure-returns')
            if not out.normal:
                continue
            if (kind, io) in (('Row', 'out'), ('Col', 'in')):
                S.oblige('post', z_eq(out.value, sel(a[0])), tag=f'{kind}:{io}_structure-is-that-of-the-first-leaf (shared)')
            else:
                same_container(S, out.value, blocks.treedef, n, lambda k, sel=sel: sel(a[k]),
                               f'{kind}:{io}_structure = Tree{io.capitalize()}')
    ck.explore(f'{BL}.AbstractBlockOperator.in_structure', structures, T, axioms=NOAX)

    # ================================================================== mv
    def conform(S, a, xa, n):
        k = fresh_int('k')
        S.assume(z3.ForAll([k], z3.Implies(rng(k, n), vstruct(xa[k]) == A.ins(a[k]))))

    def diag_mv(S):
        S.oracle = ORACLE
        blocks, seq, a, n = container(S)
        x, xs, xa, m = container(S, 'x', Vec, treedef=blocks.treedef)
        S.assume(z3.And(n >= 1, m == n))        # requires: x has the layout of in_structure()
        conform(S, a, xa, n)
        o = S.new('BlockDiagonalOperator', blocks=blocks)
        out = S.call(S.I.getattr(o, 'mv'), [x])
        S.oblige('post', out.normal, tag='returns', note=str(out.where))
        if out.normal:
            same_container(S, out.value, blocks.treedef, n, lambda k: app(a[k], xa[k]), 'mv(x)[k] = b_k(x_k)')
    ck.explore(f'{BL}.BlockDiagonalOperator.mv', diag_mv, T, axioms=NOAX)

    def col_mv(S):
        S.oracle = ORACLE
        blocks, seq, a, n = container(S)
        S.assume(n >= 1)
        invariant(S, 'Col', a, n)
        x = z3.Const('x', Vec)
        S.inputs['x'] = x
        S.assume(vstruct(x) == A.ins(a[0]))
        o = S.new('BlockColumnOperator', blocks=blocks)
        out = S.call(S.I.getattr(o, 'mv'), [x])
        S.oblige('post', out.normal, tag='returns', note=str(out.where))
        if out.normal:
            same_container(S, out.value, blocks.treedef, n, lambda k: app(a[k], x), 'mv(x)[k] = b_k(x)')
    ck.explore(f'{BL}.BlockColumnOperator.mv', col_mv, T, axioms=NOAX)

    def row_mv(S):
        S.oracle = ORACLE
        blocks, seq, a, n = container(S)
        x, xs, xa, m = container(S, 'x', Vec, treedef=blocks.treedef)
        S.assume(m == n)
        S.assume(n >= 2)
        invariant(S, 'Row', a, n)
        conform(S, a, xa, n)
        S.run.ghost['fold_spec'] = BK.FoldSpec(
            inv=lambda k: rowsum(a, xa, k),
            lemmas=lambda k: [BK.rowsum_def(a, xa, k)],
            facts=lambda k: vstruct(rowsum(a, xa, k)) == A.outs(a[0]))
        S.assume(BK.rowsum_def(a, xa, 1))
        o = S.new('BlockRowOperator', blocks=blocks)
        out = S.call(S.I.getattr(o, 'mv'), [x])
        fnd = None
        S.oblige('post', out.normal, tag='returns', note=str(out.where))
        if not out.normal:
            return
        v = out.value
        isvec = is_z3(v) and v.sort() == Vec
        S.oblige('post', bool(isvec), tag='result-is-a-vector (not a pair (operator, input))', finding=fnd)
        if isvec:
            S.oblige('post', v == rowsum(a, xa, n), tag='mv(x) = sum over the leaves of b_k(x_k)', exact=False, finding=fnd)
            S.oblige('post', vstruct(v) == A.outs(a[0]), tag='result-has-the-shared-output-structure', exact=False,
                     finding=fnd)
    ck.explore(f'{BL}.BlockRowOperator.mv', row_mv, T, label='arity>=2', axioms=BK.vec_axioms())

    # literal arities: arity ONE is a case of its own (jax.tree.reduce returns the single leaf without calling the
    # function: known defect, finding C10-single-block-row); arities 2 and 3 are a bounded cross-check of the fold
    # contract (the reduce is unrolled, no invariant involved).  Quantifier-free: ground structure facts only.
    def row_mv_literal(S, arity):
        S.oracle = ORACLE
        ops = [z3.Const(f'b{i}', A.Op) for i in range(arity)]
        xs = [z3.Const(f'x{i}', Vec) for i in range(arity)]
        for i in range(arity):
            S.inputs[f'b{i}'], S.inputs[f'x{i}'] = ops[i], xs[i]
            S.assume(z3.And(A.outs(ops[i]) == A.outs(ops[0]), vstruct(xs[i]) == A.ins(ops[i])))
        want = ground_sum(S, ops, xs)
        blocks, x = B.PyList(list(ops)), B.PyList(list(xs))
        o = S.new('BlockRowOperator', blocks=blocks)
        out = S.call(S.I.getattr(o, 'mv'), [x])
        kind, fnd = ('post', F_SINGLE) if arity == 1 else ('bounded', None)
        isvec = out.normal and is_z3(out.value) and out.value.sort() == Vec
        S.oblige(kind, bool(isvec), tag=f'arity-{arity}: result-is-a-vector (not a pair (operator, input))', finding=fnd)
        if isvec:
            S.oblige(kind, out.value == want, tag=f'arity-{arity}: mv(x) = ((b_0 x_0 + b_1 x_1) + ...)', exact=False,
                     finding=fnd)
    for arity in (1, 2, 3):
        ck.explore(f'{BL}.BlockRowOperator.mv', (lambda ar: lambda S: row_mv_literal(S, ar))(arity), T,
                   label=f'literal-arity-{arity}', axioms=NOAX)

    # ================================================================== inverse
    inverse_scenario(ck, T)

    # ================================================================== as_matrix
    FN = {'Row': 'jax.numpy.hstack', 'Diag': 'jax.scipy.linalg.block_diag', 'Col': 'jax.numpy.vstack'}

    def as_matrix(S, kind):
        S.oracle = ORACLE
        blocks, seq, a, n = container(S)
        S.assume(n >= 1)
        invariant(S, kind, a, n)
        o = S.new(CLS[kind], blocks=blocks)
        out = S.call(S.I.getattr(o, 'as_matrix'), [])
        ok = out.normal and isinstance(out.value, BK.Recorded)
        S.oblige('post', bool(ok), tag=f'{kind}:returns-what-the-stacking-function-returns', note=str(out.where))
        if not ok:
            return
        r = out.value
        S.oblige('post', r.what == FN[kind], tag=f'{kind}:stacked-with-{FN[kind].rsplit(".", 1)[1]}', note=r.what)
        arg = r.args[0] if len(r.args) == 1 else None
        if isinstance(arg, B.StarArgs):
            mats, starred = arg.seq, True
        else:
            mats, starred = B.as_seq_or_none(S.I, arg), False
        S.oblige('post', mats is not None and not r.kwargs and starred == (kind == 'Diag'),
                 tag=f'{kind}:one-argument-list-of-matrices')
        if mats is None:
            return
        k = fresh_int('k')
        S.oblige('post', z_eq(mats.length, n), tag=f'{kind}:one-matrix-per-leaf')
        S.oblige('post', z3.ForAll([k], z3.Implies(rng(k, n), mats.get(k) == matof(a[k]))),
                 tag=f'{kind}:matrix-k-is-as_matrix-of-leaf-k (leaf order)', exact=False)
    for kind in ('Row', 'Diag', 'Col'):
        ck.explore(f'{BL}.{CLS[kind]}.as_matrix', (lambda kd: lambda S: as_matrix(S, kd))(kind), T, axioms=NOAX)

    # ================================================================== transposes (C03), reduce and rules (C01)
    T3 = A.AlgTheory(P, core_as_terms=False)
    C03.block_transposes(ck, T3, driver.size_axioms() + A.reduce_axioms() + T3.class_axioms() + A.transpose_axioms()
                         + A.block_struct_axioms())
    T1 = A.AlgTheory(P)
    ax1 = driver.size_axioms() + A.reduce_axioms() + T1.class_axioms()
    C01.block_reduces(ck, T1, ax1)
    C01.block_rules(ck, T1, ax1, different_layout_finding=F_NESTING)

    build_nested(ck)


# ====================================================================== bounded: explicit nestings
def nestings():
    """(name, builder(leaf) -> nesting) with `leaf(i)` the i-th leaf in pytree order"""
    L = lambda *xs: B.PyList(list(xs))       # noqa: E731
    return [
        ('[b0]', 1, lambda f: L(f(0))),
        ('(b0,)', 1, lambda f: (f(0),)),
        ('[[b0]]', 1, lambda f: L(L(f(0)))),
        ('[b0,b1]', 2, lambda f: L(f(0), f(1))),
        ('(b0,b1)', 2, lambda f: (f(0), f(1))),
        ("{'a':b0,'b':b1}", 2, lambda f: {'a': f(0), 'b': f(1)}),
        ('[[b0,b1],b2]', 3, lambda f: L(L(f(0), f(1)), f(2))),
        ("{'a':b0,'b':(b1,b2)}", 3, lambda f: {'a': f(0), 'b': (f(1), f(2))}),
        ('[b0,[b1,[b2]]]', 3, lambda f: L(f(0), L(f(1), L(f(2))))),
        ('((b0,b1),(b2,))', 3, lambda f: ((f(0), f(1)), (f(2),))),
    ]


def build_nested(ck):
    P = ck.P
    T = BK.NestedBlockTheory(P)
    cases = nestings()
    stats = {'cases': 0}

    def leafvec(i, pytree_valued):
        """the input of block i: a vector, or (pytree-valued blocks) an explicit pytree of two vectors"""
        u = z3.Const(f'x{i}', Vec)
        if pytree_valued and i == 0:
            return {'p': z3.Const('x0p', Vec), 'q': (z3.Const('x0q', Vec),)}
        return u

    def nested(S):
        S.oracle = ORACLE
        name, n, mk = cases[S.choose(len(cases))]
        kind = ('Row', 'Diag', 'Col')[S.choose(3)]
        pyt = S.choose(2) == 1
        ops = [z3.Const(f'b{i}', A.Op) for i in range(n)]
        S.inputs['nesting'] = name
        blocks = mk(lambda i: ops[i])
        shape_b, _ = BK.shape_of(blocks)
        xin = [leafvec(i, pyt) for i in range(n)]
        xv = [BK.reify_vec(v) for v in xin]
        for i in range(n):
            S.assume(vstruct(xv[i]) == A.ins(ops[i]))
            if kind == 'Row':
                S.assume(A.outs(ops[i]) == A.outs(ops[0]))
            if kind == 'Col':
                S.assume(A.ins(ops[i]) == A.ins(ops[0]))
        want = ground_sum(S, ops, xv) if kind == 'Row' else None
        o = S.new(CLS[kind], blocks=blocks)
        tag = f'{kind} {name}' + (' pytree-valued-input' if pyt else '')
        # ---- mv
        x = xin[0] if kind == 'Col' else mk(lambda i: xin[i])
        out = S.call(S.I.getattr(o, 'mv'), [x])
        if kind == 'Row':
            good = out.normal and is_z3(out.value) and out.value.sort() == Vec
            S.oblige('bounded', bool(good) and out.value == want, tag=f'{tag}: mv = sum of b_k(x_k) in leaf order',
                     exact=False, finding=F_SINGLE if n == 1 else None)
        else:
            ok = out.normal
            shp, lv = BK.shape_of(out.value) if ok else (None, [])
            S.oblige('bounded', bool(ok) and shp == shape_b and len(lv) == n, tag=f'{tag}: mv keeps the nesting of the blocks')
            if ok and len(lv) == n:
                S.oblige('bounded', z_and(*[lv[i] == app(ops[i], xv[0] if kind == 'Col' else xv[i]) for i in range(n)]),
                         tag=f'{tag}: leaf k of mv is b_k applied to its input', exact=False)
        if pyt:
            return
        # ---- structures, leaves, dense form, inverse
        for io, sel in (('in', A.ins), ('out', A.outs)):
            st = S.call(S.I.getattr(o, f'{io}_structure'), [])
            if (kind, io) in (('Row', 'out'), ('Col', 'in')):
                S.oblige('bounded', st.normal and z_eq(st.value, sel(ops[0])), tag=f'{tag}: {io}_structure of the first leaf')
            else:
                shp, lv = BK.shape_of(st.value) if st.normal else (None, [])
                S.oblige('bounded', st.normal and shp == shape_b and len(lv) == n and
                         z_and(*[z_eq(lv[i], sel(ops[i])) for i in range(len(lv))]), tag=f'{tag}: {io}_structure nests like the blocks')
        m = S.call(S.I.getattr(o, 'as_matrix'), [])
        ok = m.normal and isinstance(m.value, BK.Recorded) and len(m.value.args) >= 1
        if ok:
            args = m.value.args if kind == 'Diag' else tuple(S.I.iter_concrete(m.value.args[0]))
            ok = len(args) == n and all(z_eq(args[i], matof(ops[i])) is True for i in range(n))
        S.oblige('bounded', bool(ok), tag=f'{tag}: as_matrix stacks the dense blocks in pytree-leaf order')
        if kind == 'Diag':
            for i in range(n):
                S.assume(A.ins(ops[i]) == A.outs(ops[i]))
            inv = S.call(S.I.getattr(o, 'inverse'), [])
            ok = inv.normal and isinstance(inv.value, Obj) and inv.value.cls.name == 'BlockDiagonalOperator'
            shp, lv = BK.shape_of(inv.value.fields['blocks']) if ok else (None, [])
            S.oblige('bounded', bool(ok) and shp == shape_b and len(lv) == n and
                     z_and(*[z_eq(lv[i], BK.inversed(ops[i])) for i in range(len(lv))]),
                     tag=f'{tag}: inverse nests like the blocks, leaf k inverted')
        stats['cases'] += 1
    ck.explore(f'{BL}.AbstractBlockOperator._tree_map', nested, T, label='explicit-nestings', axioms=[])
    ck.bounded.append({'what': 'mv / in_structure / out_structure / as_matrix / inverse of the three block operators on explicit '
                               'nestings executed with jax\'s own recursion (is_leaf called on every node): '
                               + ', '.join(c[0] for c in cases) + '; with and without a pytree-valued input for block 0 '
                               "({'p': v, 'q': (w,)}); BlockRow.mv for the literal arities 2 and 3",
                       'bound': '<= 3 leaves, nesting depth <= 3, lists / tuples / dicts', 'obligation_kind': 'bounded'})

"""C20 — Stokes containers and pytree helpers act leaf-wise and consistently (pack; `point` facet).

Every obligation comes from executing the REAL bodies of furax.landscapes.StokesPyTree (and its four subclasses)
and of furax.tree on generic elements: free real components, opaque shape / dtype tokens.  Operand ORDER is made
observable by a non-commutative uninterpreted binary function (and by sub / truediv / pow through Python's
operator protocol); the conjugation side of `dot` by a non-symmetric uninterpreted `vdot`."""
from __future__ import annotations

import z3

from pyvc import builtins_model as B
from pyvc.values import NOT_IMPLEMENTED, ClassRef, Ext, Obj, PyFunc, Unsupported
from theories import point as PT
from theories.point import ArrV, KINDS, STOKES, SdsV, comp, f_getitem, f_pow, f_vdot, stokes_obj, term_of

from ._stokes_common import check_structure, class_for_scenarios, structure_for_scenarios

LS = 'furax.landscapes'
TR = 'furax.tree'
F = z3.Function('F', PT.R, PT.R, PT.R)          # a non-commutative binary operation


def arr(S, name, **kw):
    """a jax array with a free real generic element and its own opaque shape / dtype"""
    return ArrV(S.real(name), kw.pop('shape', PT.ShapeTok(f'shape_{name}')),
                kw.pop('dtype', z3.Const(f'dtype_{name}', PT.DT)), **kw)


def stokes(S, kind, prefix):
    clsname, comps = STOKES[kind]
    o = S.new(clsname)
    for c in comps:
        o.fields[c] = arr(S, f'{prefix}_{c}')
    return o


def is_stokes(v, kind):
    return isinstance(v, Obj) and v.cls.name == STOKES[kind][0] and tuple(v.fields) == STOKES[kind][1] and all(
        isinstance(x, ArrV) for x in v.fields.values())


def other_operands(S, kind):
    """operands that are neither a container of the same class, a scalar nor an array"""
    wrong = 'QU' if kind != 'QU' else 'IQU'
    return [('None', None), ('list-of-arrays', B.PyList([arr(S, 'l0'), arr(S, 'l1')])),
            ('tuple-of-arrays', (arr(S, 't0'),)), (f'container-of-class-{wrong}', stokes(S, wrong, 'w')),
            ('foreign-object', PT.OtherV('object')), ('dict', {'i': arr(S, 'd0')})]


SYM = {'add': 'Add', 'sub': 'Sub', 'mul': 'Mult', 'truediv': 'Div', 'pow': 'Pow'}


def apply_sym(op, x, y):
    return {'add': lambda: x + y, 'sub': lambda: x - y, 'mul': lambda: x * y, 'truediv': lambda: x / y,
            'pow': lambda: f_pow(x, y)}[op]()


# ------------------------------------------------------------------------------------------------ pytree shapes
def tree_cases(S, prefix, leaf):
    """(name, tree, leaves in pytree order); `leaf(name)` builds a fresh leaf"""
    def L(n):
        return leaf(f'{prefix}{n}')
    out = []
    x = L(0)
    out.append(('single-leaf', x, [x]))
    a, b = L(1), L(2)
    out.append(('tuple2', (a, b), [a, b]))
    a, b, c = L(3), L(4), L(5)
    out.append(('list3', B.PyList([a, b, c]), [a, b, c]))
    a, b = L(6), L(7)
    out.append(('dict-keys-b-a', {'b': a, 'a': b}, [b, a]))            # dict leaves come in sorted key order
    a, b, c, d = L(8), L(9), L(10), L(11)
    out.append(('nested', {'a': B.PyList([a, (b, c)]), 'b': d, 'c': None}, [a, b, c, d]))
    for kind in KINDS:
        clsname, comps = STOKES[kind]
        o = S.new(clsname)
        ls = []
        for cname in comps:
            o.fields[cname] = L(f'_{kind}_{cname}')
            ls.append(o.fields[cname])
        out.append((f'stokes-{kind}', o, ls))
    return out


def build(ck):
    T = PT.theory()
    P = ck.P
    ck.assume_note('C20: arrays are one generic real element with opaque shape and dtype tokens; dtype promotion is the '
                   'uninterpreted symmetric token result_type(dtypes...)')
    ck.assume_note('C20: pytree shapes are enumerated (single leaf, tuple, list, dict, a nested dict/list/tuple with a '
                   'None, the four Stokes classes); from_stokes arities 0..6; pytrees are non-empty for '
                   'as_promoted_dtype (jnp.result_type() of nothing raises)')
    ck.assume_note('C20: random factories are checked for structure and key wiring only (keys split per leaf)')

    # ================================================================== _operation / _roperation (operand order)
    def operation(method, kind):
        refl = method == '_roperation'

        def sc(S):
            S.oracle = {'name': 'arith', 'stokes': kind}
            a = stokes(S, kind, 'a')
            opF = PyFunc(lambda interp, x, y: ArrV(F(term_of(x), term_of(y))), 'F')
            comps = STOKES[kind][1]
            case = S.choose(4)
            if case == 0:
                b = stokes(S, kind, 'b')
                out = S.call(S.I.getattr(a, method), [opF, b])
                ok = out.normal and is_stokes(out.value, kind)
                S.oblige('post', bool(ok), tag='same-class:returns-the-same-class')
                if ok:
                    for c in comps:
                        exp = F(comp(b, c), comp(a, c)) if refl else F(comp(a, c), comp(b, c))
                        S.oblige('post', comp(out.value, c) == exp, tag=f'same-class:component-{c}-keeps-operand-order')
            elif case in (1, 2):
                what = 'scalar' if case == 1 else 'array'
                s = S.real('s') if case == 1 else arr(S, 'r')
                out = S.call(S.I.getattr(a, method), [opF, s])
                ok = out.normal and is_stokes(out.value, kind)
                S.oblige('post', bool(ok), tag=f'{what}:returns-the-same-class')
                if ok:
                    for c in comps:
                        exp = F(term_of(s), comp(a, c)) if refl else F(comp(a, c), term_of(s))
                        S.oblige('post', comp(out.value, c) == exp, tag=f'{what}:component-{c}-keeps-operand-order')
            else:
                others = other_operands(S, kind)
                name, o = others[S.choose(len(others))]
                out = S.call(S.I.getattr(a, method), [opF, o])
                S.oblige('post', out.normal and out.value is NOT_IMPLEMENTED, tag=f'other:{name}-gives-NotImplemented')
        return sc
    for method in ('_operation', '_roperation'):
        for kind in KINDS:
            ck.explore(f'{LS}.StokesPyTree.{method}', operation(method, kind), T, label=kind)

    # ================================================================== dunders through the operator protocol
    def dunder(op, kind):
        def sc(S):
            S.oracle = {'name': 'arith', 'stokes': kind, 'op': op}
            a = stokes(S, kind, 'a')
            comps = STOKES[kind][1]
            case = S.choose(6)
            sym = SYM[op]

            def run(x, y):
                return S.call(PyFunc(lambda interp: interp.binop(sym, x, y), 'binop'), [])
            if case == 0:
                b = stokes(S, kind, 'b')
                out = run(a, b)
                ok = out.normal and is_stokes(out.value, kind)
                S.oblige('post', bool(ok), tag='a∘b:returns-the-same-class')
                if ok:
                    for c in comps:
                        S.oblige('post', comp(out.value, c) == apply_sym(op, comp(a, c), comp(b, c)), tag=f'a∘b:component-{c}')
            elif case in (1, 2, 3, 4):
                scalar, refl = case in (1, 2), case in (2, 4)
                s = S.real('s') if scalar else arr(S, 'r')
                what = ('s∘a' if refl else 'a∘s') if scalar else ('r∘a' if refl else 'a∘r')
                out = run(s, a) if refl else run(a, s)
                ok = out.normal and is_stokes(out.value, kind)
                S.oblige('post', bool(ok), tag=f'{what}:returns-the-same-class')
                if ok:
                    for c in comps:
                        exp = apply_sym(op, term_of(s), comp(a, c)) if refl else apply_sym(op, comp(a, c), term_of(s))
                        S.oblige('post', comp(out.value, c) == exp, tag=f'{what}:component-{c}')
            else:
                others = [o for o in other_operands(S, kind) if o[0] in ('None', 'foreign-object') or o[0].startswith('container')]
                name, o = others[S.choose(len(others))]
                for refl in (False, True):
                    out = run(o, a) if refl else run(a, o)
                    S.oblige('exc', out.raised('TypeError'), tag=f'{"other∘a" if refl else "a∘other"}:{name}-is-a-TypeError')
        return sc
    for op in SYM:
        for kind in KINDS:
            ck.explore(f'{LS}.StokesPyTree.__{op}__', dunder(op, kind), T, label=kind)

    # ================================================================== unary, indexing, matmul, ravel, reshape
    def unary(kind):
        def sc(S):
            S.oracle = {'name': 'unary', 'stokes': kind}
            a = stokes(S, kind, 'a')
            comps = STOKES[kind][1]
            which = S.choose(8)
            if which == 0:
                out = S.call(S.I.getattr(a, '__neg__'), [])
                ok = out.normal and is_stokes(out.value, kind)
                S.oblige('post', bool(ok), tag='neg:returns-the-same-class')
                if ok:
                    for c in comps:
                        S.oblige('post', comp(out.value, c) == -comp(a, c), tag=f'neg:component-{c}')
            elif which == 1:
                out = S.call(S.I.getattr(a, '__abs__'), [])
                ok = out.normal and is_stokes(out.value, kind)
                S.oblige('post', bool(ok), tag='abs:returns-the-same-class')
                if ok:
                    for c in comps:
                        S.oblige('post', comp(out.value, c) == z3.If(comp(a, c) >= 0, comp(a, c), -comp(a, c)),
                                 tag=f'abs:component-{c}')
            elif which == 2:
                out = S.call(S.I.getattr(a, '__pos__'), [])
                ok = out.normal and is_stokes(out.value, kind)
                S.oblige('post', bool(ok), tag='pos:returns-the-same-class')
                if ok:
                    for c in comps:
                        S.oblige('post', comp(out.value, c) == comp(a, c), tag=f'pos:component-{c}')
            elif which == 3:
                idxs = [('array', arr(S, 'index')), ('int', S.int('k')), ('tuple', (slice(None), arr(S, 'index2')))]
                name, idx = idxs[S.choose(len(idxs))]
                out = S.call(S.I.getattr(a, '__getitem__'), [idx])
                ok = out.normal and is_stokes(out.value, kind)
                S.oblige('post', bool(ok), tag=f'getitem[{name}]:returns-the-same-class')
                if ok:
                    tok = PT.index_term(S.I, idx)
                    for c in comps:
                        S.oblige('post', comp(out.value, c) == f_getitem(comp(a, c), tok),
                                 tag=f'getitem[{name}]:component-{c}-indexed-with-the-same-index')
            elif which == 4:
                b = stokes(S, kind, 'b')
                out = S.call(S.I.getattr(a, '__matmul__'), [b])
                ok = out.normal and isinstance(out.value, ArrV)
                S.oblige('post', bool(ok), tag='matmul:returns-one-array')
                if ok:
                    S.oblige('post', out.value.term == sum(f_vdot(comp(a, c), comp(b, c)) for c in comps),
                             tag='matmul:sum-of-vdot(self.c, other.c)')
            elif which == 5:
                others = other_operands(S, kind) + [('scalar', S.real('s')), ('array', arr(S, 'r'))]
                name, o = others[S.choose(len(others))]
                out = S.call(S.I.getattr(a, '__matmul__'), [o])
                S.oblige('post', out.normal and out.value is NOT_IMPLEMENTED, tag=f'matmul:{name}-gives-NotImplemented')
            elif which == 6:
                out = S.call(S.I.getattr(a, 'ravel'), [])
                ok = out.normal and is_stokes(out.value, kind)
                S.oblige('post', bool(ok), tag='ravel:returns-the-same-class')
                if ok:
                    for c in comps:
                        r = out.value.fields[c]
                        S.oblige('post', r.info.get('ravel_of') is a.fields[c], tag=f'ravel:component-{c}-is-its-own-ravel')
            else:
                shape = PT.ShapeTok('new_shape')
                out = S.call(S.I.getattr(a, 'reshape'), [shape])
                ok = out.normal and is_stokes(out.value, kind)
                S.oblige('post', bool(ok), tag='reshape:returns-the-same-class')
                if ok:
                    for c in comps:
                        r = out.value.fields[c]
                        S.oblige('post', r.info.get('reshape_of') is a.fields[c] and r.shape is shape,
                                 tag=f'reshape:component-{c}-reshaped-to-the-given-shape')
        return sc
    for kind in KINDS:
        ck.explore(f'{LS}.StokesPyTree.__neg__/__abs__/__pos__/__getitem__/__matmul__/ravel/reshape', unary(kind), T,
                   label=kind)

    def props(kind):
        def sc(S):
            S.oracle = {'name': 'unary', 'stokes': kind}
            shape, dtype = PT.ShapeTok('shape'), z3.Const('dtype', PT.DT)
            clsname, comps = STOKES[kind]
            a = S.new(clsname)
            for c in comps:
                a.fields[c] = ArrV(S.real(f'a_{c}'), shape, dtype)
            sh = S.call(PyFunc(lambda interp: interp.getattr(a, 'shape'), 'shape'), [])
            dt = S.call(PyFunc(lambda interp: interp.getattr(a, 'dtype'), 'dtype'), [])
            st = S.call(PyFunc(lambda interp: interp.getattr(a, 'structure'), 'structure'), [])
            S.oblige('post', sh.normal and sh.value is shape, tag='shape-is-the-components-shape')
            S.oblige('post', dt.normal and PT.same_token(dt.value, dtype), tag='dtype-is-the-components-dtype')
            if st.normal:
                check_structure(S, st.value, kind, shape, dtype)
            else:
                S.oblige('exc', False, tag='structure-raises')
        return sc
    for kind in KINDS:
        ck.explore(f'{LS}.StokesPyTree.shape/dtype/structure', props(kind), T, label=kind)

    # ================================================================== from_stokes
    base = ClassRef(P.cls('StokesPyTree'))
    by_arity = {1: 'I', 2: 'QU', 3: 'IQU', 4: 'IQUV'}

    def promoted(leaves, S):
        return PT.result_type_token([PT.dtype_of(S.I, x) for x in leaves])

    def check_promoted_container(S, got, kind, leaves, what):
        """got is the class of `kind`; component k carries leaf k's elements / shape with the common promoted dtype"""
        clsname, comps = STOKES[kind]
        ok = isinstance(got, Obj) and got.cls.name == clsname and tuple(got.fields) == comps
        S.oblige('post', bool(ok), tag=f'{what}:returns-the-{kind}-class')
        if not ok:
            return
        dt = promoted(leaves, S)
        for c, src in zip(comps, leaves):
            v = got.fields[c]
            if isinstance(src, SdsV):
                good = isinstance(v, SdsV) and PT.same_token(v.shape, src.shape) and PT.same_token(v.dtype, dt)
                S.oblige('post', bool(good), tag=f'{what}:component-{c}-keeps-its-shape-with-the-promoted-dtype')
            else:
                good = isinstance(v, ArrV) and PT.same_token(v.dtype, dt) and (
                    not isinstance(src, ArrV) or PT.same_token(v.shape, src.shape))
                S.oblige('post', bool(good), tag=f'{what}:component-{c}-has-the-promoted-dtype')
                if isinstance(v, ArrV):
                    S.oblige('post', v.term == term_of(src), tag=f'{what}:component-{c}-is-argument-{c}')

    def from_stokes_pos(S):
        S.oracle = {'name': 'from_stokes'}
        n = S.choose(7)
        S.inputs['arity'] = n
        leafkind = S.choose(3) if 1 <= n <= 4 else 0
        if leafkind == 0:
            args = [arr(S, f'x{k}') for k in range(n)]
        elif leafkind == 1:
            args = [SdsV(PT.ShapeTok(f'shape{k}'), z3.Const(f'dtype{k}', PT.DT)) for k in range(n)]
        else:
            args = [arr(S, f'x{k}', dtype=z3.Const('common_dtype', PT.DT)) for k in range(n)]      # equal dtypes
        out = S.call(S.I.getattr(base, 'from_stokes'), args)
        if n in by_arity:
            if not out.normal:
                S.oblige('exc', False, tag=f'arity-{n}:no-exception-{out.value.name}')
                return
            check_promoted_container(S, out.value, by_arity[n], args, f'arity-{n}-{("arrays", "structures", "same-dtype")[leafkind]}')
        elif n == 0:
            # recorded deviation: no argument at all is refused by jnp.result_type() with ValueError, before the
            # function's own TypeError is reached
            S.oblige('exc', out.raised('TypeError') or out.raised('ValueError'), tag='arity-0-is-refused')
        else:
            S.oblige('exc', out.raised('TypeError'), tag=f'arity-{n}-is-a-TypeError')
    ck.explore(f'{LS}.StokesPyTree.from_stokes', from_stokes_pos, T, label='positional')

    def from_stokes_kw(S):
        S.oracle = {'name': 'from_stokes'}
        good = [('I',), ('U', 'Q'), ('U', 'I', 'Q'), ('V', 'Q', 'I', 'U'), ('Q', 'U')]          # insertion order scrambled
        bad = [('Q',), ('I', 'Q'), ('i', 'q', 'u'), ('I', 'Q', 'U', 'X'), ('I', 'I2'), ('Q', 'U', 'V')]
        case = S.choose(len(good) + len(bad) + 1)
        if case < len(good):
            keys = good[case]
            kw = {k: arr(S, f'x_{k}') for k in keys}
            out = S.call(S.I.getattr(base, 'from_stokes'), [], kw)
            kind = ''.join(sorted(keys))
            if not out.normal:
                S.oblige('exc', False, tag=f'keywords-{"".join(keys)}:no-exception-{out.value.name}')
                return
            check_promoted_container(S, out.value, kind, [kw[c] for c in kind], f'keywords-{"".join(keys)}')
        elif case < len(good) + len(bad):
            keys = bad[case - len(good)]
            kw = {k: arr(S, f'x_{k}') for k in keys}
            out = S.call(S.I.getattr(base, 'from_stokes'), [], kw)
            S.oblige('exc', out.raised('TypeError'), tag=f'keywords-{"".join(keys)}-is-a-TypeError')
        else:
            out = S.call(S.I.getattr(base, 'from_stokes'), [arr(S, 'x0')], {'Q': arr(S, 'x_Q')})
            S.oblige('exc', out.raised('TypeError'), tag='positional-and-keyword-together-is-a-TypeError')
    ck.explore(f'{LS}.StokesPyTree.from_stokes', from_stokes_kw, T, label='keywords')

    # ================================================================== from_iquv
    def from_iquv(kind):
        def sc(S):
            S.oracle = {'name': 'from_iquv', 'stokes': kind}
            clsname, comps = STOKES[kind]
            args = {c: arr(S, f'x_{c}') for c in 'iquv'}
            out = S.call(S.I.getattr(ClassRef(P.cls(clsname)), 'from_iquv'), [args[c] for c in 'iquv'])
            if not out.normal:
                S.oblige('exc', False, tag=f'no-exception-{out.value.name}')
                return
            got = out.value
            ok = isinstance(got, Obj) and got.cls.name == clsname and tuple(got.fields) == comps and all(
                isinstance(v, ArrV) for v in got.fields.values())
            S.oblige('post', bool(ok), tag='returns-its-own-class-with-exactly-its-components')
            if not ok:
                return
            dt = promoted([args[c] for c in comps], S)
            for c in comps:
                S.oblige('post', got.fields[c].term == args[c].term, tag=f'component-{c}-is-argument-{c}')
                S.oblige('post', PT.same_token(got.fields[c].dtype, dt) and PT.same_token(got.fields[c].shape, args[c].shape),
                         tag=f'component-{c}-has-the-dtype-promoted-over-the-kept-components')
        return sc
    for kind in KINDS:
        ck.explore(f'{LS}.{STOKES[kind][0]}.from_iquv', from_iquv(kind), T)

    # ================================================================== zeros / ones / full / normal / uniform
    def factories(kind):
        def sc(S):
            S.oracle = {'name': 'factories', 'stokes': kind}
            clsname, comps = STOKES[kind]
            cls = ClassRef(P.cls(clsname))
            shape = PT.ShapeTok('shape')
            default_dtype = S.choose(2) == 1
            dtype = B.BUILTINS['float'] if default_dtype else z3.Const('dtype', PT.DT)
            dargs = [] if default_dtype else [dtype]
            which = S.choose(5)
            fill, key = S.real('fill_value'), arr(S, 'key')
            low, high = S.real('low'), S.real('high')
            name = ('zeros', 'ones', 'full', 'normal', 'uniform')[which]
            if which == 0:
                out = S.call(S.I.getattr(cls, 'zeros'), [shape] + dargs)
            elif which == 1:
                out = S.call(S.I.getattr(cls, 'ones'), [shape] + dargs)
            elif which == 2:
                out = S.call(S.I.getattr(cls, 'full'), [shape, fill] + dargs)
            elif which == 3:
                out = S.call(S.I.getattr(cls, 'normal'), [key, shape] + dargs)
            else:
                with_bounds = not default_dtype
                out = S.call(S.I.getattr(cls, 'uniform'), [shape, key] + dargs + ([low, high] if with_bounds else []))
            if not out.normal:
                S.oblige('exc', False, tag=f'{name}:no-exception-{out.value.name}')
                return
            got = out.value
            ok = is_stokes(got, kind)
            S.oblige('post', bool(ok), tag=f'{name}:returns-the-class-with-{len(comps)}-array-leaves')
            if not ok:
                return
            for k, c in enumerate(comps):
                v = got.fields[c]
                S.oblige('post', v.shape is shape and PT.same_token(v.dtype, dtype), tag=f'{name}:component-{c}-has-the-requested-shape-and-dtype')
                if which <= 2:
                    S.oblige('post', v.term == (0, 1, fill)[which], tag=f'{name}:component-{c}-is-filled-with-the-value')
                else:
                    rnd = v.info.get('random')
                    kk = rnd[1] if rnd else None
                    sp = kk.info.get('split_of') if isinstance(kk, ArrV) else None
                    good = rnd is not None and rnd[0] == name and sp is not None and sp[0] is key \
                        and sp[1] == len(comps) and sp[2] == k
                    S.oblige('post', bool(good), tag=f'{name}:component-{c}-drawn-from-its-own-key-split(key,{len(comps)})[{k}]')
                    if which == 4 and rnd is not None and rnd[0] == 'uniform':
                        lo, hi = (low, high) if not default_dtype else (z3.RealVal(0), z3.RealVal(1))
                        S.oblige('post', z3.And(term_of(rnd[2]) == lo, term_of(rnd[3]) == hi), tag=f'uniform:component-{c}-uses-the-bounds')
        return sc
    for kind in KINDS:
        ck.explore(f'{LS}.StokesPyTree.zeros/ones/full/normal/uniform', factories(kind), T, label=kind)

    # ================================================================== furax.tree
    def tree_repr(S, t):
        return PT.flatten(S.I, t)[1]

    def dot(S):
        S.oracle = {'name': 'tree_helpers', 'fn': 'dot'}
        xs = tree_cases(S, 'x', lambda n: arr(S, n))
        ys = tree_cases(S, 'y', lambda n: arr(S, n))
        i = S.choose(len(xs))
        (name, x, xl), (_, y, yl) = xs[i], ys[i]
        out = S.call(S.func(f'{TR}.dot'), [x, y])
        ok = out.normal and isinstance(out.value, ArrV)
        S.oblige('post', bool(ok), tag=f'{name}:returns-one-array')
        if ok:
            S.oblige('post', out.value.term == sum(f_vdot(a.term, b.term) for a, b in zip(xl, yl)),
                     tag=f'{name}:sum-over-leaves-of-vdot(x,y)-conjugating-the-first-argument')
    ck.explore(f'{TR}.dot', dot, T)

    def mixed_leaf(S):
        def leaf(n):
            k = int(''.join(ch for ch in n if ch.isdigit()) or 0)
            if k % 3 == 1:
                return SdsV(PT.ShapeTok(f'shape_{n}'), z3.Const(f'dtype_{n}', PT.DT))
            return arr(S, n)
        return leaf

    def leafwise(fn):
        def sc(S):
            S.oracle = {'name': 'tree_helpers', 'fn': fn}
            leafkind = S.choose(3)
            mk = [lambda n: arr(S, n), lambda n: SdsV(PT.ShapeTok(f'shape_{n}'), z3.Const(f'dtype_{n}', PT.DT)),
                  mixed_leaf(S)][leafkind]
            cases = tree_cases(S, 'x', mk)
            name, x, xl = cases[S.choose(len(cases))]
            name = f'{name}/{("arrays", "structures", "mixed")[leafkind]}'
            fill, key, low, high = S.real('fill_value'), arr(S, 'key'), S.real('low'), S.real('high')
            f = S.func(f'{TR}.{fn}')
            defaults = False
            if fn in ('as_promoted_dtype', 'as_structure', 'zeros_like', 'ones_like'):
                out = S.call(f, [x])
            elif fn == 'full_like':
                out = S.call(f, [x, fill])
            elif fn == 'normal_like':
                out = S.call(f, [x, key])
            else:
                defaults = S.choose(2) == 1
                out = S.call(f, [x, key] + ([] if defaults else [low, high]))
            if not out.normal:
                S.oblige('exc', False, tag=f'{name}:no-exception-{out.value.name}')
                return
            try:
                ol, orep, _ = PT.flatten(S.I, out.value)
            except Unsupported:
                ol, orep = None, None
            ok = ol is not None and orep == tree_repr(S, x) and len(ol) == len(xl)
            S.oblige('post', bool(ok), tag=f'{name}:same-tree-structure')
            if not ok:
                return
            dt = promoted(xl, S) if fn == 'as_promoted_dtype' else None
            for k, (src, v) in enumerate(zip(xl, ol)):
                sshape, sdtype = S.I.getattr(src, 'shape'), S.I.getattr(src, 'dtype')
                if fn == 'as_promoted_dtype':
                    if isinstance(src, SdsV):
                        good = isinstance(v, SdsV) and PT.same_token(v.shape, sshape) and PT.same_token(v.dtype, dt)
                    else:
                        good = isinstance(v, ArrV) and PT.same_token(v.shape, sshape) and PT.same_token(v.dtype, dt)
                        if isinstance(v, ArrV):
                            S.oblige('post', v.term == src.term, tag=f'{name}:leaf-{k}-keeps-its-elements')
                    S.oblige('post', bool(good), tag=f'{name}:leaf-{k}-gets-result_type(*leaves)-and-keeps-its-shape')
                elif fn == 'as_structure':
                    good = isinstance(v, SdsV) and PT.same_token(v.shape, sshape) and PT.same_token(v.dtype, sdtype)
                    S.oblige('post', bool(good), tag=f'{name}:leaf-{k}-becomes-ShapeDtypeStruct(shape,dtype)')
                else:
                    good = isinstance(v, ArrV) and PT.same_token(v.shape, sshape) and PT.same_token(v.dtype, sdtype)
                    S.oblige('post', bool(good), tag=f'{name}:leaf-{k}-reproduces-shape-and-dtype')
                    if not good:
                        continue
                    if fn in ('full_like', 'zeros_like', 'ones_like'):
                        val = {'full_like': fill, 'zeros_like': 0, 'ones_like': 1}[fn]
                        S.oblige('post', v.term == val, tag=f'{name}:leaf-{k}-is-filled-with-the-value')
                    else:
                        rnd = v.info.get('random')
                        kk = rnd[1] if rnd else None
                        sp = kk.info.get('split_of') if isinstance(kk, ArrV) else None
                        good = rnd is not None and rnd[0] == fn[:-5] and sp is not None and sp[0] is key \
                            and sp[1] == len(xl) and sp[2] == k
                        S.oblige('post', bool(good), tag=f'{name}:leaf-{k}-drawn-from-its-own-key-split(key,{len(xl)})[{k}]')
                        if fn == 'uniform_like' and rnd is not None and len(rnd) == 4:
                            lo, hi = (z3.RealVal(0), z3.RealVal(1)) if defaults else (low, high)
                            S.oblige('post', z3.And(term_of(rnd[2]) == lo, term_of(rnd[3]) == hi),
                                     tag=f'{name}:leaf-{k}-uses-the-bounds')
        return sc
    for fn in ('as_promoted_dtype', 'as_structure', 'full_like', 'zeros_like', 'ones_like', 'normal_like', 'uniform_like'):
        ck.explore(f'{TR}.{fn}', leafwise(fn), T)

    def is_leaf(S):
        S.oracle = {'name': 'tree_helpers', 'fn': 'is_leaf'}
        cases = tree_cases(S, 'x', lambda n: arr(S, n))
        # None and empty containers are left out: jax's treedef_is_leaf calls them leaves (one node) although they hold
        # no leaf; the property statement says nothing about them
        extra = [('structure-leaf', SdsV(PT.ShapeTok('s'), z3.Const('d', PT.DT)), True), ('python-scalar', S.real('s'), True)]
        allc = [(n, t, n == 'single-leaf') for n, t, _ in cases] + extra
        name, t, expect = allc[S.choose(len(allc))]
        out = S.call(S.func(f'{TR}.is_leaf'), [t])
        S.oblige('post', out.normal and out.value is expect, tag=f'{name}-is-{"a" if expect else "not-a"}-leaf')
    ck.explore(f'{TR}.is_leaf', is_leaf, T)

    # ================================================================== class_for / structure_for
    class_for_scenarios(ck, T)
    structure_for_scenarios(ck, T)

"""C09 — all Toeplitz evaluation methods compute the same banded product
(pack: obligations for furax.operators.toeplitz).

Specification (from the property text).  For one batch row, with n = len(x) >= 1, K = len(band) >= 1:
    (T x)[i] = SUM_c T[i, c] x[c],   T[i, c] = band[|i - c|] if |i - c| < K else 0.
Re-indexing the finite sum with c = i + (K-1) - j (trusted lemma `tap-reindex`) gives the *tap form*
    (T x)[i] = SUM_{j in [0, 2K-2]} band[|j - (K-1)|] * xhat[i + (K-1) - j],   xhat = x zero-extended outside [0, n).
A kernel output is a tap map (theories/elem.py); it equals T x if, per tap j and output position t (both
symbolic), its (coefficient, source term) pair equals (band[|j-(K-1)|], xhat[t+(K-1)-j]).  No SUM reaches the solver.
"""
from __future__ import annotations

import ast

import z3

from pyvc import builtins_model as B
from pyvc.loops import LoopSpec
from pyvc.theory import Theory
from pyvc.values import ClassRef, Obj, PyFunc, Unsupported, Value, fresh_const, fresh_int, to_z3
from theories import elem as E

TZ = 'furax.operators.toeplitz'
CLS = f'{TZ}.SymmetricBandToeplitzOperator'
F_X64 = 'C09-overlap-save-float32-x64'
F_SIZE = 'C09-fft-size-batched-bands'

RealArr = z3.ArraySort(z3.IntSort(), z3.RealSort())
STATE: dict = {}      # facts established by earlier scenarios of this run and used by later callee contracts


def theory():
    T = Theory()
    E.install(T)
    T.strict_slices = True       # toeplitz.py never relies on slice clamping: in-range slices are obligations
    return T


def zabs(v):
    return z3.If(v >= 0, v, -v)


class Row:
    """symbolic inputs of one batch row: x (length n), band (length K), their dtypes, the x64 flag"""

    def __init__(self, S, with_x=True):
        self.n, self.K = S.int('n'), S.int('K')
        self.xa = z3.Const('x_a', RealArr)
        self.ba = z3.Const('band_a', RealArr)
        self.xdt = z3.Const('x_dtype', E.FD)
        S.inputs['x_dtype'] = self.xdt
        S.inputs['x64'] = E.X64
        S.assume(z3.And(self.n >= 1, self.K >= 1))
        # arrays are canonical: no float64 array exists while jax_enable_x64 is off
        S.assume(z3.Implies(z3.Not(E.X64), self.xdt == E.F32))
        self.x = E.Arr(self.n, self.xdt, elem=lambda i: self.xa[to_z3(i)])
        # the property speaks of one real floating dtype: band values have the input's dtype (assume_note in build)
        self.band = E.Arr(self.K, self.xdt, elem=lambda i: self.ba[to_z3(i)])

    def xhat(self, s):
        s = z3.simplify(to_z3(s))
        return z3.If(z3.And(s >= 0, s < self.n), self.xa[s], E.R0)

    def kern(self, j):
        return self.ba[z3.simplify(zabs(to_z3(j) - (self.K - 1)))]

    def T(self, r, c):
        d = zabs(to_z3(r) - to_z3(c))
        return z3.If(d < self.K, self.ba[d], E.R0)


def check_filtered(S, R: Row, out, what='', finding=None):
    """post of a kernel: out = T x in tap form, with the input's length and dtype"""
    if not isinstance(out, E.Arr):
        S.oblige('post', False, tag=f'{what}returns-a-1-D-array', finding=finding)
        return
    S.oblige('post', E.zi(out.length) == R.n, tag=f'{what}output-length-is-input-length', finding=finding)
    S.oblige('post', out.dtype == R.xdt, tag=f'{what}output-dtype-is-input-dtype', finding=finding)
    if out.kind != 'filt':
        S.oblige('post', False, tag=f'{what}output-is-a-filtered-signal', finding=finding)
        return
    t, j = fresh_int('t'), fresh_int('j')
    S.inputs['t'], S.inputs['j'] = t, j
    rng = z3.And(0 <= t, t < R.n, 0 <= j, j < 2 * R.K - 1)
    coef, src = out.tap(t, j)
    S.oblige('post', E.zi(out.ntaps) == 2 * R.K - 1, tag=f'{what}number-of-taps-is-2K-1', finding=finding)
    S.oblige('post', z3.Implies(rng, coef == R.kern(j)), tag=f'{what}tap-coefficient-is-band[|j-(K-1)|]', finding=finding)
    S.oblige('post', z3.Implies(rng, src == R.xhat(t + (R.K - 1) - j)), tag=f'{what}tap-source-is-xhat[t+(K-1)-j]',
             finding=finding)


def no_exception(S, out, finding=None):
    if out.normal:
        return True
    S.oblige('exc', False, tag=f'no-exception-{out.value.name}', finding=finding)
    return False


def build(ck):
    T = theory()
    P = ck.P
    ck.assume_note('C09: band values and input have the same real floating dtype (float32 or float64), arrays are '
                   'canonical (no float64 array while jax_enable_x64 is off)')
    ck.assume_note('C09: the batch shape of band_values broadcasts to the batch shape of the input (class docstring); '
                   'arrays are non-empty (n >= 1, K >= 1, batch sizes >= 1)')
    ck.assume_note('C09: strings that are not legal method names are represented by "overlap_add" and "bogus" (the '
                   'constructor raises at its first test for any such string, before any other use of it)')
    ck.trust('lemma:LA8 DFT convolution theorem: ifft(fft(a) * fft(k, N)).real is the circular convolution of length N',
             'lemma:tap-reindex SUM_c T[i,c] x[c] = SUM_{j<2K-1} band[|j-(K-1)|] xhat[i+(K-1)-j] (finite re-indexing)',
             'lemma:tap-map-equality two filtered signals with equal (coefficient, source) per tap are equal')

    # ------------------------------------------------------------------ __init__
    METHODS = ('dense', 'direct', 'fft', 'overlap_save')

    def init(S):
        S.oracle = {'name': 'constructor'}
        method = (METHODS + ('overlap_add', 'bogus'))[S.choose(6)]
        S.oracle = {'name': 'constructor', 'method': method}
        K = S.int('K')
        bsize = S.int('band_batch_size')          # product of the batch dimensions of band_values (1 if 1-D)
        S.assume(z3.And(K >= 1, bsize >= 1))
        given = S.choose(2) == 1
        fft_size = S.int('fft_size') if given else None
        bs = fresh_const('bshape', E.BShape)
        S.assume(E.b_size(bs) == bsize)
        band = E.Batched(bs, E.Arr(K, E.F32, elem=lambda i: z3.Const('band_a', RealArr)[to_z3(i)]), None)
        # finding (a): band_number is computed from band_values.size, not from the last axis
        batched = S.run.branch(bsize > 1)
        fid = F_SIZE if batched else None
        o = Obj(P.cls('SymmetricBandToeplitzOperator'))
        struct = object()
        out = S.call(S.func(f'{CLS}.__init__'), [o, band, struct], dict({'method': method},
                                                                       **({'fft_size': fft_size} if given else {})))
        overlap = method.startswith('overlap_')
        illegal = z3.BoolVal(method not in METHODS)
        if given:
            illegal = z3.Or(illegal, z3.BoolVal(not overlap), fft_size < 2 * K - 1)
        if out.raised('ValueError'):
            S.oblige('exc', illegal, tag='ValueError-only-for-illegal-method-or-fft-size', finding=fid)
        elif out.normal:
            S.oblige('exc', z3.Not(illegal), tag='accepts-only-legal-method-and-fft-size', finding=fid)
            f = o.fields
            S.oblige('post', f.get('band_values') is band and f.get('_in_structure') is struct
                     and f.get('method') == method, tag='fields-stored', finding=fid)
            fs = f.get('fft_size')
            if overlap:
                S.oblige('post', fs is not None and to_z3(fs) >= 2 * K - 1, tag='fft-size-at-least-2K-1', finding=fid)
                if given:
                    S.oblige('post', fs is fft_size, tag='given-fft-size-kept', finding=fid)
            else:
                S.oblige('post', fs is None, tag='no-fft-size-for-non-overlap-methods', finding=fid)
        else:
            S.oblige('exc', False, tag=f'undeclared-{out.value.name}', finding=fid)
    ck.explore(f'{CLS}.__init__', init, T)

    # ------------------------------------------------------------------ _get_default_fft_size
    def default_fft(S):
        S.oracle = {'name': 'default_fft_size'}
        bn = S.int('band_number')
        S.assume(bn >= 1)
        out = S.call(S.func(f'{CLS}._get_default_fft_size'), [bn])
        if no_exception(S, out):
            r = out.value
            S.oblige('post', z3.And(to_z3(r) >= bn), tag='default-fft-size-at-least-band-number', exact=False)
            S.oblige('post', B.is_intlike(r), tag='default-fft-size-is-an-int')
    ck.explore(f'{CLS}._get_default_fft_size', default_fft, T)

    # ------------------------------------------------------------------ _get_kernel
    def kernel(S):
        S.oracle = {'name': 'methods', 'method': 'direct'}
        R = Row(S)
        o = S.new('SymmetricBandToeplitzOperator')
        out = S.call(S.I.getattr(o, '_get_kernel'), [R.band])
        if not no_exception(S, out):
            return
        k = out.value
        j = fresh_int('j')
        S.inputs['j'] = j
        S.oblige('post', isinstance(k, E.Arr) and k.kind == 'plain', tag='returns-a-1-D-array')
        S.oblige('post', E.zi(k.length) == 2 * R.K - 1, tag='kernel-length-is-2K-1')
        S.oblige('post', k.dtype == R.xdt, tag='kernel-dtype')
        S.oblige('post', z3.Implies(z3.And(0 <= j, j < 2 * R.K - 1), k.elem(j) == R.kern(j)),
                 tag='kernel[j]-is-band[|j-(K-1)|]')
    ck.explore(f'{CLS}._get_kernel', kernel, T)

    # ------------------------------------------------------------------ _apply_direct / _apply_fft
    def apply_simple(name):
        def scenario(S):
            S.oracle = {'name': 'methods', 'method': name}
            R = Row(S)
            o = S.new('SymmetricBandToeplitzOperator', method=name, fft_size=None)
            out = S.call(S.I.getattr(o, f'_apply_{name}'), [R.x, R.band])
            if no_exception(S, out):
                check_filtered(S, R, out.value)
        return scenario
    ck.explore(f'{CLS}._apply_direct', apply_simple('direct'), T)
    ck.explore(f'{CLS}._apply_fft', apply_simple('fft'), T)

    build2(ck, T)


def build2(ck, T):
    P = ck.P

    # ------------------------------------------------------------------ _apply_overlap_save
    def overlap_save(S):
        S.oracle = {'name': 'methods', 'method': 'overlap_save'}
        R = Row(S)
        N = S.int('fft_size')
        # class invariant established by the constructor (scenario `init`): fft_size admissible, i.e. >= 2K-1
        S.assume(N >= 2 * R.K - 1)
        # finding (b): y = jnp.zeros(l + x_padding_end) has the default float dtype
        bad = S.run.branch(z3.And(E.X64, R.xdt == E.F32))
        S.finding = F_X64 if bad else None
        if bad:
            S.oracle = {'name': 'finding_x64_float32'}
        step = N - 2 * (R.K - 1)

        def F(interp, k, init):
            """functional loop invariant: after k blocks, y[t] = (T x in tap form, shifted by K-1) for t < k*step,
            and 0 beyond; length and dtype are those of the initial carry"""
            lim = to_z3(k) * step

            def tap(t, j):
                done = to_z3(t) < lim
                return z3.If(done, R.kern(j), E.R0), z3.If(done, R.xhat(to_z3(t) - to_z3(j)), E.R0)
            return E.Arr(init.length, init.dtype, ntaps=2 * R.K - 1, tap=tap)
        T.fori_invariants['SymmetricBandToeplitzOperator._apply_overlap_save.func'] = F
        o = S.new('SymmetricBandToeplitzOperator', method='overlap_save', fft_size=N)
        out = S.call(S.I.getattr(o, '_apply_overlap_save'), [R.x, R.band])
        if bad and out.raised('TypeError'):
            STATE['overlap_save_raises_TypeError_for_float32_under_x64'] = True
        if no_exception(S, out, finding=S.finding):
            check_filtered(S, R, out.value, finding=S.finding)
    ck.explore(f'{CLS}._apply_overlap_save', overlap_save, T)


# ====================================================================== dense matrix, mv wiring, as_matrix
DENSE = f'{TZ}.dense_symmetric_band_toeplitz'


def dense_contract(interp, fi, args, kwargs):
    """callee contract of dense_symmetric_band_toeplitz(n, band), as proved in scenario `dense` below:
    requires n >= 1 and a non-empty 1-D band; returns the n x n matrix T[r, c] = band[|r-c|] if |r-c| < len(band)
    else 0, with the band's dtype"""
    n, band = args
    if not isinstance(band, E.Arr) or band.kind != 'plain':
        raise Unsupported('dense_symmetric_band_toeplitz contract: band is not a plain 1-D array')
    E.ob(interp, 'pre', 'dense-toeplitz-requires', z3.And(to_z3(n) >= 1, E.zi(band.length) >= 1))
    K = E.zi(band.length)

    def entry(r, c):
        d = z3.simplify(zabs(to_z3(r) - to_z3(c)))
        return z3.If(d < K, band.elem(d), E.R0)
    return E.Matrix(n, n, entry, band.dtype, note=('toeplitz', n, band))


class SDS(Value):
    """a ShapeDtypeStruct: batch shape + (n,), dtype"""

    def __init__(self, bshape, n, dtype):
        self.bshape, self.n, self.dtype = bshape, n, dtype

    def py_getattr(self, interp, name):
        if name == 'shape':
            return E.ShapeV(self.bshape, (self.n,))
        if name == 'dtype':
            return self.dtype
        raise Unsupported(f'ShapeDtypeStruct.{name}')


def build3(ck, T):
    P = ck.P

    # ------------------------------------------------------------------ dense_symmetric_band_toeplitz
    def dense(S):
        S.oracle = {'name': 'methods', 'method': 'dense'}
        R = Row(S)
        bw = R.K - 1

        def F(k, proto):
            k = z3.simplify(to_z3(k))

            def rc(r, c, w):
                if not z3.eq(z3.simplify(to_z3(w)), R.n):
                    raise Unsupported('closed-form flat array viewed with a width other than n')
                d = to_z3(c) - to_z3(r)
                return z3.If(z3.And(-bw <= d, d < -bw + k), R.ba[z3.simplify(zabs(d))], E.R0)
            a = E.Arr(proto.length, proto.dtype, elem_rc=rc)
            a.closed = k
            return a

        # the locals of the diagonal loop by ROLE (AST): the array rebuilt with `.at[...].set(...)` in every iteration and
        # the loop variable — renaming them must not break the contract
        OUT, JV = 'output', 'j'
        try:
            fnode = S.ck.P.func(DENSE).node
            loop = next(n for n in ast.walk(fnode) if isinstance(n, ast.For))
            if isinstance(loop.target, ast.Name):
                JV = loop.target.id
            for st in ast.walk(loop):
                if isinstance(st, ast.Assign) and isinstance(st.targets[0], ast.Name) and isinstance(st.value, ast.Call) \
                        and isinstance(st.value.func, ast.Attribute) and st.value.func.attr in ('set', 'add') \
                        and isinstance(st.value.func.value, ast.Subscript) \
                        and isinstance(st.value.func.value.value, ast.Attribute) and st.value.func.value.value.attr == 'at' \
                        and isinstance(st.value.func.value.value.value, ast.Name) \
                        and st.value.func.value.value.value.id == st.targets[0].id:
                    OUT = st.targets[0].id
        except Exception:       # noqa: BLE001
            pass

        def invariant(L):
            """after k diagonals (j = -(K-1) .. -(K-1)+k-1): output[r*n+c] = band[|c-r|] if c-r is one of them, else 0"""
            out = L.var(OUT)
            if getattr(out, 'closed', None) is not None and z3.eq(out.closed, z3.simplify(to_z3(L.k))):
                return True
            if not isinstance(out, E.Arr):
                return False

            def hint(r, c, w, qs, member):
                """which q can hit (r, c) on the diagonal j = c - r walked in this iteration (pure integer arithmetic,
                an instance of row-major uniqueness): q = r for j >= 0 (start (0, j)), q = c for j < 0 (start (-j, 0))"""
                j = to_z3(L.var(JV)) if L.has(JV) else None
                if j is None or not z3.eq(z3.simplify(to_z3(w)), R.n):
                    return []
                rng = z3.And(0 <= to_z3(r), to_z3(r) < R.n, 0 <= to_z3(c), to_z3(c) < R.n, member)
                return [('scatter-index-hits-only-its-diagonal',
                         z3.Implies(rng, z3.If(j >= 0, z3.And(qs == r, to_z3(c) == to_z3(r) + j),
                                               z3.And(qs == c, to_z3(r) == to_z3(c) - j))))]
            T.at_set_hint = hint
            try:
                return z3.And(*[g for _, g in E.arr_eq_goals(out, F(L.k, L.old(OUT)), rc=(R.n, R.n))])
            finally:
                T.at_set_hint = None

        spec = LoopSpec(invariant, lambda L: L.set(OUT, F(L.k, L.old(OUT))))
        S.I.loop_specs[(DENSE, 0)] = spec
        out = S.call(S.func(DENSE), [R.n, R.band])
        if not no_exception(S, out):
            return
        M = out.value
        if not isinstance(M, E.Matrix):
            S.oblige('post', False, tag='returns-a-matrix')
            return
        r, c = fresh_int('r'), fresh_int('c')
        S.inputs['r'], S.inputs['c'] = r, c
        rng = z3.And(0 <= r, r < R.n, 0 <= c, c < R.n)
        S.oblige('post', z3.And(E.zi(M.nrows) == R.n, E.zi(M.ncols) == R.n), tag='shape-is-(n,n)')
        S.oblige('post', M.dtype == R.xdt, tag='dtype-is-band-dtype')
        S.oblige('post', z3.Implies(rng, M.entry(r, c) == R.T(r, c)), tag='T[r,c]-is-band[|r-c|]-inside-the-band-else-0')
        S.oblige('post', z3.Implies(rng, M.entry(r, c) == M.entry(c, r)), tag='T-is-symmetric')
    ck.explore(DENSE, dense, T)

    contracts = {DENSE: dense_contract}

    # ------------------------------------------------------------------ _apply_dense
    def apply_dense(S):
        S.oracle = {'name': 'methods', 'method': 'dense'}
        R = Row(S)
        o = S.new('SymmetricBandToeplitzOperator', method='dense', fft_size=None)
        out = S.call(S.I.getattr(o, '_apply_dense'), [R.x, R.band])
        if not no_exception(S, out):
            return
        y = out.value
        if not (isinstance(y, E.Arr) and y.kind == 'filt'):
            S.oblige('post', False, tag='returns-a-matrix-vector-product')
            return
        i, c = fresh_int('i'), fresh_int('c')
        S.inputs['i'], S.inputs['c'] = i, c
        rng = z3.And(0 <= i, i < R.n, 0 <= c, c < R.n)
        coef, src = y.tap(i, c)
        S.oblige('post', E.zi(y.length) == R.n, tag='output-length-is-input-length')
        S.oblige('post', y.dtype == R.xdt, tag='output-dtype-is-input-dtype')
        S.oblige('post', E.zi(y.ntaps) == R.n, tag='sum-over-the-n-columns')
        S.oblige('post', z3.Implies(rng, coef == R.T(i, c)), tag='coefficient-of-x[c]-in-y[i]-is-T[i,c]')
        S.oblige('post', z3.Implies(rng, src == R.xa[c]), tag='source-is-x[c]')
    ck.explore(f'{CLS}._apply_dense', apply_dense, T, contracts=contracts)

    # ------------------------------------------------------------------ mv: dispatch + per-row vectorisation
    def marker(method):
        def contract(interp, fi, args, kwargs):
            """callee contract of _apply_<method>(x, band) (proved in the kernel scenarios): a 1-D array with x's
            length and dtype, equal to T(band) x.  Represented by a provenance marker.  overlap_save: TypeError
            in the class of finding (b)."""
            _self, x, band = args
            if method == 'overlap_save':
                fs = _self.fields.get('fft_size')
                if fs is None:
                    interp.raise_('AssertionError')
                E.ob(interp, 'pre', 'overlap-save-fft-size-admissible', to_z3(fs) >= 2 * E.zi(band.length) - 1)
                # what scenario `overlap_save` found for float32 input under x64 (finding (b) while it is open)
                if STATE.get('overlap_save_raises_TypeError_for_float32_under_x64') and \
                        interp.run.branch(z3.And(E.X64, x.dtype == E.F32)):
                    interp.raise_('TypeError', 'finding (b)')
            return E.Arr(x.length, x.dtype, note=('applied', method, x, band))
        return contract
    mv_contracts = {f'{CLS}._apply_{m}': marker(m) for m in ('dense', 'direct', 'fft', 'overlap_save', 'overlap_add')}

    def batch_inputs(S, R):
        xs, bs = z3.Const('x_batch_shape', E.BShape), z3.Const('band_batch_shape', E.BShape)
        b0 = z3.Const('b', E.BShape)       # generic batch index (opaque token)
        for a in E.bshape_axioms():
            S.assume(a)
        S.assume(z3.And(E.b_rank(xs) >= 0, E.b_rank(bs) >= 0, E.b_size(xs) >= 1, E.b_size(bs) >= 1))
        S.assume(E.b_cast(xs, bs) == xs)    # requires: the bands' batch shape broadcasts to the input's
        return xs, bs, b0

    def mv(S):
        method = ('dense', 'direct', 'fft', 'overlap_save')[S.choose(4)]
        S.oracle = {'name': 'methods', 'method': method}
        R = Row(S)
        xs, bs, b0 = batch_inputs(S, R)
        bad = method == 'overlap_save' and S.run.branch(z3.And(E.X64, R.xdt == E.F32))
        S.finding = F_X64 if bad else None
        if bad:
            S.oracle = {'name': 'finding_x64_float32'}
        N = S.int('fft_size') if method == 'overlap_save' else None
        if N is not None:
            S.assume(N >= 2 * R.K - 1)          # class invariant established by the constructor
        x = E.Batched(xs, R.x, b0)
        band = E.Batched(bs, R.band, b0)
        o = S.new('SymmetricBandToeplitzOperator', method=method, fft_size=N, band_values=band,
                  _in_structure=SDS(xs, R.n, R.xdt))
        out = S.call(S.I.getattr(o, 'mv'), [x])
        if not no_exception(S, out, finding=S.finding):
            return
        y = out.value
        ok = isinstance(y, E.Batched) and isinstance(y.core, E.Arr) and y.core.note is not None
        S.oblige('post', bool(ok), tag='vectorised-application', finding=S.finding)
        if not ok:
            return
        kind, m2, xr, br = y.core.note
        # any of the four kernels proved to return T x may serve any method name
        S.oblige('post', kind == 'applied' and m2 in ('dense', 'direct', 'fft', 'overlap_save') and xr is R.x
                 and br is R.band and z3.eq(y.bidx, b0),
                 tag='row-b-of-output-is-a-verified-kernel-applied-to-(row-b-of-x,row-b-of-band)', finding=S.finding)
        S.oblige('post', y.bshape == xs, tag='output-batch-shape-is-input-batch-shape', finding=S.finding)
        S.oblige('post', z3.And(E.zi(y.core.length) == R.n, y.core.dtype == R.xdt), tag='output-row-length-and-dtype',
                 finding=S.finding)
    ck.explore(f'{CLS}.mv', mv, T, contracts=mv_contracts)

    # ------------------------------------------------------------------ as_matrix
    def as_matrix(S):
        S.oracle = {'name': 'methods', 'method': 'dense'}
        R = Row(S)
        xs, bs, b0 = batch_inputs(S, R)
        band = E.Batched(bs, R.band, b0)
        o = S.new('SymmetricBandToeplitzOperator', method='dense', fft_size=None, band_values=band,
                  _in_structure=SDS(xs, R.n, R.xdt))
        out = S.call(S.I.getattr(o, 'as_matrix'), [])
        if not no_exception(S, out):
            return
        M = out.value
        if isinstance(M, E.BlockDiag):
            blocks = M.family.batched
            S.oblige('post', E.b_rank(xs) >= 1, tag='block-diagonal-form-only-for-batched-input')
            S.oblige('post', blocks.bshape == E.b_flat(xs), tag='one-block-per-batch-row-in-row-major-order')
        elif isinstance(M, E.Batched):
            blocks = M
            S.oblige('post', z3.And(E.b_rank(xs) == 0, blocks.bshape == xs), tag='single-block-for-unbatched-input')
        else:
            S.oblige('post', False, tag='returns-a-(block-diagonal)-matrix')
            return
        core = blocks.core
        ok = isinstance(core, E.Matrix) and core.note is not None and core.note[0] == 'toeplitz'
        S.oblige('post', bool(ok), tag='blocks-are-dense-band-toeplitz-matrices')
        if ok:
            _, n2, b2 = core.note
            S.oblige('post', z3.And(to_z3(n2) == R.n) if not isinstance(n2, bool) else False, tag='block-size-is-n')
            S.oblige('post', b2 is R.band and z3.eq(blocks.bidx, b0), tag='block-b-is-T(row-b-of-band)')
            S.oblige('post', core.dtype == R.xdt, tag='dtype')
    ck.explore(f'{CLS}.as_matrix', as_matrix, T, contracts=contracts)

    # ------------------------------------------------------------------ @symmetric wiring: transpose is self
    def symmetric_wiring(S):
        ci = P.cls('SymmetricBandToeplitzOperator')
        import ast as _ast
        decs = [_ast.unparse(d) for d in ci.decorators]
        S.oblige('post', 'symmetric' in decs, tag='class-is-decorated-@symmetric')
        out = S.call(S.func('furax._base.core.symmetric'), [ClassRef(ci)])
        if not no_exception(S, out):
            return
        o = S.new('SymmetricBandToeplitzOperator', _in_structure=object())
        t = S.call(S.I.getattr(o, 'transpose'), [])
        S.oblige('post', t.normal and t.value is o, tag='transpose-returns-self')
        so = S.call(S.I.getattr(o, 'out_structure'), [])
        S.oblige('post', so.normal and so.value is o.fields['_in_structure'], tag='out-structure-is-in-structure')
    T.externals['lineax.is_symmetric.register'] = lambda interp, cls: PyFunc(lambda interp, f: f, 'register')
    ck.explore('furax._base.core.symmetric', symmetric_wiring, T)


_build1 = build


def build(ck):          # noqa: F811
    STATE.clear()
    _build1(ck)
    build3(ck, theory())

"""C09 — all Toeplitz evaluation methods compute the same banded product
(pack: obligations for furax.operators.toeplitz).

Specification (from the property text).  For one batch row, with n = len(x) >= 1, K = len(band) >= 1:
    (T x)[i] = SUM_c T[i, c] x[c],   T[i, c] = band[|i - c|] if |i - c| < K else 0.
Re-indexing the finite sum with c = i + (K-1) - j (trusted lemma `tap-reindex`) gives the *tap form*
    (T x)[i] = SUM_{j in [0, 2K-2]} band[|j - (K-1)|] * xhat[i + (K-1) - j],   xhat = x zero-extended outside [0, n).
A kernel output is a tap map (theories/elem.py); it equals T x if, per tap j and output position t (both
symbolic), its (coefficient, source term) pair equals (band[|j-(K-1)|], xhat[t+(K-1)-j]).  No SUM reaches the solver.
"""
from __future__ import annotations

import z3

from pyvc import builtins_model as B
from pyvc.loops import LoopSpec
from pyvc.theory import Theory
from pyvc.values import ClassRef, Obj, PyFunc, Unsupported, fresh_const, fresh_int, to_z3
from theories import elem as E

TZ = 'furax.operators.toeplitz'
CLS = f'{TZ}.SymmetricBandToeplitzOperator'
F_X64 = 'C09-overlap-save-float32-x64'
F_SIZE = 'C09-fft-size-batched-bands'

RealArr = z3.ArraySort(z3.IntSort(), z3.RealSort())


def theory():
    T = Theory()
    E.install(T)
    return T


def zabs(v):
    return z3.If(v >= 0, v, -v)


class Row:
    """symbolic inputs of one batch row: x (length n), band (length K), their dtypes, the x64 flag"""

    def __init__(self, S, with_x=True):
        self.n, self.K = S.int('n'), S.int('K')
        self.xa = z3.Const('x_a', RealArr)
        self.ba = z3.Const('band_a', RealArr)
        self.xdt = z3.Const('x_dtype', E.FD)
        S.inputs['x_dtype'] = self.xdt
        S.inputs['x64'] = E.X64
        S.assume(z3.And(self.n >= 1, self.K >= 1))
        # arrays are canonical: no float64 array exists while jax_enable_x64 is off
        S.assume(z3.Implies(z3.Not(E.X64), self.xdt == E.F32))
        self.x = E.Arr(self.n, self.xdt, elem=lambda i: self.xa[to_z3(i)])
        # the property speaks of one real floating dtype: band values have the input's dtype (assume_note in build)
        self.band = E.Arr(self.K, self.xdt, elem=lambda i: self.ba[to_z3(i)])

    def xhat(self, s):
        s = z3.simplify(to_z3(s))
        return z3.If(z3.And(s >= 0, s < self.n), self.xa[s], E.R0)

    def kern(self, j):
        return self.ba[z3.simplify(zabs(to_z3(j) - (self.K - 1)))]

    def T(self, r, c):
        d = zabs(to_z3(r) - to_z3(c))
        return z3.If(d < self.K, self.ba[d], E.R0)


def check_filtered(S, R: Row, out, what='', finding=None):
    """post of a kernel: out = T x in tap form, with the input's length and dtype"""
    if not isinstance(out, E.Arr):
        S.oblige('post', False, tag=f'{what}returns-a-1-D-array', finding=finding)
        return
    S.oblige('post', E.zi(out.length) == R.n, tag=f'{what}output-length-is-input-length', finding=finding)
    S.oblige('post', out.dtype == R.xdt, tag=f'{what}output-dtype-is-input-dtype', finding=finding)
    if out.kind != 'filt':
        S.oblige('post', False, tag=f'{what}output-is-a-filtered-signal', finding=finding)
        return
    t, j = fresh_int('t'), fresh_int('j')
    S.inputs['t'], S.inputs['j'] = t, j
    rng = z3.And(0 <= t, t < R.n, 0 <= j, j < 2 * R.K - 1)
    coef, src = out.tap(t, j)
    S.oblige('post', E.zi(out.ntaps) == 2 * R.K - 1, tag=f'{what}number-of-taps-is-2K-1', finding=finding)
    S.oblige('post', z3.Implies(rng, coef == R.kern(j)), tag=f'{what}tap-coefficient-is-band[|j-(K-1)|]', finding=finding)
    S.oblige('post', z3.Implies(rng, src == R.xhat(t + (R.K - 1) - j)), tag=f'{what}tap-source-is-xhat[t+(K-1)-j]',
             finding=finding)


def no_exception(S, out, finding=None):
    if out.normal:
        return True
    S.oblige('exc', False, tag=f'no-exception-{out.value.name}', finding=finding)
    return False


def build(ck):
    T = theory()
    P = ck.P
    ck.assume_note('C09: band values and input have the same real floating dtype (float32 or float64), arrays are '
                   'canonical (no float64 array while jax_enable_x64 is off)')
    ck.assume_note('C09: the batch shape of band_values broadcasts to the batch shape of the input (class docstring); '
                   'arrays are non-empty (n >= 1, K >= 1, batch sizes >= 1)')
    ck.assume_note('C09: strings that are not legal method names are represented by "overlap_add" and "bogus" (the '
                   'constructor raises at its first test for any such string, before any other use of it)')
    ck.trust('lemma:tap-reindex SUM_c T[i,c] x[c] = SUM_{j<2K-1} band[|j-(K-1)|] xhat[i+(K-1)-j] (finite re-indexing)',
             'lemma:tap-map-equality two filtered signals with equal (coefficient, source) per tap are equal')

    # ------------------------------------------------------------------ __init__
    METHODS = ('dense', 'direct', 'fft', 'overlap_save')

    def init(S):
        S.oracle = {'name': 'constructor'}
        method = (METHODS + ('overlap_add', 'bogus'))[S.choose(6)]
        S.oracle = {'name': 'constructor', 'method': method}
        K = S.int('K')
        bsize = S.int('band_batch_size')          # product of the batch dimensions of band_values (1 if 1-D)
        S.assume(z3.And(K >= 1, bsize >= 1))
        given = S.choose(2) == 1
        fft_size = S.int('fft_size') if given else None
        bs = fresh_const('bshape', E.BShape)
        S.assume(E.b_size(bs) == bsize)
        band = E.Batched(bs, E.Arr(K, E.F32, elem=lambda i: z3.Const('band_a', RealArr)[to_z3(i)]), None)
        # finding (a): band_number is computed from band_values.size, not from the last axis
        batched = S.run.branch(bsize > 1)
        fid = F_SIZE if batched else None
        o = Obj(P.cls('SymmetricBandToeplitzOperator'))
        struct = object()
        out = S.call(S.func(f'{CLS}.__init__'), [o, band, struct], dict({'method': method},
                                                                       **({'fft_size': fft_size} if given else {})))
        overlap = method.startswith('overlap_')
        illegal = z3.BoolVal(method not in METHODS)
        if given:
            illegal = z3.Or(illegal, z3.BoolVal(not overlap), fft_size < 2 * K - 1)
        if out.raised('ValueError'):
            S.oblige('exc', illegal, tag='ValueError-only-for-illegal-method-or-fft-size', finding=fid)
        elif out.normal:
            S.oblige('exc', z3.Not(illegal), tag='accepts-only-legal-method-and-fft-size', finding=fid)
            f = o.fields
            S.oblige('post', f.get('band_values') is band and f.get('_in_structure') is struct
                     and f.get('method') == method, tag='fields-stored', finding=fid)
            fs = f.get('fft_size')
            if overlap:
                S.oblige('post', fs is not None and to_z3(fs) >= 2 * K - 1, tag='fft-size-at-least-2K-1', finding=fid)
                if given:
                    S.oblige('post', fs is fft_size, tag='given-fft-size-kept', finding=fid)
            else:
                S.oblige('post', fs is None, tag='no-fft-size-for-non-overlap-methods', finding=fid)
        else:
            S.oblige('exc', False, tag=f'undeclared-{out.value.name}', finding=fid)
    ck.explore(f'{CLS}.__init__', init, T)

    # ------------------------------------------------------------------ _get_default_fft_size
    def default_fft(S):
        S.oracle = {'name': 'default_fft_size'}
        bn = S.int('band_number')
        S.assume(bn >= 1)
        out = S.call(S.func(f'{CLS}._get_default_fft_size'), [bn])
        if no_exception(S, out):
            r = out.value
            S.oblige('post', z3.And(to_z3(r) >= bn), tag='default-fft-size-at-least-band-number', exact=False)
            S.oblige('post', B.is_intlike(r), tag='default-fft-size-is-an-int')
    ck.explore(f'{CLS}._get_default_fft_size', default_fft, T)

    # ------------------------------------------------------------------ _get_kernel
    def kernel(S):
        S.oracle = {'name': 'methods', 'method': 'direct'}
        R = Row(S)
        o = S.new('SymmetricBandToeplitzOperator')
        out = S.call(S.I.getattr(o, '_get_kernel'), [R.band])
        if not no_exception(S, out):
            return
        k = out.value
        j = fresh_int('j')
        S.inputs['j'] = j
        S.oblige('post', isinstance(k, E.Arr) and k.kind == 'plain', tag='returns-a-1-D-array')
        S.oblige('post', E.zi(k.length) == 2 * R.K - 1, tag='kernel-length-is-2K-1')
        S.oblige('post', k.dtype == R.xdt, tag='kernel-dtype')
        S.oblige('post', z3.Implies(z3.And(0 <= j, j < 2 * R.K - 1), k.elem(j) == R.kern(j)),
                 tag='kernel[j]-is-band[|j-(K-1)|]')
    ck.explore(f'{CLS}._get_kernel', kernel, T)

    # ------------------------------------------------------------------ _apply_direct / _apply_fft
    def apply_simple(name):
        def scenario(S):
            S.oracle = {'name': 'methods', 'method': name}
            R = Row(S)
            o = S.new('SymmetricBandToeplitzOperator', method=name, fft_size=None)
            out = S.call(S.I.getattr(o, f'_apply_{name}'), [R.x, R.band])
            if no_exception(S, out):
                check_filtered(S, R, out.value)
        return scenario
    ck.explore(f'{CLS}._apply_direct', apply_simple('direct'), T)
    ck.explore(f'{CLS}._apply_fft', apply_simple('fft'), T)

    build2(ck, T)


def build2(ck, T):
    pass

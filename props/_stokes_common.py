"""Scenarios shared by the C15 and C20 packs: StokesPyTree.class_for / structure_for (real bodies)."""
from __future__ import annotations

import z3

from pyvc.values import ClassRef, Ext, Obj, z_and, z_eq, z_not
from theories import point as PT

LS = 'furax.landscapes'


def class_for_scenarios(ck, T, oracle='class_for'):
    P = ck.P
    base = ClassRef(P.cls('StokesPyTree'))

    def valid(S):
        S.oracle = {'name': oracle}
        kind = PT.KINDS[S.choose(4)]
        S.inputs['stokes'] = kind
        out = S.call(S.I.getattr(base, 'class_for'), [kind])
        ok = out.normal and isinstance(out.value, ClassRef)
        S.oblige('exc', bool(ok), tag=f'{kind}-accepted')
        if ok:
            ci = out.value.info
            comps = tuple(f.name for f in ci.all_fields())
            S.oblige('post', ci.name == PT.STOKES[kind][0] and comps == PT.STOKES[kind][1]
                     and any(c.name == 'StokesPyTree' for c in ci.mro), tag=f'{kind}-maps-to-the-class-with-those-components')
            st = S.I.getattr(out.value, 'stokes')
            S.oblige('post', st == kind, tag=f'{kind}-class-declares-its-kind')
    ck.explore(f'{LS}.StokesPyTree.class_for', valid, T, label='valid')

    def invalid(S):
        S.oracle = {'name': oracle}
        s = S.seq('stokes', kind='str')
        S.assume(s.forall(lambda k, e: z3.And(e >= 32, e < 127)))
        S.assume(z_and(*[z_not(z_eq(k, s)) for k in PT.KINDS]))
        out = S.call(S.I.getattr(base, 'class_for'), [s])
        S.oblige('exc', out.raised('ValueError'), tag='every-other-string-raises-ValueError')
    ck.explore(f'{LS}.StokesPyTree.class_for', invalid, T, label='invalid')

    def invalid_other(S):
        S.oracle = {'name': oracle}
        v = [None, 3, ('I',)][S.choose(3)]
        out = S.call(S.I.getattr(base, 'class_for'), [v])
        S.oblige('exc', out.raised('ValueError'), tag='non-string-raises-ValueError')
    ck.explore(f'{LS}.StokesPyTree.class_for', invalid_other, T, label='non-string')


def check_structure(S, struct, kind, shape, dtype, what='structure'):
    """obligations: `struct` is an instance of the class of `kind` whose len(kind) fields are ShapeDtypeStructs
    carrying exactly (shape, dtype)"""
    clsname, comps = PT.STOKES[kind]
    ok = isinstance(struct, Obj) and struct.cls.name == clsname and tuple(struct.fields) == comps
    S.oblige('post', bool(ok), tag=f'{what}-is-the-{kind}-class-with-{len(comps)}-leaves')
    if ok:
        for c in comps:
            leaf = struct.fields[c]
            good = isinstance(leaf, PT.SdsV) and PT.same_token(leaf.shape, shape) and PT.same_token(leaf.dtype, dtype)
            S.oblige('post', bool(good), tag=f'{what}-leaf-{c}-has-the-given-shape-and-dtype')
    return ok


def structure_for_scenarios(ck, T, oracle='class_for'):
    P = ck.P

    def sc(S):
        S.oracle = {'name': oracle}
        kind = PT.KINDS[S.choose(4)]
        S.inputs['stokes'] = kind
        cls = ClassRef(P.cls(PT.STOKES[kind][0]))
        shape = PT.ShapeTok('shape')
        use_default = S.choose(2)
        dtype = z3.Const('dtype', PT.DT)
        out = S.call(S.I.getattr(cls, 'structure_for'), [shape] + ([] if use_default else [dtype]))
        if not out.normal:
            S.oblige('exc', False, tag=f'no-exception-{out.value.name}')
            return
        check_structure(S, out.value, kind, shape, Ext('numpy.float64') if use_default else dtype)
    ck.explore(f'{LS}.StokesPyTree.structure_for', sc, T)

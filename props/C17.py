"""C17 — sky pixelisation maps coordinates to indices consistently (pack: furax.landscapes).

Real bodies under contract: StokesLandscape.__init__, Landscape.__len__, HealpixLandscape.__init__,
StokesLandscape.pixel2index (1, 2, 3 map dimensions: complete unrolling, sizes symbolic), world2index,
HealpixLandscape.world2pixel, StokesLandscape.get_coverage."""
from __future__ import annotations

import z3

from pyvc import builtins_model as B
from pyvc.values import Ext, Obj, SSeq, concrete, fresh_int, is_z3, to_real, to_z3, z_and, z_eq, z_not, z_or, zbool
from theories import indexing as IX
from theories import pixels as PX
from theories import structs as ST

LS = 'furax.landscapes'
INT32_MAX = 2 ** 31 - 1


def prod(xs):
    r = 1
    for x in xs:
        r = r * x
    return r


def landscape(S, dims, cls='StokesLandscape', **extra):
    """a landscape with `dims` map dimensions of symbolic sizes n0 (fastest) .. ; class invariant of __init__:
    shape is the reversed pixel_shape"""
    ns = [S.int(f'n{d}') for d in range(dims)]
    for n in ns:
        S.assume(n >= 1)
    o = S.new(cls, shape=tuple(reversed(ns)), pixel_shape=tuple(ns), stokes='IQU', dtype=Ext('numpy.float64'), **extra)
    return o, ns


F_INT32 = 'C17-int32-boundary'        # fixed finding (9b8386d); its native witness is replayed on every run


def size_class(S, ns):
    """maps have fewer than 2^63 pixels (assumption)"""
    S.assume(prod(ns) <= 2 ** 63 - 1)


def closed_formula(ks, ns):
    """Σ k_d Π_{e<d} n_e if every 0 <= k_d < n_d else -1"""
    valid = z3.And(*[z3.And(0 <= k, k < n) for k, n in zip(ks, ns)])
    idx = sum(k * prod(ns[:d]) for d, k in enumerate(ks))
    return valid, idx


def build(ck):
    T = PX.theory()
    P = ck.P
    ck.assume_note('C17: map sizes are positive integers, maps have fewer than 2^63 pixels; coordinates are real numbers '
                   '(floats treated as reals)')
    ck.trust('lemma:division-with-remainder (for n >= 1 every integer is q*n + r with 0 <= r < n)')
    ck.assume_note('C17: agreement of jax_healpy.ang2pix with healpy is out of reach (dependency): only the call wiring '
                   '(nside, theta, phi) and the range [0, 12 nside^2) are used')
    ck.assume_note('C17: coverage is stated for arbitrary samplings: out-of-map samples (index -1) are accounted to the last '
                   'pixel by the wrap-around of index -1 in .at[].add, so the total is the number of samples')
    ck.trust('lemma:double-counting (the multiplicities of the values of a finite array sum to its number of entries)',
             'lemma:sum-support (a finite sum whose terms vanish outside two known positions equals the sum of those two terms)')

    # ------------------------------------------------------------------ StokesLandscape.__init__
    def init(S):
        S.oracle = {'name': 'shapes'}
        which = S.choose(4)
        S.inputs['given'] = ['neither', 'shape', 'pixel_shape', 'both'][which]
        shape = S.seq('shape') if which in (1, 3) else None
        pshape = S.seq('pixel_shape') if which in (2, 3) else None
        o = Obj(P.cls('StokesLandscape'))
        kwargs = {}
        if shape is not None:
            kwargs['shape'] = shape
        if pshape is not None:
            kwargs['pixel_shape'] = pshape
        out = S.call(S.func(f'{LS}.StokesLandscape.__init__'), [o], kwargs)
        if which in (0, 3):
            S.oblige('exc', out.raised('TypeError'), tag='TypeError-unless-exactly-one-of-shape-and-pixel_shape')
            return
        if not out.normal:
            S.oblige('exc', False, tag=f'no-exception-{out.value.name}')
            return
        sh = B.as_seq_or_none(S.I, o.fields.get('shape'))
        ps = B.as_seq_or_none(S.I, o.fields.get('pixel_shape'))
        S.oblige('post', sh is not None and ps is not None, tag='shape-and-pixel_shape-are-sequences')
        if sh is None or ps is None:
            return
        n = to_z3(sh.length)
        k = fresh_int('k')
        rev = lambda a, b: z3.And(to_z3(a.length) == to_z3(b.length), z3.ForAll([k], z3.Implies(      # noqa: E731
            z3.And(0 <= k, k < to_z3(b.length)), to_z3(a.get(k)) == to_z3(b.get(to_z3(b.length) - 1 - k)))))
        S.oblige('post', rev(ps, sh), tag='pixel_shape-is-the-reversed-shape')
        if shape is not None:
            S.oblige('post', sh.eq(shape), tag='shape-stored-as-given')
        else:
            S.oblige('post', rev(sh, pshape), tag='shape-is-the-reversed-pixel_shape')
            S.oblige('post', ps.eq(pshape), tag='pixel_shape-stored-as-given')
        _ = n
    ck.explore(f'{LS}.StokesLandscape.__init__', init, T)

    # ------------------------------------------------------------------ Landscape.__len__
    def length(S):
        S.oracle = {'name': 'shapes'}
        dims = 1 + S.choose(3)
        o, ns = landscape(S, dims)
        out = S.call(S.I.getattr(o, '__len__'), [])
        S.oblige('post', out.normal and zbool(z_eq(out.value, prod(ns))), tag=f'len-is-the-product-of-the-shape-{dims}d')
    ck.explore(f'{LS}.Landscape.__len__', length, T)

    def length_sym(S):
        shape = S.seq('shape')
        o = S.new('StokesLandscape', shape=shape, stokes='IQU')
        out = S.call(S.I.getattr(o, '__len__'), [])
        S.oblige('post', out.normal and zbool(z_eq(out.value, ST.Pprod(shape.arr, 0, to_z3(shape.length)))),
                 tag='len-is-the-product-of-the-shape-any-rank')
    ck.explore(f'{LS}.Landscape.__len__', length_sym, T, label='any-rank')

    # ------------------------------------------------------------------ HealpixLandscape.__init__
    def healpix_init(S):
        S.oracle = {'name': 'shapes'}
        nside = S.int('nside')
        S.assume(nside >= 1)
        o = Obj(P.cls('HealpixLandscape'))
        out = S.call(S.func(f'{LS}.HealpixLandscape.__init__'), [o, nside])
        if not out.normal:
            S.oblige('exc', False, tag=f'no-exception-{out.value.name}')
            return
        sh = B.as_seq_or_none(S.I, o.fields.get('shape'))
        ps = B.as_seq_or_none(S.I, o.fields.get('pixel_shape'))
        ok = sh is not None and ps is not None and concrete(sh.length) == 1 and concrete(ps.length) == 1
        S.oblige('post', bool(ok), tag='one-map-dimension')
        if ok:
            S.oblige('post', z_and(z_eq(sh.get(0), 12 * nside * nside), z_eq(ps.get(0), 12 * nside * nside)),
                     tag='shape-is-(12 nside^2,)')
        S.oblige('post', z_eq(o.fields.get('nside'), nside), tag='nside-stored')
    ck.explore(f'{LS}.HealpixLandscape.__init__', healpix_init, T)

    # ------------------------------------------------------------------ pixel2index: closed formula, -1 outside, dtype
    def pixel2index(S):
        S.oracle = {'name': 'pixel2index', 'x64': True}
        dims = 1 + S.choose(3)
        S.inputs['dims'] = dims
        o, ns = landscape(S, dims)
        size_class(S, ns)
        # where a dtype-boundary defect would show first (refutation hint only)
        hint = z3.And(*[ns[d] == (2 ** 31 if d == 0 else 1) for d in range(dims)])
        cs = [S.real(f'c{d}') for d in range(dims)]
        out = S.call(S.I.getattr(o, 'pixel2index'), [PX.PtV(c, Ext('numpy.float64')) for c in cs])
        if not out.normal:
            S.oblige('exc', False, tag=f'no-exception-{out.value.name}')
            return
        r = out.value
        ok = isinstance(r, PX.PtV) and r.term.sort() == z3.IntSort()
        S.oblige('post', bool(ok), tag='returns-an-integer-array')
        if not ok:
            return
        ks = [PX.f_rnd(to_real(c)) for c in cs]
        for d, k in enumerate(ks):
            S.inputs[f'k{d}'] = k
        valid, idx = closed_formula(ks, ns)
        S.oblige('post', z3.Implies(valid, r.term == idx), hint=hint,
                 tag=f'in-map-index-is-row-major-first-coordinate-fastest-{dims}d')
        S.oblige('post', z3.Implies(z3.Not(valid), r.term == -1), tag=f'outside-the-map-in-any-dimension-gives-minus-one-{dims}d')
        # "the index dtype is wide enough for N": the chosen dtype represents every index 0..N-1, and every comparison
        # of the range test is exact for it (the Python int n_d converts to the dtype without wrap-around)
        N = prod(ns)
        bits = PX.bits_of(r.dtype)
        S.oblige('post', bits in (32, 64), tag='index-dtype-is-int32-or-int64')
        if bits in (32, 64):
            top = 2 ** (bits - 1) - 1
            S.oblige('post', N - 1 <= top, hint=hint, tag=f'index-dtype-represents-every-index-0..N-1-{dims}d')
            for d, n in enumerate(ns):
                S.oblige('post', n <= top, hint=hint, tag=f'range-test-on-axis-{d}-is-exact-in-the-index-dtype-{dims}d')
    ck.explore(f'{LS}.StokesLandscape.pixel2index', pixel2index, T)

    def pixel2index_none(S):
        S.oracle = {'name': 'pixel2index'}
        o, ns = landscape(S, 2)
        out = S.call(S.I.getattr(o, 'pixel2index'), [])
        S.oblige('exc', out.raised('TypeError'), tag='TypeError-without-coordinates')
    ck.explore(f'{LS}.StokesLandscape.pixel2index', pixel2index_none, T, label='no-coordinates')

    # ------------------------------------------------------------------ bijection of in-map integer coordinates onto 0..N-1
    def call_int(S, o, ks):
        out = S.call(S.I.getattr(o, 'pixel2index'), [PX.PtV(z3.ToReal(k), Ext('numpy.float64')) for k in ks])
        return out.value.term if out.normal and isinstance(out.value, PX.PtV) else None

    def injective(S):
        S.oracle = {'name': 'bijection'}
        dims = 1 + S.choose(3)
        S.inputs['dims'] = dims
        o, ns = landscape(S, dims)
        size_class(S, ns)
        ka = [S.int(f'a{d}') for d in range(dims)]
        kb = [S.int(f'b{d}') for d in range(dims)]
        for k, n in zip(ka + kb, ns + ns):
            S.assume(z3.And(0 <= k, k < n))
        ia, ib = call_int(S, o, ka), call_int(S, o, kb)
        S.oblige('post', ia is not None and ib is not None, tag='returns-integers')
        if ia is None or ib is None:
            return
        N = prod(ns)
        _, fa = closed_formula(ka, ns)
        _, fb = closed_formula(kb, ns)
        # (1) the code's outputs are the closed formula at the two pixels
        S.oblige('post', z3.And(ia == fa, ib == fb), tag=f'outputs-are-the-closed-formula-{dims}d')
        # (2) mixed-radix lemma on the closed formula, proved by the back end for this many digits
        if dims == 3:
            S.assume(mul_facts(S, ka, kb, ns))      # product facts, each proved as a `lemma` obligation first
        in_range = z3.And(0 <= fa, fa < N)
        inj = z3.Implies(fa == fb, z3.And(*[a == b for a, b in zip(ka, kb)]))
        S.oblige('lemma', in_range, tag=f'mixed-radix-value-in-range-{dims}-digits')
        S.oblige('lemma', inj, tag=f'mixed-radix-digits-are-unique-{dims}-digits')
        # (3) hence, for the code's outputs
        S.assume(z3.And(ia == fa, ib == fb, in_range, inj))
        S.oblige('post', z3.And(0 <= ia, ia < N), tag=f'in-map-indices-lie-in-0..N-1-{dims}d')
        S.oblige('post', z3.Implies(ia == ib, z3.And(*[a == b for a, b in zip(ka, kb)])),
                 tag=f'distinct-in-map-pixels-get-distinct-indices-{dims}d')
    ck.explore(f'{LS}.StokesLandscape.pixel2index', injective, T, label='injective')

    def surjective(S):
        S.oracle = {'name': 'bijection'}
        dims = 1 + S.choose(3)
        S.inputs['dims'] = dims
        o, ns = landscape(S, dims)
        size_class(S, ns)
        v = S.int('v')
        N = prod(ns)
        S.assume(z3.And(0 <= v, v < N))
        # digits of v in the mixed radix (n0, n1, ...): Euclidean division (quotients/remainders as fresh integers)
        ks, rest = [], v
        for d in range(dims - 1):
            q, r = S.int(f'q{d}'), S.int(f'r{d}')
            S.assume(z3.And(rest == q * ns[d] + r, 0 <= r, r < ns[d]))       # division with remainder by n_d >= 1
            ks.append(r)
            rest = q
        ks.append(rest)
        S.oblige('post', z3.And(0 <= ks[-1], ks[-1] < ns[-1]), tag=f'leading-digit-in-range-{dims}d')
        for k, n in zip(ks, ns):
            S.assume(z3.And(0 <= k, k < n))        # (proved just above for the leading digit, assumed by construction for the others)
        i = call_int(S, o, ks)
        S.oblige('post', i is not None and zbool(i == v), tag=f'every-index-0..N-1-is-the-image-of-its-digits-{dims}d')
    ck.explore(f'{LS}.StokesLandscape.pixel2index', surjective, T, label='surjective')

    # ------------------------------------------------------------------ world2index / HealpixLandscape.world2pixel
    def world2index(S):
        S.oracle = {'name': 'healpix'}
        nside = S.int('nside')
        S.assume(nside >= 1)
        npix = 12 * nside * nside
        S.assume(z3.And(npix != 2 ** 31, npix <= 2 ** 63 - 1))      # 12 nside^2 = 2^31 is impossible (3 does not divide 2^31)
        # the landscape's dtype is the dtype of the map values; the pointing angles are float64 whatever it is
        dts = ['numpy.float64', 'numpy.float32', 'numpy.float16', 'numpy.int32']
        dt = dts[S.choose(len(dts))]
        S.inputs['landscape_dtype'] = dt
        o = S.new('HealpixLandscape', shape=(npix,), pixel_shape=(npix,), stokes='IQU', dtype=Ext(dt), nside=nside)
        theta, phi = S.real('theta'), S.real('phi')
        pt, pp = PX.PtV(theta, Ext('numpy.float64')), PX.PtV(phi, Ext('numpy.float64'))
        w = S.call(S.I.getattr(o, 'world2pixel'), [pt, pp])
        ok = w.normal and isinstance(w.value, tuple) and len(w.value) == 1 and isinstance(w.value[0], PX.PtV)
        S.oblige('post', bool(ok), tag='world2pixel-returns-one-coordinate')
        if ok:
            S.oblige('post', w.value[0].term == PX.f_ang2pix(nside, theta, phi), tag='world2pixel-is-ang2pix(nside, theta, phi)')
        out = S.call(S.I.getattr(o, 'world2index'), [pt, pp])
        if not out.normal:
            S.oblige('exc', False, tag=f'no-exception-{out.value.name}')
            return
        r = out.value
        S.oblige('post', isinstance(r, PX.PtV) and zbool(r.term == PX.f_ang2pix(nside, theta, phi)),
                 tag='world2index-is-pixel2index-of-world2pixel = the-healpix-pixel-number')
    ck.explore(f'{LS}.StokesLandscape.world2index', world2index, T)

    # ------------------------------------------------------------------ get_coverage
    W2I = f'{LS}.StokesLandscape.world2index'

    def coverage(S):
        S.oracle = {'name': 'coverage'}
        dims = 1 + S.choose(2)
        o, ns = landscape(S, dims)
        N = prod(ns)
        nsamples = S.int('nsamples')
        S.assume(nsamples >= 0)
        hits = z3.Function('Hits', z3.IntSort(), z3.IntSort())       # Hits(w) = number of samples whose index is w
        w = fresh_int('w')
        S.assume(z3.ForAll([w], hits(w) >= 0, patterns=[hits(w)]))
        # arbitrary samplings: every sample's index is a pixel number in [0, N) or -1 (out of the map) — the post of
        # pixel2index proved above (closed formula; in-map indices lie in 0..N-1)
        S.assume(z3.ForAll([w], z3.Implies(hits(w) > 0, z3.And(-1 <= w, w < N)), patterns=[hits(w)]))
        theta, phi = object(), object()
        seen = {}

        def w2i_contract(interp, fi, args, kwargs):
            # callee contract of world2index (scenario world2index / pixel2index: element-wise, one index per sample)
            seen['args'] = args
            return PX.MultiArr(lambda x: hits(x), nsamples)
        S.I.contracts[W2I] = w2i_contract
        sampling = S.new('Sampling', theta=theta, phi=phi, pa=object())
        out = S.call(S.I.getattr(o, 'get_coverage'), [sampling])
        if not out.normal:
            S.oblige('exc', False, tag=f'no-exception-{out.value.name}')
            return
        a = seen.get('args')
        S.oblige('post', a is not None and len(a) == 3 and a[1] is theta and a[2] is phi,
                 tag='indices-are-world2index(sampling.theta, sampling.phi)')
        cov = out.value
        ok = isinstance(cov, IX.ArrV) and 'scatter' in cov.ghost.get('reshaped_from', cov).ghost
        S.oblige('post', bool(ok), tag='coverage-is-a-scatter-add')
        if not ok:
            return
        S.oblige('post', z_eq(cov.length, N), tag='one-bin-per-pixel (len(self), not size)')
        rs = cov.ghost.get('reshaped_to')
        S.oblige('post', rs is not None and zbool(z_eq(B.as_seq(S.I, rs), SSeq.lift(tuple(reversed(ns))))),
                 tag='reshaped-to-the-map-shape')
        sc = cov.ghost.get('reshaped_from', cov).ghost['scatter']
        U, C = sc['U'], sc['C']
        ug = U.ghost.get('unique')
        v = S.int('v')
        S.assume(z3.And(0 <= v, v < N))
        S.inputs['hits_v'] = hits(v)
        S.inputs['hits_outside'] = hits(-1)
        if ug is not None:
            S.assume(z3.And(ug['member'](v), ug['member'](v - to_z3(cov.length))))     # instances of the unique contract
            S.assume(IX.sum_support(U.elems, C.elems, U.length, cov.length, v, ug['Pos'](v), ug['Pos'](v - to_z3(cov.length))))
        # where a truncating jnp.unique(size=N) shows: every pixel hit and one sample out of the map (N + 1 distinct values)
        hint = z3.And(*[n == 1 for n in ns], v == 0, hits(0) == 2, hits(-1) == 1)
        # histogram: exact for every pixel; the out-of-map samples (index -1) are accounted to the LAST pixel by the
        # wrap-around of index -1 in .at[].add (dependency contract), so that no sample is lost
        expect = hits(v) + z3.If(v == N - 1, hits(-1), 0)
        S.oblige('post', cov.elems[v] == expect, hint=hint,
                 tag='coverage[v]-is-the-number-of-samples-with-index-v (plus the out-of-map samples on the last pixel)')
        S.oblige('post', cov.elems[v] >= hits(v), hint=hint, tag='coverage[v]-is-at-least-the-number-of-samples-with-index-v')
        # total = number of samples: Σ_v coverage[v] = Σ_{w in [-1, N)} Hits(w) = nsamples by double counting, given the
        # per-bin equality above and that no occurring index is dropped by the scatter-add:
        nb = to_z3(cov.length)
        S.oblige('post', z3.ForAll([w], z3.Implies(hits(w) > 0, z3.And(0 <= IX.nrm(w, nb), IX.nrm(w, nb) < nb))),
                 tag='no-sample-is-dropped-by-the-scatter-add (total = number of samples by double counting)')
    ck.explore(f'{LS}.StokesLandscape.get_coverage', coverage, T)


def mul_facts(S, ka, kb, ns):
    """valid facts about the products formed for three digits (each an instance of: 0 <= x < n and m >= 1 imply
    0 <= x*m <= (n-1)*m, and (x - y)*m is a multiple that is 0 or at least m in absolute value) — proved as separate
    obligations `lemma` by the same back end before being used"""
    n0, n1, n2 = ns
    m = n0 * n1
    facts = []
    for k in (ka, kb):
        facts += [k[1] * n0 >= 0, k[1] * n0 <= (n1 - 1) * n0, k[2] * m >= 0, k[2] * m <= (n2 - 1) * m]
    facts += [m >= 1, (n1 - 1) * n0 == m - n0, (n2 - 1) * m == n2 * m - m]
    for k in (ka, kb):
        facts += [k[0] + k[1] * n0 <= m - 1, k[0] + k[1] * n0 + k[2] * m <= n2 * m - 1]
    d2 = ka[2] - kb[2]
    d1 = ka[1] - kb[1]
    facts += [z3.Implies(d2 >= 1, ka[2] * m - kb[2] * m >= m), z3.Implies(d2 <= -1, ka[2] * m - kb[2] * m <= -m),
              z3.Implies(d1 >= 1, ka[1] * n0 - kb[1] * n0 >= n0), z3.Implies(d1 <= -1, ka[1] * n0 - kb[1] * n0 <= -n0)]
    for i, f in enumerate(facts):
        S.oblige('lemma', f, tag=f'product-fact-{i}')
    return z3.And(*facts)

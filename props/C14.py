"""C14 — einsum block operator and its rewritten-subscript transpose (pack: furax._base.dense).

Functions under contract (real bodies, re-read from /repo on every run):
  DenseBlockDiagonalOperator._parse_subscripts, ._get_transposed_subscripts, .__init__, .transpose, .mv

Strings are sequences of character codes of unbounded symbolic length (theories/strings.py).
Top-level postcondition (property text + trusted lemma LA10, the einsum adjoint criterion): for a well-formed
two-operand explicit subscript string  L,R->S  `_get_transposed_subscripts` raises ValueError or returns
L2,R2->S2 with, for sigma = the swap of the contracted letter c (in L and R, not in S) and the free block letter
f (in L and S, not in R):  L2 = sigma(L) at EVERY position, R2 = R, S2 = S, sigma(S) = R position-wise; and it
only returns when exactly one such c and exactly one such f exist.
"""
from __future__ import annotations

import os

import z3

from pyvc import builtins_model as B
from pyvc.theory import Theory
from pyvc.values import (Obj, SSeq, Unsupported, Value, concrete, fresh_int, to_z3, z_and, z_eq, z_implies, z_not,
                         z_or, zbool)
from theories import strings as STR
from theories import structs as ST
from theories import trees as TR

DN = 'furax._base.dense'
CLS = f'{DN}.DenseBlockDiagonalOperator'
COMMA, DOT, SPACE, MINUS, GT = STR.COMMA, STR.DOT, STR.SPACE, STR.MINUS, STR.GT


def theory():
    T = Theory()
    ST.install(T)
    STR.install(T, modules=[DN])
    TR.install(T)
    return T


def str_input(S, name):
    return S.seq(name, kind='str')


# ------------------------------------------------------------------------------------------------ grammar
class Subs:
    """a generic well-formed subscripts string  L , R -> S : each term is a piece of letters, optionally followed by
    '...' and a second piece of letters (the pieces have any length >= 0, so the ellipsis stands anywhere)"""

    def __init__(self, S, spaces=False):
        self.dots = [S.choose(2) == 1 for _ in range(3)]
        S.inputs['dots'] = list(self.dots)
        self.terms = []
        pieces = []
        for nm, d, sep in zip('LRS', self.dots, (',', '->', None)):
            ps = [STR.letters(S, nm + '1')] + (['...', STR.letters(S, nm + '2')] if d else [])
            self.terms.append(STR.pstr(*ps))
            pieces += ps + ([sep] if sep else [])
        self.L, self.R, self.Sr = self.terms
        self.s = STR.pstr(*pieces)
        self.nL, self.nR, self.nS = [to_z3(t.length) for t in self.terms]

    def pin(self, l, r, s, S):
        """confine the input to one concrete string (used to exhibit a counter-model quickly)"""
        for term, spec in zip(self.terms, (l, r, s)):
            spec = (spec,) if isinstance(spec, str) else spec
            for p, text in zip(self.letter_pieces(term), spec):
                S.assume(z3.And(to_z3(p.length) == len(text), *[p.arr[i] == ord(ch) for i, ch in enumerate(text)]))

    @staticmethod
    def letter_pieces(term):
        return [p for p in term.pieces if not isinstance(p, list)]

    def has(self, term, x):
        """label x occurs in the term (dots are not labels)"""
        return z_or(*[p.exists(lambda k, e: e == x) for p in self.letter_pieces(term)])

    def twice(self, term, x):
        ps = self.letter_pieces(term)
        out = []
        for n, p in enumerate(ps):
            i, j = fresh_int('i'), fresh_int('j')
            out.append(z3.Exists([i, j], z3.And(0 <= i, i < j, j < to_z3(p.length), p.get(i) == x, p.get(j) == x)))
            for q in ps[n + 1:]:
                out.append(z3.And(p.exists(lambda k, e: e == x), q.exists(lambda k, e: e == x)))
        return z_or(*out)

    def contracted(self, x):
        return z3.And(self.has(self.L, x), self.has(self.R, x), z3.Not(self.has(self.Sr, x)))

    def free(self, x):
        return z3.And(self.has(self.L, x), self.has(self.Sr, x), z3.Not(self.has(self.R, x)))

    # cardinality statements quantify over the positions of L (array reads are the instantiation triggers)
    def some(self, pred):
        return z_or(*[p.exists(lambda k, e: pred(e)) for p in self.letter_pieces(self.L)])

    def all_positions(self, pred):
        return z_and(*[p.forall(lambda k, e: pred(e)) for p in self.letter_pieces(self.L)])

    def unique(self, pred):
        ps = self.letter_pieces(self.L)
        out = []
        for n, p in enumerate(ps):
            for q in ps[n:]:
                out.append(p.forall(lambda i, a, q=q: q.forall(
                    lambda j, b: z3.Implies(z3.And(pred(a), pred(b)), to_z3(a) == to_z3(b)))))
        return z_and(*out)

    def result_labels_distinct(self):
        ps = self.letter_pieces(self.Sr)
        out = []
        for n, p in enumerate(ps):
            i, j = fresh_int('i'), fresh_int('j')
            out.append(z3.ForAll([i, j], z3.Implies(z3.And(0 <= i, i < j, j < to_z3(p.length)), p.get(i) != p.get(j))))
            for q in ps[n + 1:]:
                out.append(p.forall(lambda i, a, q=q: q.forall(lambda j, b: to_z3(a) != to_z3(b))))
        return z_and(*out)


def finding_open(ck, fid):
    return any(f.get('id') == fid and f.get('status') == 'open' and f.get('property') == ck.prop for f in ck.findings)


def pure(obs, n0):
    """a lemma about the inputs alone: keep only the hypotheses that were there before the code ran (dropping
    hypotheses is always sound; it spares the solver the irrelevant path condition)"""
    for ob in obs:
        ob.hyps = ob.hyps[:n0]
    return obs


def one_comma_one_arrow(a, n, p, v):
    """the string (a, n) is  l , r -> t  with its only comma at p and, in the text after the comma, its only arrow
    at v (= len(r)); positions after the comma are written p + 1 + q, the coordinates of that text"""
    q = fresh_int('q')

    def arrow(i):
        return z3.And(i >= 0, i + p + 3 <= n, a[i + p + 1] == MINUS, a[i + p + 2] == GT)
    return z3.And(0 <= p, p < n, a[p] == COMMA,
                  z3.ForAll([q], z3.Implies(z3.And(0 <= q, q < n, a[q] == COMMA), q == p)),
                  arrow(v), z3.ForAll([q], z3.Implies(arrow(q), q == v)))


def swap(c, f, x):
    x = to_z3(x)
    return z3.If(x == c, f, z3.If(x == f, c, x))


def build(ck):
    # branch-feasibility queries of this pack answer `unsat` in < 0.1 s or not at all (quantified sat side): a short
    # budget only prunes fewer paths, it never changes a verdict
    from pyvc import run as _run
    old = _run.FEAS_TIMEOUT_MS
    _run.FEAS_TIMEOUT_MS = 300
    try:
        _build(ck)
    finally:
        _run.FEAS_TIMEOUT_MS = old


def _build(ck):
    T = theory()
    P = ck.P
    only = os.environ.get('VF_SCEN')          # debugging aid: run a subset of the scenarios
    _explore = ck.explore

    def explore(name, body, *a, **k):
        if only and only not in body.__name__:
            return []
        return _explore(name, body, *a, **k)
    ck.explore = explore
    ck.trust('lemma:LA10 einsum adjoint criterion: (L2,R2,S2) denotes the adjoint of einsum(L,R->S)(A, .) iff a '
             'bijection sigma of labels has sigma(L2)=L, sigma(R2)=S, sigma(S2)=R position-wise (here sigma = swap '
             'of the contracted and the free block letter, R2=R, S2=S)')
    ck.trust('lemma:LA10-struct: with the same blocks, the rewritten subscripts and outs(o) as input structure, the '
             'output structure is ins(o) when the ellipsis dimensions of the blocks do not enlarge those of the input')
    ck.assume_note('C14: well-formed subscripts = terms made of ASCII letters with at most one "..." each, exactly '
                   'one "," and one "->" (the class of strings the property quantifies over)')

    # ------------------------------------------------------------------ _parse_subscripts, any string
    def parse(S):
        S.oracle = {'name': 'subscripts'}
        s = str_input(S, 'subscripts')
        a, n = s.arr, to_z3(s.length)
        out = S.call(S.func(f'{CLS}._parse_subscripts'), [s])
        shape = lambda p, w: one_comma_one_arrow(a, n, p, w)
        if out.raised('ValueError'):
            p, w = fresh_int('p'), fresh_int('w')
            S.oblige('exc', z3.Not(z3.Exists([p, w], shape(p, w))),
                     tag='ValueError-only-without-exactly-one-comma-and-one-arrow-after-it')
        elif out.normal:
            r = out.value
            ok = isinstance(r, tuple) and len(r) == 3 and all(isinstance(x, SSeq) and x.kind == 'str' for x in r)
            S.oblige('post', bool(ok), tag='returns-three-strings')
            if not ok:
                return
            l, rr, t = r
            p = to_z3(l.length)
            w = p + 1 + to_z3(rr.length)
            S.oblige('post', shape(p, to_z3(rr.length)), tag='one-comma-one-arrow-at-the-term-boundaries')
            S.oblige('post', w + 2 + to_z3(t.length) == n, tag='terms-cover-the-string')
            S.oblige('post', l.forall(lambda k, e: to_z3(e) == a[to_z3(k)]), tag='left-term-is-the-text-before-the-comma')
            S.oblige('post', rr.forall(lambda k, e: to_z3(e) == a[to_z3(k) + p + 1]),
                     tag='right-term-is-the-text-between-comma-and-arrow')
            S.oblige('post', t.forall(lambda k, e: to_z3(e) == a[to_z3(k) + w + 2]),
                     tag='result-term-is-the-text-after-the-arrow')
        else:
            S.oblige('exc', False, tag=f'undeclared-{out.value.name}')
    ck.explore(f'{CLS}._parse_subscripts', parse, T)

    # ------------------------------------------------------------------ _get_transposed_subscripts
    def gts(S):
        S.oracle = {'name': 'subscripts'}
        G = Subs(S)
        L, R, Sr, nL, nR, nS = G.L, G.R, G.Sr, G.nL, G.nR, G.nS
        n0 = len(S.run.axioms) + len(S.run.pc)
        out = S.call(S.func(f'{CLS}._get_transposed_subscripts'), [G.s])
        c0, f0 = z3.Int('c0'), z3.Int('f0')
        x, y = fresh_int('x'), fresh_int('y')
        some_c, some_f = G.some(G.contracted), G.some(G.free)
        uniq_c, uniq_f = G.unique(G.contracted), G.unique(G.free)
        relabels = z_and(nS == nR, Sr.forall(lambda k, e: swap(c0, f0, e) == to_z3(R.get(k))))
        if out.raised('ValueError'):
            # completeness: a refusal means that no rewriting of the stated form exists (c0, f0 generic)
            S.assume(G.result_labels_distinct())
            ante = z3.And(G.contracted(c0), G.free(f0), uniq_c, uniq_f)
            # two steps (cut): under the antecedent every contracted (free) letter of L *is* c0 (f0); with that the
            # refusal contradicts sigma(S) = R
            only_c0 = G.all_positions(lambda e: z3.Implies(G.contracted(e), to_z3(e) == c0))
            only_f0 = G.all_positions(lambda e: z3.Implies(G.free(e), to_z3(e) == f0))
            pure(S.oblige('exc', z3.Implies(ante, only_c0), tag='completeness-step1:contracted-letters-of-L-are-c0'), n0)
            pure(S.oblige('exc', z3.Implies(ante, only_f0), tag='completeness-step1:free-letters-of-L-are-f0'), n0)
            S.oblige('exc', z3.Implies(z3.And(ante, only_c0, only_f0), z3.Not(relabels)),
                     tag='refuses-only-when-no-single-contracted/free-letter-rewriting-exists')
            return
        if not out.normal:
            S.oblige('exc', False, tag=f'undeclared-{out.value.name}')
            return
        r = out.value
        ok = isinstance(r, SSeq) and r.kind == 'str'
        S.oblige('post', bool(ok), tag='returns-a-string')
        if not ok:
            return
        S.oblige('post', some_c, tag='a-contracted-letter-exists')
        S.oblige('post', uniq_c, tag='the-contracted-letter-is-unique')
        S.oblige('post', some_f, tag='a-free-block-letter-exists')
        S.oblige('post', uniq_f, tag='the-free-block-letter-is-unique')
        # generic c0 / f0: proving the rest for arbitrary constants satisfying the two predicates is the universal
        # statement "for the contracted letter c and the free letter f"
        S.assume(z3.And(G.contracted(c0), G.free(f0)))
        # input class of finding C14-repeated-letter: the contracted or the free letter stands twice in L
        rep = z3.Or(G.twice(L, c0), G.twice(L, f0))
        cls_ = S.choose(2)
        S.assume(rep if cls_ else z3.Not(rep))
        finding = 'C14-repeated-letter' if cls_ else None
        if cls_ and finding_open(ck, finding):
            # the class is excluded from the claim while the finding is open: the tagged obligation is stated on a
            # concrete member of the class (hypotheses strengthened: a counter-model of it is one of the general
            # statement), which the solver refutes at once; without the open entry the general statement is emitted
            G.pin('iji' if not G.dots[0] else ('i', 'ji'), 'j' if not G.dots[1] else ('j', ''),
                  'i' if not G.dots[2] else ('i', ''), S)
        g = lambda k: to_z3(r.get(z3.simplify(to_z3(k))))
        S.oblige('post', to_z3(r.length) == nL + nR + nS + 3, tag='same-length')
        S.oblige('post', L.forall(lambda k, e: g(k) == swap(c0, f0, e)), tag='L2-is-sigma(L)-at-every-position',
                 finding=finding)
        S.oblige('post', z_and(g(nL) == COMMA, R.forall(lambda k, e: g(nL + 1 + to_z3(k)) == to_z3(e))),
                 tag='comma-then-R2=R')
        S.oblige('post', z_and(g(nL + 1 + nR) == MINUS, g(nL + 2 + nR) == GT,
                               Sr.forall(lambda k, e: g(nL + nR + 3 + to_z3(k)) == to_z3(e))), tag='arrow-then-S2=S')
        S.oblige('post', relabels, tag='sigma(S)=R-position-wise')
    ck.explore(f'{CLS}._get_transposed_subscripts', gts, T)

    # ------------------------------------------------------------------ __init__ (any string without spaces)
    def blocks_input(S):
        """blocks: one array, or a pytree with any number of array leaves; returns (value, all leaves have ndim >= 2)"""
        if S.choose(2) == 0:
            b = ST.LeafV(z3.Const('blocks', ST.Leaf))
            S.inputs['blocks_ndim'] = ST.f_ndim(b.term)
            return b, ST.f_ndim(b.term) >= 2
        leaves = S.seq('block_leaves', kind='list', sort=ST.Leaf, wrap=ST.LeafV)
        return ST.StructV(leaves), leaves.forall(lambda k, e: ST.f_ndim(e.term) >= 2)

    def init_general(S):
        S.oracle = {'name': 'mv'}
        s = str_input(S, 'subscripts')
        a, n = s.arr, to_z3(s.length)
        S.assume(s.forall(lambda k, e: to_z3(e) != SPACE))
        blocks, ranks_ok = blocks_input(S)
        ins = ST.LeafV(z3.Const('in_structure', ST.Leaf))
        o = Obj(P.cls('DenseBlockDiagonalOperator'))
        out = S.call(S.func(f'{CLS}.__init__'), [o, blocks, ins, s])
        p, w = fresh_int('p'), fresh_int('w')
        parses = z3.Exists([p, w], one_comma_one_arrow(a, n, p, w))
        if out.raised('ValueError'):
            S.oblige('exc', z3.Not(z3.And(ranks_ok, parses)),
                     tag='ValueError-only-for-blocks-of-rank<2-or-subscripts-without-one-comma-and-one-arrow')
        elif out.normal:
            S.oblige('exc', ranks_ok, tag='accepts-only-blocks-of-rank>=2')
            # witness of `parses`: the term boundaries found by a ghost run of the (separately verified) parser
            g = S.call(S.func(f'{CLS}._parse_subscripts'), [s])
            if g.normal:
                pw = to_z3(g.value[0].length)
                S.oblige('exc', one_comma_one_arrow(a, n, pw, to_z3(g.value[1].length)),
                         tag='accepts-only-subscripts-with-one-comma-and-one-arrow')
            else:
                S.oblige('exc', False, tag='accepts-only-subscripts-with-one-comma-and-one-arrow')
            S.oblige('post', z_and(o.fields.get('blocks') is blocks, o.fields.get('_in_structure') is ins),
                     tag='blocks-and-input-structure-stored')
            st = o.fields.get('subscripts')
            S.oblige('post', isinstance(st, SSeq) and st.kind == 'str' and z_eq(st, s),
                     tag='subscripts-stored-unchanged-when-they-hold-no-space')
        else:
            S.oblige('exc', False, tag=f'undeclared-{out.value.name}')
    ck.explore(f'{CLS}.__init__', init_general, T)

    # ------------------------------------------------------------------ __init__ (well-formed strings with spaces)
    def init_spaces(S):
        S.oracle = {'name': 'mv'}
        G = Subs(S)
        v = S.choose(3)
        spaced = [STR.pstr(' ', G.L, ' , ', G.R, ' ->  ', G.Sr, ' '),
                  STR.pstr(G.L, ', ', G.R, '->', G.Sr),
                  STR.pstr(*[x for pc in G.L.pieces for x in ((''.join(map(chr, pc)) if isinstance(pc, list) else pc), ' ')],
                           ',', G.R, ' ', '->', ' ', G.Sr)][v]
        S.inputs['spacing'] = v
        blocks = ST.LeafV(z3.Const('blocks', ST.Leaf))
        S.assume(ST.f_ndim(blocks.term) >= 2)
        ins = ST.LeafV(z3.Const('in_structure', ST.Leaf))
        o = Obj(P.cls('DenseBlockDiagonalOperator'))
        out = S.call(S.func(f'{CLS}.__init__'), [o, blocks, ins, spaced])
        S.oblige('exc', out.normal, tag='well-formed-subscripts-with-spaces-accepted')
        if out.normal:
            st = o.fields.get('subscripts')
            S.oblige('post', isinstance(st, SSeq) and st.kind == 'str' and z_eq(st, G.s), tag='spaces-removed-nothing-else')
    ck.explore(f'{CLS}.__init__', init_spaces, T, label='spaces')

    # ------------------------------------------------------------------ transpose
    def transpose(S):
        S.oracle = {'name': 'structures'}
        G = Subs(S)
        blocks = ST.LeafV(z3.Const('blocks', ST.Leaf))
        S.assume(ST.f_ndim(blocks.term) >= 2)              # class invariant (constructor scenario)
        ins = ST.LeafV(z3.Const('in_structure', ST.Leaf))
        outs = ST.LeafV(z3.Const('out_structure', ST.Leaf))
        o = S.new('DenseBlockDiagonalOperator', blocks=blocks, _in_structure=ins, subscripts=G.s)
        log = {'gts_args': [], 'gts_raised': False, 'outs_calls': 0, 't': None}

        def gts_contract(interp, fi, args, kwargs):
            """contract of _get_transposed_subscripts, proved by scenario `gts` (posts same-length, L2-is-sigma(L),
            comma-then-R2=R, arrow-then-S2=S, existence/uniqueness of c and f) for inputs outside the open finding's
            class"""
            run = interp.run
            log['gts_args'].append(args[-1])
            if run.decide(2) == 0:
                log['gts_raised'] = True
                interp.raise_('ValueError')
            c, f = fresh_int('c'), fresh_int('f')
            run.assume(z3.And(G.contracted(c), G.free(f)))
            new_l = []
            for pc in G.L.pieces:
                if isinstance(pc, list):
                    new_l.append(pc)
                    continue
                q = SSeq.fresh('L2', kind='str', length=pc.length)
                run.assume(q.forall(lambda k, e: to_z3(e) == swap(c, f, pc.get(k))))
                run.assume(q.forall(lambda k, e: STR.letter(e)))     # implied: c, f and the characters of pc are letters
                q.charset = 'letters'
                new_l.append(q)
            log['t'] = STR.PStr(new_l + [[COMMA]] + G.R.pieces + [[MINUS, GT]] + G.Sr.pieces)
            return log['t']

        outs_t = ST.LeafV(z3.Const('out_structure_of_the_transpose', ST.Leaf))

        def outs_contract(interp, fi, args, kwargs):
            if args and args[0] is o:
                log['outs_calls'] += 1
                return outs
            log['outs_t_calls'] = log.get('outs_t_calls', 0) + 1
            log['outs_t_of'] = args[0] if args else None
            return outs_t
        S.I.contracts = {f'{CLS}._get_transposed_subscripts': gts_contract,
                         'furax._base.core.AbstractLinearOperator.out_structure': outs_contract}
        out = S.call(S.I.getattr(o, 'transpose'), [])
        same_shapes = zbool(z_and(z_eq(outs_t.shape.length, ins.shape.length),
                                  ins.shape.forall(lambda i, e: z_eq(e, outs_t.shape.get(i)))))
        if out.raised('ValueError'):
            # refused: by the subscript rewriting, or because the rewritten operator does not map back onto the input
            # shapes (einsum broadcasts the ellipsis dimensions of the blocks: no exact transpose by rewriting)
            S.oblige('exc', z3.Or(z3.BoolVal(bool(log['gts_raised'])), z3.Not(same_shapes)),
                     tag='ValueError-only-from-the-subscript-rewriting-or-a-shape-changing-round-trip')
            return
        if not out.normal:
            S.oblige('exc', False, tag=f'undeclared-{out.value.name}')
            return
        t = out.value
        ok = isinstance(t, Obj) and t.cls.name == 'DenseBlockDiagonalOperator'
        S.oblige('post', bool(ok), tag='transpose-is-a-dense-block-diagonal-operator')
        if not ok:
            return
        S.oblige('post', len(log['gts_args']) == 1 and log['gts_args'][0] is G.s,
                 tag='subscripts-rewritten-from-own-subscripts')
        S.oblige('post', t.fields.get('blocks') is blocks, tag='same-blocks')
        S.oblige('post', t.fields.get('_in_structure') is outs and log['outs_calls'] == 1,
                 tag='input-structure-is-own-output-structure')
        st = t.fields.get('subscripts')
        subs_ok = isinstance(st, SSeq) and z_eq(st, log['t'])
        S.oblige('post', subs_ok, tag='subscripts-are-the-rewritten-ones')
        # struct facet: an accepted transpose maps back onto the input shapes, outs(o.T) ~ ins(o): the real body compares
        # the leaf shapes of the rewritten operator's output structure with those of its own input structure and refuses
        # otherwise (repair of finding C14-ellipsis-broadcasts-input: einsum broadcasts `...` of the blocks)
        S.oblige('post', log.get('outs_t_calls', 0) >= 1 and log.get('outs_t_of') is t,
                 tag='struct:the-output-structure-of-the-rewritten-operator-is-inspected', shape=True)
        S.oblige('post', same_shapes, tag='struct:shapes-of-outs(o.T)==shapes-of-ins(o)', oracle={'name': 'broadcast_input'})
    ck.explore(f'{CLS}.transpose', transpose, T)

    # ------------------------------------------------------------------ mv
    def mv(S):
        S.oracle = {'name': 'mv'}
        subs = str_input(S, 'subscripts')
        ins = ST.LeafV(z3.Const('in_structure', ST.Leaf))
        case = S.choose(3)
        S.inputs['case'] = ['single leaf', 'shared blocks', 'per-leaf blocks'][case]
        if case == 0:
            blocks = ST.LeafV(z3.Const('blocks', ST.Leaf))
            x = ST.LeafV(z3.Const('x', ST.Leaf))
        else:
            xs = S.seq('x_leaves', kind='list', sort=ST.Leaf, wrap=ST.LeafV)
            x = ST.StructV(xs)
            if case == 1:
                blocks = ST.LeafV(z3.Const('blocks', ST.Leaf))
            else:
                bs = S.seq('block_leaves', kind='list', sort=ST.Leaf, wrap=ST.LeafV)
                blocks = ST.StructV(bs, treedef=x.treedef)
                S.assume(z_eq(bs.length, xs.length))        # blocks and input: same pytree structure (requires)
        o = S.new('DenseBlockDiagonalOperator', blocks=blocks, _in_structure=ins, subscripts=subs)
        out = S.call(S.I.getattr(o, 'mv'), [x])
        if not out.normal:
            S.oblige('exc', False, tag=f'no-exception-{out.value.name}')
            return
        r = out.value

        def is_einsum(v, b, leaf):
            return isinstance(v, TR.EinsumV) and v.args[0] is subs and z_eq(v.args[1], b) and z_eq(v.args[2], leaf)
        if case == 0:
            S.oblige('post', is_einsum(r, blocks, x), tag='einsum(subscripts, blocks, x)')
            return
        ok = isinstance(r, ST.StructV)
        S.oblige('post', bool(ok), tag='result-is-a-pytree')
        if not ok:
            return
        S.oblige('post', z_and(z_eq(r.treedef, x.treedef), z_eq(r.leaves.length, xs.length)), tag='same-tree-structure-as-x')
        k = fresh_int('k')
        S.assume(z3.And(0 <= k, k < to_z3(xs.length)))       # generic leaf position
        rk = r.leaves.get(k)
        S.oblige('post', is_einsum(rk, blocks if case == 1 else blocks.leaves.get(k), xs.get(k)),
                 tag='every-leaf-is-einsum(subscripts, blocks%s, leaf)' % ('' if case == 1 else '[leaf]'))
    ck.explore(f'{CLS}.mv', mv, T)

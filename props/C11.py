"""C11 — diagonal operators multiply along the requested axes (pack: furax._base.diagonal).

Functions under contract (real bodies, re-read from /repo on every run):
  BroadcastDiagonalOperator.__init__/_normalize_axes/_reshape_diagonal/_reshape_input_leaf/_check_leaf_shapes/
  _reshape_leaves/mv, DiagonalOperator._check_leaf_shapes/as_matrix, DiagonalInverseOperator.diagonal

Unbounded part (symbolic rank r of the leaf, symbolic rank m of the values, symbolic axes): the pure sequence logic —
constructor's axis expansion, axis normalisation and duplicate test, the left/right broadcast counts, the reshape
target, the shifted destination axes, the wiring of every primitive call (wiring facet of theories/arrays.py).
Bounded part (reported in `bounded_checks`, not counted as proof): the element-level statement
mv(x)[p] = values[p_{a_0+L}, ..] * x~[p] per concrete (rank, values rank, axes) with symbolic dimension sizes.
"""
from __future__ import annotations

import itertools
import os

import z3

from pyvc import builtins_model as B
from pyvc.theory import Theory
from pyvc.values import Obj, PyRaise, SSeq, Unsupported, concrete, fresh_int, to_real, to_z3, z_and, z_eq, z_ite, z_not, z_or, zbool
from theories import arrays as AR
from theories import seqs as SQ
from theories import structs as ST
from theories import trees as TR

DG = 'furax._base.diagonal'
BC = f'{DG}.BroadcastDiagonalOperator'
DO = f'{DG}.DiagonalOperator'
CORE_OUTS = 'furax._base.core.AbstractLinearOperator.out_structure'


def theory():
    T = Theory()
    ST.install(T)
    TR.install(T)
    AR.install(T)
    SQ.install(T)
    return T


def norm(a, r):
    a = to_z3(a)
    return z3.If(a >= 0, a, to_z3(r) + a)


def warr(S, name):
    sh = S.seq(name + '_shape')
    return AR.WArr(sh, ('input', name), name), sh


def left_spec(axes: SSeq, L):
    """L = -min(0, min axes), stated without min: L >= 0, every axis + L >= 0, and L = 0 or some axis + L = 0"""
    return z_and(L >= 0, axes.forall(lambda k, e: to_z3(e) + L >= 0),
                 z_or(L == 0, axes.exists(lambda k, e: to_z3(e) + L == 0)))


def right_spec(axes: SSeq, r, R):
    """R = max(0, max axes - r + 1): R >= 0, every axis < r + R, and R = 0 or some axis = r + R - 1"""
    return z_and(R >= 0, axes.forall(lambda k, e: to_z3(e) < to_z3(r) + R),
                 z_or(R == 0, axes.exists(lambda k, e: to_z3(e) == to_z3(r) + R - 1)))


class ContainerTree(ST.StructV):
    """a pytree that is a Python container (list / dict of arrays): it has none of the array attributes"""

    def py_getattr(self, interp, name):
        interp.raise_('AttributeError', name)


LeafRank = z3.Function('leaf_rank', z3.IntSort(), z3.IntSort())
LeafDim = z3.Function('leaf_dim', z3.IntSort(), z3.IntSort(), z3.IntSort())


def generic_leaf(e):
    """the leaf identified by the token e: an array of any rank (wiring facet)"""
    return AR.WArr(SSeq(LeafRank(e), lambda k, e=e: LeafDim(e, to_z3(k))), ('leaf', e))


def build(ck):
    from pyvc import run as _run
    old = _run.FEAS_TIMEOUT_MS
    _run.FEAS_TIMEOUT_MS = 500
    try:
        _build(ck)
    finally:
        _run.FEAS_TIMEOUT_MS = old


def _build(ck):
    T = theory()
    P = ck.P
    only = os.environ.get('VF_SCEN')
    _explore = ck.explore

    def explore(name, body, *a, **k):
        if only and only not in body.__name__:
            return []
        return _explore(name, body, *a, **k)
    ck.explore = explore
    ck.assume_note('C11: an explicit axis sequence has as many entries as the values have dimensions (documented '
                   'requirement of axis_destination; the constructor does not check it)')
    ck.assume_note('C11: dimension sizes are >= 1 in the element-level (bounded) statements')

    # ------------------------------------------------------------------ __init__: axis expansion and validation
    def init(S):
        S.oracle = {'name': 'constructor'}
        form = S.choose(5)
        S.inputs['form'] = ['int', 'tuple', 'list', 'pytree-valued', 'default'][form]
        o = Obj(P.cls('BroadcastDiagonalOperator'))
        ins = ST.LeafV(z3.Const('in_structure', ST.Leaf))
        log = {'validated': 0, 'raised': False}

        def outs_contract(interp, fi, args, kwargs):
            """AbstractLinearOperator.out_structure(self) = eval_shape(self.mv, in_structure): runs the per-leaf
            validation of mv (scenarios normalize_axes / check_*): ValueError or a structure"""
            log['validated'] += 1
            log['fields_at_validation'] = dict(args[0].fields)
            if interp.run.decide(2) == 0:
                log['raised'] = True
                interp.raise_('ValueError')
            return ST.LeafV.fresh('outs')
        S.I.contracts = {CORE_OUTS: outs_contract}
        if form == 3:
            leaves = S.seq('value_leaves', kind='list', sort=ST.Leaf, wrap=ST.LeafV)
            out = S.call(S.func(f'{BC}.__init__'), [o, ContainerTree(leaves)], {'axis_destination': S.int('axis'), 'in_structure': ins})
            S.oblige('exc', out.raised('ValueError'), tag='pytree-valued-values-refused')
            return
        values, vshape = warr(S, 'values')
        m = to_z3(vshape.length)
        kw = {'in_structure': ins}
        if form == 0:
            a = S.int('axis')
            kw['axis_destination'] = a
            expect = lambda k: z3.If(a >= 0, a + k, a - m + 1 + k)
            elen = m
        elif form == 4:
            expect = lambda k: -1 - m + 1 + k          # default -1
            elen = m
        else:
            ax = S.seq('axes', kind='tuple' if form == 1 else 'list')
            kw['axis_destination'] = ax if form == 1 else B.PyList(None, seq=ax)
            expect = lambda k: to_z3(ax.get(k))
            elen = to_z3(ax.length)
        out = S.call(S.func(f'{BC}.__init__'), [o, values], kw)
        if out.raised('ValueError'):
            S.oblige('exc', z_or(m == 0, log['raised']), tag='ValueError-only-for-scalar-values-or-failed-leaf-validation')
            return
        if not out.normal:
            S.oblige('exc', False, tag=f'undeclared-{out.value.name}')
            return
        S.oblige('exc', m != 0, tag='scalar-values-refused')
        S.oblige('post', log['validated'] == 1, tag='leaf-validation-run-once')
        got = o.fields.get('axis_destination')
        ok = isinstance(got, tuple) or (isinstance(got, SSeq) and got.kind == 'tuple')
        S.oblige('post', bool(ok), tag='axes-stored-as-tuple')
        if ok:
            g = B.as_seq(S.I, got)
            S.oblige('post', z_eq(g.length, elen), tag='axes-count')
            S.oblige('post', g.forall(lambda k, e: to_z3(e) == expect(to_z3(k))), tag='axes-expansion')
        S.oblige('post', z_and(o.fields.get('_diagonal') is values, o.fields.get('_in_structure') is ins),
                 tag='values-and-structure-stored')
        S.oblige('post', all(k in log.get('fields_at_validation', {}) for k in ('_diagonal', 'axis_destination', '_in_structure')),
                 tag='fields-assigned-before-validation')
    ck.explore(f'{BC}.__init__', init, T)

    # ------------------------------------------------------------------ _normalize_axes
    def normalize_axes(S):
        S.oracle = {'name': 'axes'}
        ax = S.seq('axes')
        shape = S.seq('leaf_shape')
        r = to_z3(shape.length)
        o = S.new('BroadcastDiagonalOperator', axis_destination=ax)
        out = S.call(S.I.getattr(o, '_normalize_axes'), [shape])
        i, j = fresh_int('i'), fresh_int('j')
        n = to_z3(ax.length)
        dup = z3.Exists([i, j], z3.And(0 <= i, i < j, j < n, norm(ax.arr[i], r) == norm(ax.arr[j], r)))
        if out.raised('ValueError'):
            S.oblige('exc', dup, tag='ValueError-only-when-two-normalised-axes-coincide')
        elif out.normal:
            S.oblige('exc', z3.Not(dup), tag='accepts-only-pairwise-distinct-normalised-axes')
            g = B.as_seq(S.I, out.value)
            S.oblige('post', z_eq(g.length, ax.length), tag='same-count')
            S.oblige('post', g.forall(lambda k, e: to_z3(e) == norm(ax.arr[to_z3(k)], r)), tag='negative-axes-count-from-the-end')
        else:
            S.oblige('exc', False, tag=f'undeclared-{out.value.name}')
    ck.explore(f'{BC}._normalize_axes', normalize_axes, T)

    # ------------------------------------------------------------------ _reshape_diagonal
    def reshape_diagonal(S):
        S.oracle = {'name': 'axes'}
        values, vshape = warr(S, 'values')
        m = to_z3(vshape.length)
        axes = S.seq('axes')
        r = S.int('leaf_ndim')
        S.assume(z3.And(m >= 1, to_z3(axes.length) == m, r >= 0))
        o = S.new('BroadcastDiagonalOperator', _diagonal=values, axis_destination=axes)
        out = S.call(S.I.getattr(o, '_reshape_diagonal'), [axes, r])
        if not out.normal:
            S.oblige('exc', False, tag=f'no-exception-{out.value.name}')
            return
        res = out.value
        ok = isinstance(res, AR.WArr) and res.op[0] == 'moveaxis' and isinstance(res.op[1], AR.WArr) \
            and res.op[1].op[0] == 'reshape' and res.op[1].op[1] is values
        S.oblige('post', bool(ok), tag='moveaxis(values.reshape(..), .., ..)')
        if not ok:
            return
        _, reshaped, src, dst = res.op
        tgt = reshaped.op[2]
        L = to_z3(dst.get(0)) - to_z3(axes.get(0))                  # the shift actually applied
        R = to_z3(tgt.length) - L - r                               # the trailing count actually appended
        S.oblige('post', z_and(z_eq(src.length, m), src.forall(lambda k, e: to_z3(e) == to_z3(k))),
                 tag='source-axes-are-0..m-1')
        S.oblige('post', z_and(z_eq(dst.length, m), dst.forall(lambda k, e: to_z3(e) == to_z3(axes.get(k)) + L)),
                 tag='destination-axes-are-the-axes-shifted-by-one-constant')
        S.oblige('post', left_spec(axes, L), tag='shift-is-the-left-broadcast-count')
        pad = to_z3(tgt.length) - m
        S.oblige('post', z_and(pad >= 0, tgt.forall(lambda k, e: to_z3(e) == z3.If(to_z3(k) < m, to_z3(vshape.get(k)), 1))),
                 tag='reshape-target-is-values.shape-then-unit-dims')
        # when the broadcast rank L + r + R can hold the m value axes, the target has exactly that rank
        Rs = z3.Int('R_spec')
        S.assume(right_spec(axes, r, Rs))
        S.oblige('post', z3.Implies(L + Rs + r >= m, R == Rs), tag='target-rank-is-L+r+R')
        S.oblige('post', z3.Implies(L + Rs + r < m, pad == 0), tag='no-padding-when-values-rank-exceeds-broadcast-rank')
    ck.explore(f'{BC}._reshape_diagonal', reshape_diagonal, T)

    # ------------------------------------------------------------------ _reshape_input_leaf
    def reshape_input_leaf(S):
        S.oracle = {'name': 'axes'}
        leaf, xshape = warr(S, 'leaf')
        r = to_z3(xshape.length)
        axes = S.seq('axes')
        S.assume(to_z3(axes.length) >= 1)
        o = S.new('BroadcastDiagonalOperator', axis_destination=axes)
        out = S.call(S.I.getattr(o, '_reshape_input_leaf'), [axes, leaf])
        if not out.normal:
            S.oblige('exc', False, tag=f'no-exception-{out.value.name}')
            return
        res = out.value
        ok = isinstance(res, AR.WArr) and res.op[0] == 'reshape' and res.op[1] is leaf
        S.oblige('post', bool(ok), tag='leaf.reshape(..)')
        if not ok:
            return
        tgt = res.op[2]
        R = to_z3(tgt.length) - r
        S.oblige('post', right_spec(axes, r, R), tag='appended-count-is-the-right-broadcast-count')
        S.oblige('post', tgt.forall(lambda k, e: to_z3(e) == z3.If(to_z3(k) < r, to_z3(xshape.get(k)), 1)),
                 tag='reshape-target-is-leaf.shape-then-unit-dims')
    ck.explore(f'{BC}._reshape_input_leaf', reshape_input_leaf, T)

    # ------------------------------------------------------------------ _check_leaf_shapes (both classes)
    def check_leaf_shapes(S):
        S.oracle = {'name': 'strict'}
        strict = S.choose(2) == 1
        S.inputs['class'] = 'DiagonalOperator' if strict else 'BroadcastDiagonalOperator'
        d, x, inp = S.seq('diagonal_shape'), S.seq('leaf_shape'), S.seq('input_shape')
        n1, n2 = to_z3(d.length), to_z3(x.length)
        o = S.new('DiagonalOperator' if strict else 'BroadcastDiagonalOperator')
        out = S.call(S.I.getattr(o, '_check_leaf_shapes'), [d, x, inp])
        k = fresh_int('k')
        # NumPy's rule, right-aligned: dimension k from the end of both shapes
        dk, xk = d.arr[n1 - 1 - k], x.arr[n2 - 1 - k]
        compatible = z3.ForAll([k], z3.Implies(z3.And(0 <= k, k < n1, k < n2), z3.Or(dk == xk, dk == 1, xk == 1)))
        N = z3.If(n1 >= n2, n1, n2)

        def bdim(kk):       # broadcast dimension kk from the end
            a = z3.If(kk < n1, d.arr[n1 - 1 - kk], 1)
            b = z3.If(kk < n2, x.arr[n2 - 1 - kk], 1)
            return z3.If(a == 1, b, a)
        unchanged = z3.And(to_z3(inp.length) == N,
                           z3.ForAll([k], z3.Implies(z3.And(0 <= k, k < N), inp.arr[N - 1 - k] == bdim(k))))
        if out.raised('ValueError'):
            S.oblige('exc', z3.Not(z3.And(compatible, unchanged)) if strict else z3.Not(compatible),
                     tag='ValueError-only-if-not-broadcastable' + ('-or-shape-changed' if strict else ''))
        elif out.normal:
            S.oblige('exc', compatible, tag='accepts-only-broadcastable-shapes')
            if strict:
                S.oblige('exc', unchanged, tag='accepts-only-if-the-broadcast-shape-is-the-input-shape')
        else:
            S.oblige('exc', False, tag=f'undeclared-{out.value.name}')
    ck.explore(f'{DO}._check_leaf_shapes', check_leaf_shapes, T)

    # ------------------------------------------------------------------ _reshape_leaves + mv (wiring, any pytree)
    def mv_wiring(S):
        S.oracle = {'name': 'mv'}
        tree = S.choose(2) == 1
        log = []

        def rec(name, result):
            def c(interp, fi, args, kwargs):
                v = result(args) if callable(result) else result
                log.append((name, args[1:], v))
                return v
            return c
        axes_n = SSeq.fresh('normalized')
        rd, rd_shape = AR.WArr.opaque(('reshaped_diagonal',), 'rd')
        rl, rl_shape = AR.WArr.opaque(('reshaped_leaf',), 'rl')
        S.I.contracts = {f'{BC}._normalize_axes': rec('normalize', axes_n), f'{BC}._reshape_diagonal': rec('rd', rd),
                         f'{BC}._reshape_input_leaf': rec('rl', rl), f'{BC}._check_leaf_shapes': rec('check', None)}
        o = S.new('BroadcastDiagonalOperator')
        if tree:
            xs = S.seq('x_leaves', kind='list', sort=z3.IntSort(), wrap=generic_leaf)
            S.inputs.pop('x_leaves', None)
            x = ST.StructV(xs)
            out = S.call(S.I.getattr(o, 'mv'), [x])
            S.oblige('post', out.normal and isinstance(out.value, ST.StructV) and out.value.treedef is x.treedef
                     and z_eq(out.value.leaves.length, xs.length), tag='mv-maps-over-the-leaves-keeping-the-tree')
            if not (out.normal and isinstance(out.value, ST.StructV)):
                return
            k = fresh_int('k')
            S.assume(z3.And(0 <= k, k < to_z3(xs.length)))
            leaf_marker = to_z3(xs.arr[k])
            S.I.depth += 1
            try:
                res = out.value.leaves.get(k)                # runs the leaf function on the generic leaf k
            except PyRaise as e:
                S.oblige('exc', False, tag=f'no-exception-in-the-leaf-function-{e.exc.name}')
                return
            finally:
                S.I.depth -= 1
            leaf_ok = lambda v: isinstance(v, AR.WArr) and v.op[0] == 'leaf' and z3.eq(z3.simplify(v.op[1]), z3.simplify(leaf_marker))
        else:
            leaf, _ = warr(S, 'leaf')
            out = S.call(S.I.getattr(o, 'mv'), [leaf])
            if not out.normal:
                S.oblige('exc', False, tag=f'no-exception-{out.value.name}')
                return
            res = out.value
            leaf_ok = lambda v: v is leaf
        S.oblige('post', isinstance(res, AR.WArr) and res.op[0] == 'mul' and res.op[1] is rd and res.op[2] is rl,
                 tag='leaf-result-is-reshaped_diagonal*reshaped_leaf')
        names = [n for n, _, _ in log]
        S.oblige('post', names == ['normalize', 'rd', 'rl', 'check'], tag='helpers-called-once-each-in-order')
        if names != ['normalize', 'rd', 'rl', 'check']:
            return
        (_, a0, _), (_, a1, _), (_, a2, _), (_, a3, _) = log
        lf = a2[1]
        S.oblige('post', leaf_ok(lf), tag='the-leaf-itself-is-reshaped')
        S.oblige('post', a0[0] is lf.shape, tag='axes-normalised-against-the-leaf-shape')
        S.oblige('post', a1[0] is axes_n and z_eq(a1[1], lf.shape.length), tag='diagonal-reshaped-with-normalised-axes-and-leaf-rank')
        S.oblige('post', a2[0] is axes_n, tag='leaf-reshaped-with-normalised-axes')
        S.oblige('post', a3[0] is rd.shape and a3[1] is rl.shape and a3[2] is lf.shape,
                 tag='shape-check-gets-(reshaped-diagonal, reshaped-leaf, leaf)-shapes')
    ck.explore(f'{BC}.mv', mv_wiring, T)

    # ------------------------------------------------------------------ DiagonalOperator.as_matrix (wiring)
    def as_matrix(S):
        S.oracle = {'name': 'as_matrix'}
        log = []
        dt = z3.Const('promoted_dtype', ST.DType)
        xs = S.seq('in_leaves', kind='list', sort=z3.IntSort(), wrap=generic_leaf)
        S.inputs.pop('in_leaves', None)
        ins = ST.StructV(xs)

        def na(interp, fi, args, kwargs):
            r = SSeq.fresh('normalized')
            r.from_shape = args[1]
            return r

        def rdg(interp, fi, args, kwargs):
            r, _ = AR.WArr.opaque(('reshaped_diagonal', args[1], args[2]), 'rd')
            return r
        S.I.contracts = {f'{BC}._normalize_axes': na, f'{BC}._reshape_diagonal': rdg,
                         'furax._base.core.AbstractLinearOperator.out_promoted_dtype': lambda *a: dt}
        values, _ = warr(S, 'values')
        o = S.new('DiagonalOperator', _in_structure=ins, _diagonal=values, axis_destination=S.seq('axes'))
        out = S.call(S.I.getattr(o, 'as_matrix'), [])
        if not out.normal:
            S.oblige('exc', False, tag=f'no-exception-{out.value.name}')
            return
        m = out.value
        ok = isinstance(m, AR.WArr) and m.op[0] == 'diag' and isinstance(m.op[1], AR.WArr) and m.op[1].op[0] == 'concatenate'
        S.oblige('post', bool(ok), tag='diag(concatenate(..))', shape=True)
        if not ok:
            return
        _, parts, dtype = m.op[1].op
        S.oblige('post', dtype is dt, tag='concatenated-with-the-promoted-output-dtype')
        S.oblige('post', z_eq(parts.length, xs.length), tag='one-block-of-diagonal-values-per-input-leaf')
        k = fresh_int('k')
        S.assume(z3.And(0 <= k, k < to_z3(xs.length)))
        S.I.depth += 1           # the comprehension body is evaluated lazily: keep callee contracts in force
        try:
            part = parts.get(k)
        except PyRaise as e:
            S.oblige('exc', False, tag=f'no-exception-in-the-per-leaf-block-{e.exc.name}')
            return
        finally:
            S.I.depth -= 1
        leaf = xs.get(k)
        ok = isinstance(part, AR.WArr) and part.op[0] == 'ravel' and part.op[1].op[0] == 'broadcast_to'
        S.oblige('post', bool(ok), tag='each-block-is-broadcast_to(..).ravel()', shape=True)
        if not ok:
            return
        _, rd, shp = part.op[1].op
        same_leaf_shape = lambda s: z_and(z_eq(s.length, leaf.shape.length), s.forall(lambda i, e: z_eq(e, leaf.shape.get(i))))
        S.oblige('post', same_leaf_shape(shp), tag='broadcast-to-the-leaf-shape')
        ok = isinstance(rd, AR.WArr) and rd.op[0] == 'reshaped_diagonal'
        S.oblige('post', bool(ok), tag='of-the-reshaped-diagonal', shape=True)
        if ok:
            S.oblige('post', z_and(same_leaf_shape(rd.op[1].from_shape), z_eq(rd.op[2], leaf.shape.length)),
                     tag='reshaped-for-this-leaf-(normalised-axes-of-its-shape, its-rank)')
    ck.explore(f'{DO}.as_matrix', as_matrix, T)

    # ------------------------------------------------------------------ DiagonalInverseOperator.diagonal (point)
    def inverse_diagonal(S):
        S.oracle = {'name': 'inverse'}
        d = S.real('d')
        o = S.new('DiagonalInverseOperator', _diagonal=AR.PArr(d))
        try_ = S.call(S.func(f'{DG}.DiagonalInverseOperator.diagonal'), [o])
        if not try_.normal:
            S.oblige('exc', False, tag=f'no-exception-{try_.value.name}')
            return
        v = try_.value
        ok = isinstance(v, AR.PArr)
        S.oblige('post', bool(ok), tag='element-wise-result')
        if not ok:
            return
        v = v.term
        S.oblige('post', d * v * d == d, tag='d*v*d==d')
        S.oblige('post', v * d * v == v, tag='v*d*v==v')
        S.oblige('post', z3.Implies(d == 0, v == 0), tag='zero-entries-map-to-zero')
        S.oblige('post', z3.Implies(d != 0, v * d == 1), tag='non-zero-entries-are-inverted')
    ck.explore(f'{DG}.DiagonalInverseOperator.diagonal', inverse_diagonal, T)

    build_bounded(ck, T)


# ====================================================================== bounded element-level part
def cases(tier):
    rmax, mmax = (3, 2) if tier == 'quick' else (4, 3)
    out = []
    for r in range(1, rmax + 1):
        for m in range(1, mmax + 1):
            lo, hi = -r - 1, r + 1            # one position beyond the leaf on either side
            for ax in itertools.permutations(range(lo, hi), m):
                out.append((r, m, ax, 'tuple'))
            for a in range(lo, hi):
                out.append((r, m, a, 'int'))
    return out


def spec_axes(spec, m, form):
    if form == 'int':
        return tuple(range(spec, spec + m)) if spec >= 0 else tuple(range(spec - m + 1, spec + 1))
    return tuple(spec)


def build_bounded(ck, T):
    P = ck.P
    cs = cases(ck.tier)
    stats = {'cases': 0, 'refused': 0}

    for r, m, spec, form in cs:
        for strict in (False, True):
            label = f"{'D' if strict else 'B'}-r{r}-m{m}-{form}{spec}".replace(' ', '')

            def elem(S, r=r, m=m, spec=spec, form=form, strict=strict):
                S.oracle = {'name': 'mv'}
                S.inputs.update({'leaf_rank': r, 'values_rank': m, 'axis_destination': list(spec) if form == 'tuple' else spec,
                                 'strict': strict})
                # the witness handed to the native oracle is the case itself (ranks, axes, class); the oracle draws the
                # dimension sizes (so all obligations of one case share one native replay)
                values = AR.EArr.fresh('values', m)
                x = AR.EArr.fresh('x', r)
                S.assume(z_and(*[d >= 1 for d in values.dims + x.dims]))
                o = Obj(P.cls('DiagonalOperator' if strict else 'BroadcastDiagonalOperator'))
                o.fields.update(_diagonal=values, axis_destination=spec_axes(spec, m, form), _in_structure=x)
                out = S.call(S.I.getattr(o, 'mv'), [x])
                # ---- independent specification
                a = spec_axes(spec, m, form)
                na = [ak if ak >= 0 else r + ak for ak in a]
                dup = len(set(na)) != len(na)
                L = -min(0, min(na))
                R = max(0, max(na) - r + 1)
                N = L + r + R
                Dg = [1] * N
                for kk, ak in enumerate(na):
                    if not dup:
                        Dg[ak + L] = values.dims[kk]
                X = [1] * L + list(x.dims) + [1] * R
                compat = z_and(*[z_or(z_eq(p, q), z_eq(p, 1), z_eq(q, 1)) for p, q in zip(Dg, X)])
                oshape = [z_ite(z_eq(p, 1), q, p) for p, q in zip(Dg, X)]
                unchanged = z_and(*[z_eq(p, q) for p, q in zip(oshape, x.dims)]) if N == r else False
                legal = z_and(compat, unchanged) if strict else compat
                if out.raised('ValueError'):
                    S.oblige('bounded', True if dup else z_not(legal), tag='ValueError-only-for-duplicate-axes-or-illegal-shapes')
                    return
                if not out.normal:
                    S.oblige('bounded', False, tag=f'undeclared-{out.value.name}')
                    return
                y = out.value
                S.oblige('bounded', (not dup) and isinstance(y, AR.EArr) and len(y.dims) == N, tag='accepted-only-without-duplicates;rank-L+r+R')
                if dup or not isinstance(y, AR.EArr) or len(y.dims) != N:
                    return
                S.oblige('bounded', legal, tag='accepted-only-for-legal-shapes')
                S.oblige('bounded', z_and(*[z_eq(p, q) for p, q in zip(y.dims, oshape)]), tag='output-shape-is-the-broadcast-shape')
                p = [z3.Int(f'p{i}') for i in range(N)]
                S.assume(z_and(*[z3.And(0 <= pi, pi < to_z3(di)) for pi, di in zip(p, oshape)]))
                vidx = [z_ite(z_eq(values.dims[kk], 1), 0, p[ak + L]) for kk, ak in enumerate(na)]
                xidx = [z_ite(z_eq(x.dims[i], 1), 0, p[L + i]) for i in range(r)]
                S.oblige('bounded', to_real(y.elem(p)) == to_real(values.elem(vidx)) * to_real(x.elem(xidx)),
                         tag='mv(x)[p]==values[p_(a_k+L)]*x~[p]')
            res = ck.explore(f'{BC}.mv', elem, T, label=label)
            stats['cases'] += 1
    ck.bounded.append({'what': 'element-level statement mv(x)[p] = values[p_{a_k+L}] * x~[p], output shape, refusal '
                               'conditions, per concrete (leaf rank, values rank, axis_destination), symbolic sizes',
                       'bound': {'leaf_rank_max': max(c[0] for c in cs), 'values_rank_max': max(c[1] for c in cs),
                                 'axes': 'every int form and every tuple of distinct entries with each axis in [-r-1, r]',
                                 'classes': ['BroadcastDiagonalOperator', 'DiagonalOperator']},
                       'cases': stats['cases'], 'obligation_kind': 'bounded'})

"""C08 — algebraic tags are truthful.

The effective tag table (operator class x lineax tag) is COMPUTED by executing the registration code of the source
with pyvc's interpreter on the class table, in import order: for every class deriving from lineax's
AbstractLinearOperator, first `AbstractLinearOperator.__init_subclass__` (-> the real `_monkey_patch_operator` /
`_already_registered`, run at class creation), then the class decorators bottom-up (real bodies of diagonal / symmetric /
square / orthogonal / ...), plus the module-level `_monkey_patch_lineax_operator(lx.ComposedLinearOperator)`.
functools.singledispatch is a theory object (theories/dispatch.py).

Obligations
  (i)   table: the implementation each (class, tag) query resolves to answers (no NotImplementedError) and answers
        True only for the pairs the property allows (ALLOWED below: the classes for which (iii) proves the matrix
        property); a class inheriting True from a tagged base where the property is not proved is a failure.
  (i')  wrappers: the closed-world table is not enough — the public decorators lower_triangular / upper_triangular /
        positive_semidefinite / ... exist so that USERS declare tagged classes, and A.T / A.I of such an operator is a
        furax wrapper object.  Every class holding operator fields is therefore queried on an instance wrapping a
        synthetic operand whose seven tag values are free Booleans (lx.is_*(operand) = those Booleans); a tag answered
        True for the wrapper must be implied by matrix facts of the operand: for a lazy transpose
        lower(A.T) => upper(A), upper(A.T) => lower(A), diagonal / tridiagonal / symmetric / PSD / NSD(A.T) => the
        same tag of A; for a lazy inverse diagonal / symmetric / PSD / NSD / lower / upper(A.I) => the same tag of A
        (the inverse of a lower triangular matrix is lower triangular), tridiagonal(A.I) never (not preserved by
        inversion); any other class may not make its answer depend on its operands.
  (ii)  wiring: symmetric => `.T` returns the operator itself; orthogonal (furax's decorator) => the class's `inverse`
        IS its `transpose` (same function object) and `.I` gives what `.T` gives; square => `out_structure` IS
        `in_structure`.  Checked for every class that has a decorated class in its MRO.
  (iii) truthfulness, facet point (one generic element per array; element-wise code only): diagonal — component c of
        the output at position p is a function of component c of the input at p alone (real mv of IdentityOperator,
        HomothetyOperator, HWPOperator; DiagonalOperator / DiagonalInverseOperator: C11's element statement);
        orthogonal — M^T M = I = M M^T from cos^2 + sin^2 = 1 with the real mv of QURotationOperator and of the class
        its transpose() returns; IdentityOperator; symmetric Toeplitz: C09's T[i,j] = band[|i-j|].
"""
from __future__ import annotations

import ast

import z3

from pyvc import builtins_model as B
from pyvc.interp import Frame
from pyvc.theory import Theory
from pyvc.values import BoundMethod, ClassRef, FuncRef, Obj, PyFunc, PyRaise, Unsupported, z_eq
from theories import dispatch as DP
from theories import pytree as PT

CORE = 'furax._base.core'
LS = 'furax.landscapes'
DECORATORS = ('diagonal', 'lower_triangular', 'upper_triangular', 'symmetric', 'positive_semidefinite',
              'negative_semidefinite', 'square', 'orthogonal')

# from the property's point of view: the (class, tag) pairs that may answer True — exactly those for which part
# (iii) (or the referenced property) establishes the matrix property for all parameter values
ALLOWED = {
    'IdentityOperator': {'is_diagonal', 'is_symmetric'},
    'HomothetyOperator': {'is_diagonal', 'is_symmetric'},
    'DiagonalOperator': {'is_diagonal', 'is_symmetric'},
    'DiagonalInverseOperator': {'is_diagonal', 'is_symmetric'},
    'HWPOperator': {'is_diagonal', 'is_symmetric'},
    'SymmetricBandToeplitzOperator': {'is_symmetric'},
}
# classes that may be declared orthogonal / square (furax's own decorators), for the same reason
ORTHOGONAL_OK = {'IdentityOperator', 'QURotationOperator', 'AbstractLazyInverseOrthogonalOperator',
                 'QURotationTransposeOperator'}
SQUARE_OK = set(ALLOWED) | ORTHOGONAL_OK | {'ToastObservationMatrixOperator'}


def theory():
    T = Theory()
    PT.install(T)
    DP.install(T)
    T.ext_issubclass = lambda interp, a, b: a.path == b.path
    for p in ('jax_dataclasses.pytree_dataclass', 'jax.tree_util.register_pytree_node_class'):
        T.externals[p] = lambda interp, c, **k: c
    T.externals['dataclasses.dataclass'] = lambda interp, *a, **k: a[0] if a else PyFunc(lambda interp, c: c, 'dataclass()')
    cos = z3.Function('cos', z3.RealSort(), z3.RealSort())
    sin = z3.Function('sin', z3.RealSort(), z3.RealSort())
    T.externals['jax.numpy.cos'] = lambda interp, v: cos(B.to_real(v))
    T.externals['jax.numpy.sin'] = lambda interp, v: sin(B.to_real(v))
    T.trig = (cos, sin)
    # functional spellings of the arithmetic operators on generic elements (reals)
    for name, fn in (('add', lambda a, b: a + b), ('subtract', lambda a, b: a - b), ('multiply', lambda a, b: a * b),
                     ('divide', lambda a, b: a / b), ('true_divide', lambda a, b: a / b)):
        T.externals[f'jax.numpy.{name}'] = (lambda fn: lambda interp, a, b: fn(B.to_real(a), B.to_real(b)))(fn)
    T.externals['jax.numpy.negative'] = lambda interp, a: -B.to_real(a)
    T.externals['jax.numpy.square'] = lambda interp, a: B.to_real(a) * B.to_real(a)
    # floats as reals: `.astype(<dtype of a Stokes component>)` of an element is that element (rounding not modelled)
    def number_attr(interp, v, name):
        if name == 'astype':
            return PyFunc(lambda interp, *a, **k: v, 'astype')
        if name == 'dtype':
            from pyvc.values import Ext as _Ext
            return _Ext('element.dtype')
        return None
    T.number_attr = number_attr
    T.sort_attr['Real'] = lambda interp, v, name: number_attr(interp, v, name)
    return T


# ---------------------------------------------------------------------------------------- import order
def import_order(P):
    """events ('class', ClassInfo) / ('call', ModuleInfo, ast.Call) in the order Python executes them when `furax` and
    then every other module of the package is imported"""
    events, seen = [], set()

    def load(name):
        parts = name.split('.')
        for i in range(1, len(parts) + 1):
            load_one('.'.join(parts[:i]))

    def load_one(name):
        if name in seen or name not in P.modules:
            return
        seen.add(name)
        m = P.modules[name]

        def stmts(body):
            for s in body:
                if isinstance(s, ast.Import):
                    for a in s.names:
                        load(a.name)
                elif isinstance(s, ast.ImportFrom):
                    base = P._abs_module(m, s.level, s.module)
                    load(base)
                    for a in s.names:
                        load(f'{base}.{a.name}')
                elif isinstance(s, ast.If):
                    stmts(s.body)
                    stmts(s.orelse)
                elif isinstance(s, ast.ClassDef):
                    events.append(('class', m.classes[s.name]))
                elif isinstance(s, ast.Expr) and isinstance(s.value, ast.Call):
                    events.append(('call', m, s.value))
                elif isinstance(s, ast.FunctionDef) and s.decorator_list:
                    events.append(('funcdef', m, s))   # e.g. `@lx.is_symmetric.register(Cls)` on a module-level function
                elif isinstance(s, (ast.For, ast.While, ast.With, ast.Try, ast.AugAssign, ast.Delete)):
                    events.append(('stmt', m, s))      # e.g. `for tag in TAGS: tag.register(Cls)(...)` at module level
        stmts(m.tree.body)
    load('furax')
    for n in sorted(P.modules):
        load(n)
    return events


def is_operator_class(ci):
    return ci.has_ext_base('lineax.AbstractLinearOperator')


def run_registration(S):
    """execute the registration code; returns (ordered operator classes, declared: decorator name -> [class names])"""
    P, I = S.ck.P, S.I
    for c in P.classes.values():
        c.patched.clear()
    declared = I.run.ghost.setdefault('declared', {})
    classes = []
    problems = []
    for ev in import_order(P):
        if ev[0] == 'call':
            _, m, call = ev
            if any(is_operator_class(c) for c in m.classes.values()):
                I.ev(call, Frame(m))
            continue
        if ev[0] == 'funcdef':
            _, m, node = ev
            # a decorated module-level function: only registrations on lineax's tag functions matter here
            if any(is_operator_class(c) for c in m.classes.values()) and \
                    any('.register(' in ast.unparse(d) for d in node.decorator_list):
                from pyvc.source import FuncInfo
                fi = FuncInfo(m.name, node.name, node, None, 'function', list(node.decorator_list))
                v = I.funcref(fi, None)
                for d in reversed(node.decorator_list):
                    v = I.call(I.ev(d, Frame(m)), [v], {})
            continue
        if ev[0] == 'stmt':
            _, m, stmt = ev
            if any(is_operator_class(c) for c in m.classes.values()):
                I.exec_stmt(stmt, I.run.ghost.setdefault('module_frames', {}).setdefault(m.name, Frame(m)))
            continue
        ci = ev[1]
        if not is_operator_class(ci):
            continue
        classes.append(ci)
        m = P.modules[ci.module]
        # 1. class creation: type.__new__ calls super(cls, cls).__init_subclass__()
        for base in ci.mro[1:]:
            if '__init_subclass__' in base.methods:
                kw = {k.arg: I.ev(k.value, Frame(m)) for k in ci.node.keywords if k.arg and k.arg != 'metaclass'}
                I.call_funcinfo(base.methods['__init_subclass__'], [ClassRef(ci)], kw, defcls=base)
                break
        # 2. then the decorators, bottom-up
        for d in reversed(ci.decorators):
            dv = I.ev(d, Frame(m))
            r = I.call(dv, [ClassRef(ci)], {})
            if not (isinstance(r, ClassRef) and r.info is ci):
                problems.append(f'decorator {ast.unparse(d)} of {ci.name} does not return the class')
    return classes, declared, problems


def decorator_hook(interp, fi, args, kwargs):
    if fi.cls is None and fi.module == CORE and fi.name in DECORATORS and args and isinstance(args[0], ClassRef):
        interp.run.ghost.setdefault('declared', {}).setdefault(fi.name, []).append(args[0].info.name)
    return None


def same_function(a, b):
    if isinstance(a, BoundMethod):
        a = a.func
    if isinstance(b, BoundMethod):
        b = b.func
    if a is b:
        return True
    return isinstance(a, FuncRef) and isinstance(b, FuncRef) and a.info.node is b.info.node


def resolved(ci, name):
    lk = ci.lookup(name)
    if lk is None:
        return None
    owner, kind, payload = lk
    if kind == 'method':
        return FuncRef(payload, None)
    if kind == 'patched':
        return payload
    if isinstance(payload, ast.Name) and payload.id in owner.methods:
        return FuncRef(owner.methods[payload.id], None)
    return payload


TRANSPOSE_RULE = {'is_lower_triangular': 'is_upper_triangular', 'is_upper_triangular': 'is_lower_triangular'}
INVERSE_PRESERVED = {'is_diagonal', 'is_symmetric', 'is_positive_semidefinite', 'is_negative_semidefinite',
                     'is_lower_triangular', 'is_upper_triangular'}


def user_operand(S, name):
    """an operand of a user-declared class: its seven tag values are free Booleans"""
    from theories import synth
    P = S.ck.P
    ghost = S.I.run.ghost
    if 'UserOperator' not in ghost:
        ghost['UserOperator'] = synth.concrete_subclass(P, P.cls(f'{CORE}.AbstractLinearOperator'), 'UserOperator',
                                                       extra_methods=('mv', 'in_structure'))
        fns = DP.functions(S.I)
        for tag in DP.TAGS:
            fns[tag].registry[ClassRef(ghost['UserOperator'])] = PyFunc(
                (lambda tag: lambda interp, op: op.fields['_tags'][tag])(tag), f'{tag}[UserOperator]')
    o = Obj(ghost['UserOperator'], tag=name)
    o.fields['_tags'] = {tag: z3.Bool(f'{name}_{tag}') for tag in DP.TAGS}
    for tag, b in o.fields['_tags'].items():
        S.inputs[f'{name}_{tag}'] = b
    return o


def wrapping_instance(S, ci, operator_names):
    """an instance of ci whose operator-valued fields hold synthetic user operands; (instance, [operands])"""
    import re
    inst, operands = Obj(ci), []
    for f in ci.all_fields():
        words = set(re.findall(r'[A-Za-z_][A-Za-z_0-9]*', f.annotation))
        if not (words & operator_names):
            continue
        if 'list' in words or 'PyTree' in words:
            ops = [user_operand(S, f'{f.name}0'), user_operand(S, f'{f.name}1')]
            inst.fields[f.name] = B.PyList(ops)
            operands += ops
        else:
            op = user_operand(S, 'A')
            inst.fields[f.name] = op
            operands.append(op)
    return inst, operands


def build(ck):
    T = theory()
    P = ck.P
    ck.assume_note('C08: InverseOperator.mv wraps its operand in lineax.TaggedLinearOperator(..., positive_semidefinite_tag) '
                   'so that the default CG accepts it: that is the caller\'s SPD precondition of C06, not a class-level '
                   'declaration; it is not checked here')
    ck.assume_note('C08: the tag table does not depend on the import order beyond "bases before subclasses" '
                   '(_already_registered only consults base classes); the order used is furax/__init__ first, then the '
                   'remaining modules alphabetically')
    ck.trust('ref:C11 element statement of DiagonalOperator / DiagonalInverseOperator (output element = coefficient x the same input element)',
             'ref:C09 dense form of SymmetricBandToeplitzOperator: T[i,j] = band[|i-j|] (symmetric)',
             'lemma:LA7 cos^2 + sin^2 = 1', 'lemma:a diagonal matrix is symmetric',
             'ref:C04 linearity of mv (a linear map is given by its values on unit inputs)')

    # conformance of the assumed lineax registry contents (bounded, not proof): a mismatch is a checker failure
    from pyvc.harness import run_native
    res = run_native('C08', {'name': 'lineax_registry'})
    ck.native_checks.append({'conformance': 'lineax tag registries', 'result': res['status']})
    if res['status'] != 'holds':
        ck.errors.append('ASSUMPTION-MISMATCH theories/dispatch.py vs installed lineax: ' + res.get('output', '')[-300:])

    # ------------------------------------------------------------------ (i) the tag table
    table_rows = []

    def tag_table(S):
        S.oracle = {'name': 'tags'}
        classes, declared, problems = run_registration(S)
        S.oblige('post', not problems, tag='every-class-decorator-returns-the-class', note='; '.join(problems))
        fns = DP.functions(S.I)
        del table_rows[:]
        root = P.cls(f'{CORE}.AbstractLinearOperator')
        for ci in classes:
            if ci is root:
                # the abstract root itself (mv is abstract: no instance exists); every other class is a subclass
                S.oblige('post', P.is_abstract(ci), tag='AbstractLinearOperator-is-abstract (no instance to query)')
                continue
            inst, operands = wrapping_instance(S, ci, {c.name for c in classes})
            A = operands[0] if len(operands) == 1 else None
            family = 'transpose' if any(k.name == 'TransposeOperator' for k in ci.mro) else \
                'inverse' if any(k.name == 'AbstractLazyInverseOperator' for k in ci.mro) else 'other'
            row = {'class': ci.name}
            for tag in DP.TAGS:
                key, impl = fns[tag].dispatch(S.I, ClassRef(ci))
                where = key.info.name if isinstance(key, ClassRef) else key.path
                allowed = tag in ALLOWED.get(ci.name, ())
                orc = {'name': 'tags', 'cls': ci.name}
                try:
                    v = S.I.call(impl, [inst], {})
                except PyRaise as e:
                    S.oblige('post', False, tag=f'{ci.name}.{tag}-query-is-answered', oracle=orc,
                             note=f'resolves to the implementation registered for {where}, which raises {e.exc.name}')
                    row[tag] = f'raises {e.exc.name} (via {where})'
                    continue
                if isinstance(v, z3.BoolRef):
                    # (i') the answer depends on the operand(s): it must be implied by the operand's matrix facts
                    worc = {'name': 'user_tagged', 'wrapper': ci.name, 'tag': tag}
                    row[tag] = f'depends on the operand: {v} (via {where})'
                    if family == 'transpose' and A is not None:
                        need = A.fields['_tags'][TRANSPOSE_RULE.get(tag, tag)]
                        S.oblige('post', z3.Implies(v, need), oracle=worc,
                                 tag=f'{ci.name}.{tag}(A.T)-implies-{TRANSPOSE_RULE.get(tag, tag)}(A)')
                    elif family == 'inverse' and A is not None and tag in INVERSE_PRESERVED:
                        S.oblige('post', z3.Implies(v, A.fields['_tags'][tag]), oracle=worc,
                                 tag=f'{ci.name}.{tag}(A.I)-implies-{tag}(A)')
                    else:
                        S.oblige('post', z3.Not(v), oracle=worc,
                                 tag=f'{ci.name}.{tag}-does-not-follow-from-the-tags-of-the-operands (must be False)')
                    continue
                S.oblige('post', isinstance(v, bool), tag=f'{ci.name}.{tag}-query-is-answered-by-a-bool', oracle=orc)
                row[tag] = f'{v} (via {where})'
                if family != 'other' and A is not None and v is False:
                    S.oblige('post', True, oracle={'name': 'user_tagged', 'wrapper': ci.name, 'tag': tag},
                             tag=f'{ci.name}.{tag}-of-a-wrapped-user-operand-is-False-whatever-the-operand-declares')
                if allowed:
                    S.oblige('post', True, tag=f'{ci.name}.{tag}-{v}-allowed: matrix property proved in (iii) / referenced',
                             oracle=orc)
                else:
                    S.oblige('post', v is False, tag=f'{ci.name}.{tag}-is-False (the property can fail for some parameters)',
                             oracle=orc, note=f'resolves to the implementation registered for {where}')
            table_rows.append(row)
        # furax's own decorators: only where (iii) covers the class
        for deco, ok in (('orthogonal', ORTHOGONAL_OK), ('square', SQUARE_OK)):
            for ci in classes:
                if any(k.name in declared.get(deco, ()) for k in ci.mro):
                    S.oblige('post', ci.name in ok, tag=f'{ci.name}-declared-{deco}-only-where-the-property-is-proved',
                             oracle={'name': 'tags', 'cls': ci.name})
    ck.explore(f'{CORE}._monkey_patch_operator', tag_table, T, label='tag-table', call_hook=decorator_hook)
    ck.samples.extend(table_rows)

    # ------------------------------------------------------------------ (ii) wiring
    def wiring(S):
        S.oracle = {'name': 'tags'}
        classes, declared, _ = run_registration(S)
        fns = DP.functions(S.I)

        def has(ci, deco):
            return any(k.name in declared.get(deco, ()) for k in ci.mro)
        for ci in classes:
            orc = {'name': 'tags', 'cls': ci.name}
            sym = False
            try:
                sym = S.I.call(fns['is_symmetric'].dispatch(S.I, ClassRef(ci))[1], [Obj(ci)], {}) is True
            except PyRaise:
                pass
            if sym or has(ci, 'symmetric'):
                o = Obj(ci)
                out = S.call(PyFunc(lambda interp, o=o: interp.getattr(o, 'T'), 'T'), [])
                S.oblige('post', out.normal and out.value is o, tag=f'{ci.name}-symmetric: A.T is A', oracle=orc)
            if has(ci, 'orthogonal'):
                S.oblige('post', same_function(resolved(ci, 'inverse'), resolved(ci, 'transpose')),
                         tag=f'{ci.name}-orthogonal: inverse is transpose (same function)', oracle=orc)
                if not P.is_abstract(ci):
                    o = Obj(ci)
                    if 'operator' in [f.name for f in ci.all_fields()]:
                        o.fields['operator'] = Obj(P.cls(f'{CORE}.IdentityOperator'))
                    t = S.call(PyFunc(lambda interp, o=o: interp.getattr(o, 'T'), 'T'), [])
                    i = S.call(PyFunc(lambda interp, o=o: interp.getattr(o, 'I'), 'I'), [])
                    same = t.normal and i.normal and (t.value is i.value or (
                        isinstance(t.value, Obj) and isinstance(i.value, Obj) and t.value.cls is i.value.cls
                        and set(t.value.fields) == set(i.value.fields)
                        and all(t.value.fields[k] is i.value.fields[k] for k in t.value.fields)))
                    S.oblige('post', bool(same), tag=f'{ci.name}-orthogonal: A.I is what A.T is', oracle=orc)
            if has(ci, 'square'):
                S.oblige('post', same_function(resolved(ci, 'out_structure'), resolved(ci, 'in_structure')),
                         tag=f'{ci.name}-square: out_structure is in_structure (same function)', oracle=orc)
        # the declarations found by executing the decorators (reported)
        S.ck.samples.append({'declared_by_decorators': {k: sorted(set(v)) for k, v in declared.items()}})
    ck.explore(f'{CORE}.symmetric', wiring, T, label='wiring', call_hook=decorator_hook)

    build_truth(ck, T)


# ====================================================================== (iii) truthfulness, facet point
STOKES = {'StokesIPyTree': ['i'], 'StokesQUPyTree': ['q', 'u'], 'StokesIQUPyTree': ['i', 'q', 'u'],
          'StokesIQUVPyTree': ['i', 'q', 'u', 'v']}


def stokes_obj(P, cls, values):
    o = Obj(P.cls(f'{LS}.{cls}'))
    for f in P.cls(f'{LS}.{cls}').all_fields():
        o.fields[f.name] = values[f.name]
    return o


def build_truth(ck, T):
    P = ck.P
    cos, sin = T.trig

    def leaves(interp, tree):
        return PT.flatten(interp, tree)[0]

    # ---- diagonal: output component c depends on input component c only
    def diagonal_of(clsname, make_op, inputs):
        def sc(S):
            S.oracle = {'name': 'tags', 'cls': clsname}
            op = make_op(S)
            k = S.choose(len(inputs))
            comps = inputs[k]
            S.inputs['input'] = '/'.join(comps) if isinstance(comps, list) else comps
            c = S.choose(len(comps))
            x = {n: z3.Real(f'x_{n}') for n in comps}
            y = {n: (x[n] if i == c else z3.Real(f'y_{n}')) for i, n in enumerate(comps)}   # agrees with x on component c only

            def tree(vals):
                if clsname == 'HWPOperator':
                    cls = [s for s, f in STOKES.items() if f == comps][0]
                    return stokes_obj(P, cls, vals)
                if len(comps) == 1:
                    return vals[comps[0]]
                return {n: vals[n] for n in comps}
            ox = S.call(S.I.getattr(op, 'mv'), [tree(x)])
            oy = S.call(S.I.getattr(op, 'mv'), [tree(y)])
            S.oblige('exc', ox.normal and oy.normal, tag='mv-returns')
            if not (ox.normal and oy.normal):
                return
            lx_, ly_ = leaves(S.I, ox.value), leaves(S.I, oy.value)
            S.oblige('post', len(lx_) == len(comps) and len(ly_) == len(comps), tag='one-output-component-per-input-component (square)')
            if len(lx_) != len(comps):
                return
            S.oblige('post', z_eq(lx_[c], ly_[c]),
                     tag=f'diagonal: output component {comps[c]} depends on input component {comps[c]} only (off-diagonal entries vanish)')
        ck.explore(f'{P.cls(clsname).fullname}.mv', sc, T, label='diagonal')
    tree_inputs = [['a'], ['a', 'b'], ['a', 'b', 'c']]
    diagonal_of('IdentityOperator', lambda S: S.new('IdentityOperator', _in_structure=None), tree_inputs)
    diagonal_of('HomothetyOperator', lambda S: S.new('HomothetyOperator', value=S.real('value'), _in_structure=None), tree_inputs)
    diagonal_of('HWPOperator', lambda S: S.new('HWPOperator', _in_structure=None), list(STOKES.values()))

    # ---- orthogonal: M^T M = I = M M^T, M^T being the matrix of the operator that transpose() returns
    def orthogonal_of(clsname, make_op):
        def sc(S):
            S.oracle = {'name': 'tags', 'cls': clsname}
            op = make_op(S)
            cls = list(STOKES)[S.choose(len(STOKES))]
            comps = STOKES[cls]
            S.inputs['stokes'] = cls
            tr = S.call(S.I.getattr(op, 'transpose'), [])
            S.oblige('exc', tr.normal, tag='transpose()-returns')
            if not tr.normal:
                return
            opT = tr.value

            def matrix(o):
                """columns = images of the unit inputs (mv is linear: C04)"""
                cols = []
                for j, _ in enumerate(comps):
                    e = stokes_obj(P, cls, {n: (1 if i == j else 0) for i, n in enumerate(comps)})
                    r = S.call(S.I.getattr(o, 'mv'), [e])
                    if not r.normal:
                        return None
                    cols.append([B.to_real(v) if not isinstance(v, (int,)) else z3.RealVal(v) for v in leaves(S.I, r.value)])
                return cols          # cols[j][i] = M[i][j]
            M, Mt = matrix(op), matrix(opT)
            ok = M is not None and Mt is not None and all(len(c) == len(comps) for c in M + Mt)
            S.oblige('post', ok, tag='mv-of-the-operator-and-of-its-transpose-return-one-component-per-input-component')
            if not ok:
                return
            # trusted lemma instances: cos^2 + sin^2 = 1 for every angle term met
            for a in trig_args(M + Mt, cos):
                S.assume(cos(a) * cos(a) + sin(a) * sin(a) == 1)
            n = len(comps)
            for i in range(n):
                for j in range(n):
                    S.oblige('post', Mt[j][i] == M[i][j], tag=f'the-transpose-class-has-the-transposed-matrix [{comps[i]},{comps[j]}]')
                    mtm = sum((Mt[k][i] * M[j][k] for k in range(n)), z3.RealVal(0))     # (Mt M)[i][j] = sum_k Mt[i,k] M[k,j]
                    mmt = sum((M[k][i] * Mt[j][k] for k in range(n)), z3.RealVal(0))
                    S.oblige('post', mtm == (1 if i == j else 0), tag=f'orthogonal: (M^T M)[{comps[i]},{comps[j]}] = delta')
                    S.oblige('post', mmt == (1 if i == j else 0), tag=f'orthogonal: (M M^T)[{comps[i]},{comps[j]}] = delta')
        ck.explore(f'{P.cls(clsname).fullname}.mv', sc, T, label='orthogonal')

    def qurot(S):
        return S.new('QURotationOperator', angles=S.real('angles'), _in_structure=None)
    orthogonal_of('QURotationOperator', qurot)
    orthogonal_of('QURotationTransposeOperator', lambda S: S.new('QURotationTransposeOperator', operator=qurot(S)))

    def identity_orth(S):
        S.oracle = {'name': 'tags', 'cls': 'IdentityOperator'}
        # decorators must have run: transpose of a symmetric class is the lambda installed by `symmetric`
        run_registration(S)
        op = S.new('IdentityOperator', _in_structure=None)
        tr = S.call(S.I.getattr(op, 'transpose'), [])
        S.oblige('post', tr.normal and tr.value is op, tag='identity: transpose() is the operator itself')
        x = z3.Real('x')
        r = S.call(S.I.getattr(op, 'mv'), [x])
        S.oblige('post', r.normal and z_eq(r.value, x) is True, tag='identity: M = I, hence M^T M = I')
    ck.explore(f'{CORE}.IdentityOperator.mv', identity_orth, T, label='orthogonal', call_hook=decorator_hook)


def trig_args(cols, cos):
    """argument terms of cos(...) occurring in a list of columns of z3 terms"""
    out, seen = [], set()

    def rec(t):
        if t.get_id() in seen:
            return
        seen.add(t.get_id())
        if z3.is_app(t) and t.decl().name() in ('cos', 'sin'):
            a = t.arg(0)
            if not any(z3.eq(a, b) for b in out):
                out.append(a)
        for c in t.children():
            rec(c)
    for col in cols:
        for t in col:
            if isinstance(t, z3.ExprRef):
                rec(t)
    return out


def patch_class_table(P):
    """execute the registration code of /repo once (class creation hooks + decorators, real bodies) so that
    ClassInfo.patched reflects what the decorators rewire (square: out_structure, symmetric: transpose,
    orthogonal: inverse).  Used by packs of other facets that need the effective methods of decorated classes."""
    if getattr(P, '_patched_done', False):
        return
    from pyvc.interp import Interp
    from pyvc.run import Run

    class _S:
        pass
    run = Run([])
    I = Interp(P, run, theory())
    I.obl_prefix = 'patch'
    I.cur_name = lambda: 'patch'
    s = _S()
    s.ck = _S()
    s.ck.P = P
    s.I = I
    run_registration(s)
    P._patched_done = True

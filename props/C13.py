"""C13 — axis operators are exact relabellings (pack: obligations for furax._base.axes)."""
from __future__ import annotations

import z3

from pyvc import builtins_model as B
from pyvc.theory import Theory
from pyvc.values import (ClassRef, ExcVal, Obj, SSeq, concrete, fresh_int, to_z3, z_and, z_eq, z_implies, z_not,
                         z_or, zbool)
from theories import structs as ST

AX = 'furax._base.axes'


def theory():
    T = Theory()
    ST.install(T)
    return T


def norm(axis, ndim):
    return z3.If(axis < 0, ndim + axis, axis)


def leaf_seq(S, name):
    return S.seq(name, kind='list', sort=ST.Leaf, wrap=ST.LeafV)


def in_range(axis, leaf: ST.LeafV):
    nd = ST.f_ndim(leaf.term)
    return z3.And(-nd <= axis, axis < nd)


def build(ck):
    T = theory()
    P = ck.P
    ck.assume_note('C13: pytrees are non-empty; ravel axes address existing dimensions of every leaf (numpy '
                   'semantics for out-of-range axes is not part of the property)')
    ck.assume_note('C13: leaves passed to ravel/reshape have no zero-sized dimension where a -1 is inferred '
                   '(numpy refuses to infer -1 next to a zero dimension)')
    ck.trust('proved:Pprod-fold lemmas (obligations lemma-base/lemma-step of this check; only the induction principle is meta-level)',
             'lemma:LA6 reshape/ravel/moveaxis are permutations of the flattened elements')

    # ------------------------------------------------------------------ RavelOperator.__init__
    def ravel_init(S):
        S.oracle = {'name': 'ravel'}
        first, last = S.int('first_axis'), S.int('last_axis')
        leaves = leaf_seq(S, 'leaves')
        struct = ST.StructV(leaves)
        S.assume(to_z3(leaves.length) >= 1)
        S.assume(leaves.forall(lambda k, e: z3.And(e.wf(), in_range(first, e), in_range(last, e))))
        o = Obj(P.cls('RavelOperator'))
        out = S.call(S.func(f'{AX}.RavelOperator.__init__'), [o, first, last], {'in_structure': struct})
        bad = leaves.exists(lambda k, e: norm(first, ST.f_ndim(e.term)) > norm(last, ST.f_ndim(e.term)))
        if out.raised('ValueError'):
            S.oblige('exc', bad, tag='ValueError-only-if-first-after-last')
        elif out.normal:
            S.oblige('exc', z_not(bad), tag='accepts-only-if-no-leaf-has-first-after-last')
            S.oblige('post', z_and(z_eq(o.fields.get('first_axis'), first), z_eq(o.fields.get('last_axis'), last),
                                   o.fields.get('_in_structure') is struct), tag='fields')
        else:
            S.oblige('exc', False, tag=f'undeclared-{out.value.name}')
    ck.explore(f'{AX}.RavelOperator.__init__', ravel_init, T)

    # ------------------------------------------------------------------ RavelOperator.mv (leaf function)
    def ravel_mv(S):
        S.oracle = {'name': 'ravel'}
        first, last = S.int('first_axis'), S.int('last_axis')
        x = ST.LeafV(z3.Const('x', ST.Leaf))
        S.inputs['ndim'] = ST.f_ndim(x.term)
        nd = ST.f_ndim(x.term)
        # class invariant established by the constructor (proved above) for this leaf
        S.assume(z3.And(x.wf(min_dim=1), in_range(first, x), in_range(last, x), norm(first, nd) <= norm(last, nd)))
        o = S.new('RavelOperator', first_axis=first, last_axis=last, _in_structure=x)
        out = S.call(S.I.getattr(o, 'mv'), [x])
        f, l = norm(first, nd), norm(last, nd)
        if not out.normal:
            S.oblige('exc', False, tag=f'no-exception-for-accepted-arguments-{out.value.name}')
            return
        r = out.value
        if not isinstance(r, ST.LeafV):
            S.oblige('post', False, tag='returns-a-leaf')
            return
        sh, rs = ST.f_shape(x.term), ST.f_shape(r.term)
        S.assume(ST.prod_single(sh, f))        # fold lemma instance
        k = fresh_int('k')
        S.oblige('post', ST.f_ndim(r.term) == nd - (l - f), tag='rank')
        S.oblige('post', z3.ForAll([k], z3.Implies(z3.And(0 <= k, k < f), rs[k] == sh[k])), tag='leading-dims-kept')
        S.oblige('post', rs[f] == ST.Pprod(sh, f, l + 1), tag='merged-dim-is-product')
        S.oblige('post', z3.ForAll([k], z3.Implies(z3.And(f < k, k < nd - (l - f)), rs[k] == sh[k + (l - f)])),
                 tag='trailing-dims-kept')
        S.oblige('post', z3.And(ST.f_data(r.term) == ST.f_data(x.term), ST.f_dtype(r.term) == ST.f_dtype(x.term)),
                 tag='row-major-order-and-dtype-unchanged')
    ck.explore(f'{AX}.RavelOperator.mv', ravel_mv, T)

    # ------------------------------------------------------------------ ReshapeOperator._normalize_shape
    def normalize_shape(S):
        S.oracle = {'name': 'reshape'}
        shape = S.seq('shape')
        leaf_shape = S.seq('leaf_shape')
        S.assume(leaf_shape.forall(lambda k, e: e >= 0))
        n = to_z3(shape.length)
        sa, la = shape.arr, leaf_shape.arr
        size = ST.Pprod(la, 0, to_z3(leaf_shape.length))
        out = S.call(S.func(f'{AX}.ReshapeOperator._normalize_shape'), [shape, leaf_shape])
        i, j, k = fresh_int('i'), fresh_int('j'), fresh_int('k')
        too_small = z3.Exists([i], z3.And(0 <= i, i < n, sa[i] < -1))
        has_m1 = z3.Exists([i], z3.And(0 <= i, i < n, sa[i] == -1))
        two_m1 = z3.Exists([i, j], z3.And(0 <= i, i < j, j < n, sa[i] == -1, sa[j] == -1))
        total = ST.Pprod(sa, 0, n)        # contains the factor -1 once when exactly one -1 is present
        others = -total
        divisible = size == others * z3.ToInt(z3.ToReal(size) / z3.ToReal(others))
        if out.raised('ValueError'):
            S.oblige('exc', z3.Or(too_small, two_m1, z3.And(has_m1, others != 0, z3.Not(divisible))),
                     tag='ValueError-only-for-illegal-target')
        elif out.raised('ZeroDivisionError'):
            # recorded deviation: a zero next to -1 is refused with ZeroDivisionError instead of ValueError
            S.oblige('exc', z3.And(has_m1, z3.Not(two_m1), others == 0), tag='ZeroDivisionError-only-for-zero-next-to-minus-one')
        elif out.normal:
            r = out.value
            S.oblige('exc', z3.And(z3.Not(too_small), z3.Not(two_m1),
                                   z3.Implies(has_m1, z3.And(others != 0, divisible))), tag='accepts-only-legal-target')
            rseq = B.as_seq(S.I, r)
            S.oblige('post', z_eq(rseq.length, shape.length), tag='same-rank')
            S.oblige('post', rseq.forall(lambda kk, e: z_implies(sa[to_z3(kk)] != -1, z_eq(e, sa[to_z3(kk)]))),
                     tag='given-sizes-kept')
            S.oblige('post', rseq.forall(lambda kk, e: z_implies(sa[to_z3(kk)] == -1,
                                                               z_and(to_z3(e) * others == size))),
                     tag='inferred-size-is-quotient')
        else:
            S.oblige('exc', False, tag=f'undeclared-{out.value.name}')
    ck.explore(f'{AX}.ReshapeOperator._normalize_shape', normalize_shape, T)


# ====================================================================== second part
def legal_target(sa, n, size):
    """numpy's rule for x.reshape(shape): no size < -1, at most one -1, sizes agree"""
    i, j = fresh_int('i'), fresh_int('j')
    too_small = z3.Exists([i], z3.And(0 <= i, i < n, sa[i] < -1))
    has_m1 = z3.Exists([i], z3.And(0 <= i, i < n, sa[i] == -1))
    two_m1 = z3.Exists([i, j], z3.And(0 <= i, i < j, j < n, sa[i] == -1, sa[j] == -1))
    total = ST.Pprod(sa, 0, n)
    others = -total
    divisible = size == others * z3.ToInt(z3.ToReal(size) / z3.ToReal(others))
    legal = z3.And(z3.Not(too_small), z3.Not(two_m1),
                   z3.If(has_m1, z3.And(others != 0, divisible), total == size))
    return dict(too_small=too_small, has_m1=has_m1, two_m1=two_m1, total=total, others=others, divisible=divisible,
                legal=legal)


def normalize_shape_contract(interp, fi, args, kwargs):
    """callee contract of ReshapeOperator._normalize_shape, as proved in scenario `normalize_shape` (plus the ghost
    product post proved in `normalize_shape_prod`)"""
    shape, leaf_shape = [B.as_seq(interp, a) for a in args[-2:]]
    run = interp.run
    sa, ax = shape.to_array()
    la, ax2 = leaf_shape.to_array()
    for a in ax + ax2:
        run.assume(a)
    n = to_z3(shape.length)
    size = ST.Pprod(la, 0, to_z3(leaf_shape.length))
    L = legal_target(sa, n, size)
    which = run.decide(3)
    if which == 0:
        run.assume(z3.Or(L['too_small'], L['two_m1'], z3.And(L['has_m1'], L['others'] != 0, z3.Not(L['divisible']))))
        interp.raise_('ValueError')
    if which == 1:
        run.assume(z3.And(L['has_m1'], z3.Not(L['two_m1']), L['others'] == 0))
        interp.raise_('ZeroDivisionError')
    run.assume(z3.And(z3.Not(L['too_small']), z3.Not(L['two_m1']),
                      z3.Implies(L['has_m1'], z3.And(L['others'] != 0, L['divisible']))))
    r = SSeq.fresh('normalized', kind='tuple', length=shape.length)
    q = z3.ToInt(z3.ToReal(size) / z3.ToReal(L['others']))
    k = fresh_int('k')
    run.assume(z3.ForAll([k], z3.Implies(z3.And(0 <= k, k < n), r.arr[k] == z3.If(sa[k] == -1, q, sa[k])),
                         patterns=[r.arr[k]]))
    run.assume(ST.Pprod(r.arr, 0, n) == z3.If(L['has_m1'], L['others'] * q, L['total']))
    return r


def build2(ck, T):
    P = ck.P

    # ------------------------------------------------------------------ ghost product post of _normalize_shape
    def normalize_shape_prod(S):
        S.oracle = {'name': 'reshape'}
        shape = S.seq('shape')
        leaf_shape = S.seq('leaf_shape')
        S.assume(leaf_shape.forall(lambda k, e: e >= 0))
        n = to_z3(shape.length)
        size = ST.Pprod(leaf_shape.arr, 0, to_z3(leaf_shape.length))
        L = legal_target(shape.arr, n, size)
        out = S.call(S.func(f'{AX}.ReshapeOperator._normalize_shape'), [shape, leaf_shape])
        if out.normal:
            rseq = B.as_seq(S.I, out.value)
            pr = ST.prod_term(S.run, rseq)
            q = z3.ToInt(z3.ToReal(size) / z3.ToReal(L['others']))
            S.oblige('post', pr == z3.If(L['has_m1'], L['others'] * q, L['total']), tag='product-of-normalized-shape')
    ck.explore(f'{AX}.ReshapeOperator._normalize_shape', normalize_shape_prod, T, label='ghost-product')

    # ------------------------------------------------------------------ ReshapeOperator.__init__ / _check_shape
    contracts = {f'{AX}.ReshapeOperator._normalize_shape': normalize_shape_contract}

    def reshape_init(S):
        S.oracle = {'name': 'reshape'}
        shape = S.seq('shape')
        leaves = leaf_seq(S, 'leaves')
        struct = ST.StructV(leaves)
        S.assume(to_z3(leaves.length) >= 1)
        S.assume(leaves.forall(lambda k, e: e.wf()))
        n = to_z3(shape.length)
        o = Obj(P.cls('ReshapeOperator'))
        out = S.call(S.func(f'{AX}.ReshapeOperator.__init__'), [o, shape], {'in_structure': struct})
        all_legal = leaves.forall(lambda k, e: legal_target(shape.arr, n, ST.f_size(e.term))['legal'])
        if out.raised('ValueError') or out.raised('ZeroDivisionError'):
            S.oblige('exc', z_not(all_legal), tag='refuses-only-targets-illegal-for-some-leaf')
        elif out.normal:
            S.oblige('exc', all_legal, tag='accepts-only-targets-legal-for-every-leaf')
            S.oblige('post', z_and(o.fields.get('shape') is shape, o.fields.get('_in_structure') is struct), tag='fields')
        else:
            S.oblige('exc', False, tag=f'undeclared-{out.value.name}')
    ck.explore(f'{AX}.ReshapeOperator.__init__', reshape_init, T, contracts=contracts)

    # ------------------------------------------------------------------ ReshapeOperator.mv (leaf function)
    def reshape_mv(S):
        S.oracle = {'name': 'reshape'}
        shape = S.seq('shape')
        x = ST.LeafV(z3.Const('x', ST.Leaf))
        n = to_z3(shape.length)
        L = legal_target(shape.arr, n, ST.f_size(x.term))
        S.assume(z3.And(x.wf(), L['legal']))           # class invariant established by the constructor
        o = S.new('ReshapeOperator', shape=shape, _in_structure=x)
        out = S.call(S.I.getattr(o, 'mv'), [x])
        if not out.normal:
            S.oblige('exc', False, tag=f'no-exception-for-accepted-arguments-{out.value.name}')
            return
        r = out.value
        k = fresh_int('k')
        q = z3.ToInt(z3.ToReal(ST.f_size(x.term)) / z3.ToReal(L['others']))
        S.oblige('post', ST.f_ndim(r.term) == n, tag='rank')
        S.oblige('post', z3.ForAll([k], z3.Implies(z3.And(0 <= k, k < n), ST.f_shape(r.term)[k] ==
                                                    z3.If(shape.arr[k] == -1, q, shape.arr[k]))), tag='shape')
        S.oblige('post', z3.And(ST.f_data(r.term) == ST.f_data(x.term), ST.f_dtype(r.term) == ST.f_dtype(x.term)),
                 tag='row-major-order-and-dtype-unchanged')
    ck.explore(f'{AX}.ReshapeOperator.mv', reshape_mv, T)

    # ------------------------------------------------------------------ ReshapeTransposeOperator.mv
    def reshape_T_mv(S):
        S.oracle = {'name': 'reshape'}
        which = S.choose(2)
        xin = ST.LeafV(z3.Const('xin', ST.Leaf))      # the operand's input leaf structure
        y = ST.LeafV(z3.Const('y', ST.Leaf))          # what the transpose is applied to: an output of the operand
        S.assume(z3.And(xin.wf(), y.wf(), ST.f_size(y.term) == ST.f_size(xin.term)))
        if which == 0:
            shape = S.seq('shape')
            inner = S.new('ReshapeOperator', shape=shape, _in_structure=xin)
        else:
            inner = S.new('RavelOperator', first_axis=S.int('first_axis'), last_axis=S.int('last_axis'), _in_structure=xin)
        o = S.new('ReshapeTransposeOperator', operator=inner)
        out = S.call(S.I.getattr(o, 'mv'), [y])
        if not out.normal:
            S.oblige('exc', False, tag=f'no-exception-{out.value.name}')
            return
        r = out.value
        S.oblige('post', z_and(r.shape.eq(xin.shape), ST.f_data(r.term) == ST.f_data(y.term)),
                 tag='reshapes-back-to-the-operand-input-shape-keeping-order')
    ck.explore(f'{AX}.ReshapeTransposeOperator.mv', reshape_T_mv, T)

    # ------------------------------------------------------------------ AbstractRavelOrReshapeOperator.transpose / reduce
    def ror_transpose(S):
        xin = ST.LeafV(z3.Const('xin', ST.Leaf))
        inner = S.new('ReshapeOperator', shape=S.seq('shape'), _in_structure=xin)
        out = S.call(S.I.getattr(inner, 'transpose'), [])
        ok = out.normal and isinstance(out.value, Obj) and out.value.cls.name == 'ReshapeTransposeOperator' \
            and out.value.fields.get('operator') is inner
        S.oblige('post', bool(ok), tag='transpose-wraps-self')
        if ok:
            tt = S.call(S.I.getattr(out.value, 'transpose'), [])
            S.oblige('post', tt.normal and tt.value is inner, tag='transpose-of-transpose-is-self')
            ins = S.call(S.I.getattr(out.value, 'out_structure'), [])
            S.oblige('post', ins.normal and ins.value is xin, tag='transpose-output-structure-is-operand-input')
    ck.explore(f'{AX}.AbstractRavelOrReshapeOperator.transpose', ror_transpose, T)


def build3(ck, T, rules_only=False):
    P = ck.P

    # ------------------------------------------------------------------ MoveAxisOperator.__init__
    def moveaxis_init(S):
        S.oracle = {'name': 'moveaxis'}
        leaves = leaf_seq(S, 'leaves')
        struct = ST.StructV(leaves)
        S.assume(to_z3(leaves.length) >= 1)
        args = []
        expect = []
        for nm in ('source', 'destination'):
            kind = S.choose(3)
            if kind == 0:
                v = S.int(nm)
                args.append(v)
                expect.append(SSeq.lift((v,)))
            elif kind == 1:
                v = S.seq(nm, kind='tuple')
                args.append(v)
                expect.append(v)
            else:
                v = S.seq(nm, kind='list')
                args.append(B.PyList(None, seq=v))
                expect.append(v)
        # legal arguments: every axis addresses an existing dimension of every leaf
        for e in expect:
            S.assume(leaves.forall(lambda k, lf: z_and(lf.wf(), e.forall(lambda j, a: in_range(to_z3(a), lf)))))
        o = Obj(P.cls('MoveAxisOperator'))
        out = S.call(S.func(f'{AX}.MoveAxisOperator.__init__'), [o] + args, {'in_structure': struct})
        if not out.normal:
            S.oblige('exc', False, tag=f'no-exception-{out.value.name}')
            return
        for nm, e in zip(('source', 'destination'), expect):
            got = o.fields.get(nm)
            gs = B.as_seq(S.I, got)
            S.oblige('post', B._isinstance(S.I, got, B.BUILTINS['tuple']), tag=f'{nm}-stored-as-a-tuple')
            S.oblige('post', z_eq(gs.length, e.length), tag=f'{nm}-same-number-of-axes')
            # the stored axes address, on EVERY leaf, the dimensions the caller named (numpy semantics of negative axes)
            S.oblige('post', leaves.forall(lambda k, lf: gs.forall(lambda j, a: z_and(
                in_range(to_z3(a), lf), norm(to_z3(a), ST.f_ndim(lf.term)) == norm(to_z3(e.get(j)), ST.f_ndim(lf.term))))),
                tag=f'{nm}-axes-address-the-named-dimensions-of-every-leaf')
        S.oblige('post', o.fields.get('_in_structure') is struct, tag='structure-stored')
    if not rules_only:
        ck.explore(f'{AX}.MoveAxisOperator.__init__', moveaxis_init, T)

    # ------------------------------------------------------------------ MoveAxisOperator.mv / transpose / inverse
    def moveaxis_mv(S):
        S.oracle = {'name': 'moveaxis'}
        x = ST.LeafV(z3.Const('x', ST.Leaf))
        src, dst = S.seq('source'), S.seq('destination')
        o = S.new('MoveAxisOperator', source=src, destination=dst, _in_structure=x)
        out = S.call(S.I.getattr(o, 'mv'), [x])
        if not out.normal:
            S.oblige('exc', False, tag=f'no-exception-{out.value.name}')
            return
        r = out.value
        ok = isinstance(r, ST.LeafV) and hasattr(r, 'moved_from')
        S.oblige('post', bool(ok), tag='result-is-jnp.moveaxis')
        if ok:
            a, s2, d2 = r.moved_from
            S.oblige('post', z_and(a is x, s2.eq(src), d2.eq(dst)), tag='moveaxis-called-with-(leaf,source,destination)')
    if not rules_only:
        ck.explore(f'{AX}.MoveAxisOperator.mv', moveaxis_mv, T)

    def moveaxis_transpose(S):
        S.oracle = {'name': 'moveaxis'}
        x = ST.LeafV(z3.Const('x', ST.Leaf))
        src, dst = S.seq('source'), S.seq('destination')
        o = S.new('MoveAxisOperator', source=src, destination=dst, _in_structure=x)
        which = S.choose(2)
        out = S.call(S.I.getattr(o, 'transpose' if which == 0 else 'inverse'), [])
        nm = 'transpose' if which == 0 else 'inverse'
        if not out.normal:
            S.oblige('exc', False, tag=f'{nm}-no-exception-{out.value.name}')
            return
        t = out.value
        ok = isinstance(t, Obj) and t.cls.name == 'MoveAxisOperator'
        S.oblige('post', bool(ok), tag=f'{nm}-is-a-move-axis')
        if ok:
            S.oblige('post', z_and(B.as_seq(S.I, t.fields['source']).eq(dst), B.as_seq(S.I, t.fields['destination']).eq(src)),
                     tag=f'{nm}-swaps-source-and-destination')
            ins = t.fields['_in_structure']
            good = isinstance(ins, ST.LeafV) and hasattr(ins, 'moved_from') and ins.moved_from[0] is x
            S.oblige('post', bool(good), tag=f'{nm}-input-structure-is-own-output-structure')
    if not rules_only:
        ck.explore(f'{AX}.MoveAxisOperator.transpose', moveaxis_transpose, T)

    # ------------------------------------------------------------------ MoveAxisInverseRule
    def moveaxis_rule(S):
        S.oracle = {'name': 'moveaxis'}
        x = ST.LeafV(z3.Const('x', ST.Leaf))
        y = ST.LeafV(z3.Const('y', ST.Leaf))
        ls, ld, rs, rd = S.seq('lsrc'), S.seq('ldst'), S.seq('rsrc'), S.seq('rdst')
        left = S.new('MoveAxisOperator', source=ls, destination=ld, _in_structure=y)
        right = S.new('MoveAxisOperator', source=rs, destination=rd, _in_structure=x)
        rule = Obj(P.cls('MoveAxisInverseRule'))
        chk = S.call(S.I.getattr(rule, 'check'), [left, right])
        S.oblige('post', chk.normal, tag='check-accepts-two-move-axes')
        out = S.call(S.I.getattr(rule, 'apply'), [left, right])
        inverse_pair = z_and(ls.eq(rd), ld.eq(rs))
        if out.normal:
            r = out.value
            S.oblige('post', isinstance(r, B.PyList) and r.seq is None and len(r.items) == 0, tag='rewrites-to-empty-product')
            S.oblige('post', inverse_pair, tag='fires-only-for-swapped-source-destination (LA6)')
        elif out.raised('NoReduction'):
            S.oblige('post', z_not(inverse_pair), tag='declines-only-non-inverse-pairs')
        else:
            S.oblige('exc', False, tag=f'undeclared-{out.value.name}')
    ck.explore(f'{AX}.MoveAxisInverseRule.apply', moveaxis_rule, T)

    # ------------------------------------------------------------------ ReshapeInverseRule
    def reshape_rule(S):
        S.oracle = {'name': 'reshape'}
        xin = ST.LeafV(z3.Const('xin', ST.Leaf))
        mk = lambda nm: S.new('ReshapeOperator', shape=S.seq(nm), _in_structure=xin)
        a, b = mk('shape_a'), mk('shape_b')
        ta, tb = S.new('ReshapeTransposeOperator', operator=a), S.new('ReshapeTransposeOperator', operator=b)
        cases = [(a, ta, True), (ta, a, True), (a, tb, False), (tb, a, False), (a, b, False), (ta, tb, False), (a, a, False)]
        left, right, should = cases[S.choose(len(cases))]
        rule = Obj(P.cls('ReshapeInverseRule'))
        chk = S.call(S.I.getattr(rule, 'check'), [left, right])
        S.oblige('post', chk.normal, tag='check-accepts-reshape-like-pairs')
        out = S.call(S.I.getattr(rule, 'apply'), [left, right])
        if should:
            S.oblige('post', out.normal and isinstance(out.value, B.PyList) and out.value.seq is None
                     and len(out.value.items) == 0, tag='operator-next-to-its-own-transpose-cancels (LA6)')
        else:
            S.oblige('post', out.raised('NoReduction'), tag='other-pairs-declined')
    ck.explore(f'{AX}.ReshapeInverseRule.apply', reshape_rule, T)


_build1 = build


def build(ck):          # noqa: F811
    _build1(ck)
    build2(ck, theory())
    build3(ck, theory())
    from props import lemmas
    lemmas.prod_lemmas(ck)       # the Pprod fold lemmas instantiated by theories/structs.py are proved here by induction

"""C13 — axis operators are exact relabellings (pack: obligations for furax._base.axes)."""
from __future__ import annotations

import z3

from pyvc import builtins_model as B
from pyvc.theory import Theory
from pyvc.values import (ClassRef, ExcVal, Obj, SSeq, concrete, fresh_int, to_z3, z_and, z_eq, z_implies, z_not,
                         z_or, zbool)
from theories import structs as ST

AX = 'furax._base.axes'


def theory():
    T = Theory()
    ST.install(T)
    return T


def norm(axis, ndim):
    return z3.If(axis < 0, ndim + axis, axis)


def leaf_seq(S, name):
    return S.seq(name, kind='list', sort=ST.Leaf, wrap=ST.LeafV)


def in_range(axis, leaf: ST.LeafV):
    nd = ST.f_ndim(leaf.term)
    return z3.And(-nd <= axis, axis < nd)


def build(ck):
    T = theory()
    P = ck.P
    ck.assume_note('C13: pytrees are non-empty; ravel axes address existing dimensions of every leaf (numpy '
                   'semantics for out-of-range axes is not part of the property)')
    ck.assume_note('C13: leaves passed to ravel/reshape have no zero-sized dimension where a -1 is inferred '
                   '(numpy refuses to infer -1 next to a zero dimension)')
    ck.trust('lemma:Pprod-fold (split/single/empty/congruence/positivity of the product of a slice; induction)',
             'lemma:LA6 reshape/ravel/moveaxis are permutations of the flattened elements')

    # ------------------------------------------------------------------ RavelOperator.__init__
    def ravel_init(S):
        S.oracle = {'name': 'ravel'}
        first, last = S.int('first_axis'), S.int('last_axis')
        leaves = leaf_seq(S, 'leaves')
        struct = ST.StructV(leaves)
        S.assume(to_z3(leaves.length) >= 1)
        S.assume(leaves.forall(lambda k, e: z3.And(e.wf(), in_range(first, e), in_range(last, e))))
        o = Obj(P.cls('RavelOperator'))
        out = S.call(S.func(f'{AX}.RavelOperator.__init__'), [o, first, last], {'in_structure': struct})
        bad = leaves.exists(lambda k, e: norm(first, ST.f_ndim(e.term)) > norm(last, ST.f_ndim(e.term)))
        if out.raised('ValueError'):
            S.oblige('exc', bad, tag='ValueError-only-if-first-after-last')
        elif out.normal:
            S.oblige('exc', z_not(bad), tag='accepts-only-if-no-leaf-has-first-after-last')
            S.oblige('post', z_and(z_eq(o.fields.get('first_axis'), first), z_eq(o.fields.get('last_axis'), last),
                                   o.fields.get('_in_structure') is struct), tag='fields')
        else:
            S.oblige('exc', False, tag=f'undeclared-{out.value.name}')
    ck.explore(f'{AX}.RavelOperator.__init__', ravel_init, T)

    # ------------------------------------------------------------------ RavelOperator.mv (leaf function)
    def ravel_mv(S):
        S.oracle = {'name': 'ravel'}
        first, last = S.int('first_axis'), S.int('last_axis')
        x = ST.LeafV(z3.Const('x', ST.Leaf))
        S.inputs['ndim'] = ST.f_ndim(x.term)
        nd = ST.f_ndim(x.term)
        # class invariant established by the constructor (proved above) for this leaf
        S.assume(z3.And(x.wf(min_dim=1), in_range(first, x), in_range(last, x), norm(first, nd) <= norm(last, nd)))
        o = S.new('RavelOperator', first_axis=first, last_axis=last, _in_structure=x)
        out = S.call(S.I.getattr(o, 'mv'), [x])
        f, l = norm(first, nd), norm(last, nd)
        if not out.normal:
            S.oblige('exc', False, tag=f'no-exception-for-accepted-arguments-{out.value.name}')
            return
        r = out.value
        if not isinstance(r, ST.LeafV):
            S.oblige('post', False, tag='returns-a-leaf')
            return
        sh, rs = ST.f_shape(x.term), ST.f_shape(r.term)
        S.assume(ST.prod_single(sh, f))        # fold lemma instance
        k = fresh_int('k')
        S.oblige('post', ST.f_ndim(r.term) == nd - (l - f), tag='rank')
        S.oblige('post', z3.ForAll([k], z3.Implies(z3.And(0 <= k, k < f), rs[k] == sh[k])), tag='leading-dims-kept')
        S.oblige('post', rs[f] == ST.Pprod(sh, f, l + 1), tag='merged-dim-is-product')
        S.oblige('post', z3.ForAll([k], z3.Implies(z3.And(f < k, k < nd - (l - f)), rs[k] == sh[k + (l - f)])),
                 tag='trailing-dims-kept')
        S.oblige('post', z3.And(ST.f_data(r.term) == ST.f_data(x.term), ST.f_dtype(r.term) == ST.f_dtype(x.term)),
                 tag='row-major-order-and-dtype-unchanged')
    ck.explore(f'{AX}.RavelOperator.mv', ravel_mv, T)

    # ------------------------------------------------------------------ ReshapeOperator._normalize_shape
    def normalize_shape(S):
        S.oracle = {'name': 'reshape'}
        shape = S.seq('shape')
        leaf_shape = S.seq('leaf_shape')
        S.assume(leaf_shape.forall(lambda k, e: e >= 0))
        n = to_z3(shape.length)
        sa, la = shape.arr, leaf_shape.arr
        size = ST.Pprod(la, 0, to_z3(leaf_shape.length))
        out = S.call(S.func(f'{AX}.ReshapeOperator._normalize_shape'), [shape, leaf_shape])
        i, j, k = fresh_int('i'), fresh_int('j'), fresh_int('k')
        too_small = z3.Exists([i], z3.And(0 <= i, i < n, sa[i] < -1))
        has_m1 = z3.Exists([i], z3.And(0 <= i, i < n, sa[i] == -1))
        two_m1 = z3.Exists([i, j], z3.And(0 <= i, i < j, j < n, sa[i] == -1, sa[j] == -1))
        total = ST.Pprod(sa, 0, n)        # contains the factor -1 once when exactly one -1 is present
        others = -total
        divisible = size == others * z3.ToInt(z3.ToReal(size) / z3.ToReal(others))
        if out.raised('ValueError'):
            S.oblige('exc', z3.Or(too_small, two_m1, z3.And(has_m1, others != 0, z3.Not(divisible))),
                     tag='ValueError-only-for-illegal-target')
        elif out.raised('ZeroDivisionError'):
            # recorded deviation: a zero next to -1 is refused with ZeroDivisionError instead of ValueError
            S.oblige('exc', z3.And(has_m1, z3.Not(two_m1), others == 0), tag='ZeroDivisionError-only-for-zero-next-to-minus-one')
        elif out.normal:
            r = out.value
            S.oblige('exc', z3.And(z3.Not(too_small), z3.Not(two_m1),
                                   z3.Implies(has_m1, z3.And(others != 0, divisible))), tag='accepts-only-legal-target')
            rseq = B.as_seq(S.I, r)
            S.oblige('post', z_eq(rseq.length, shape.length), tag='same-rank')
            S.oblige('post', rseq.forall(lambda kk, e: z_implies(sa[to_z3(kk)] != -1, z_eq(e, sa[to_z3(kk)]))),
                     tag='given-sizes-kept')
            S.oblige('post', rseq.forall(lambda kk, e: z_implies(sa[to_z3(kk)] == -1,
                                                               z_and(to_z3(e) * others == size))),
                     tag='inferred-size-is-quotient')
        else:
            S.oblige('exc', False, tag=f'undeclared-{out.value.name}')
    ck.explore(f'{AX}.ReshapeOperator._normalize_shape', normalize_shape, T)

"""C16 — the acquisition operator equals the explicit pointing model (pack; `point` facet).

Real bodies executed: furax.projections.get_rotation_matrix / vec2dir / create_projection_operator,
furax.instruments.sat.create_acquisition, furax.detectors.DetectorArray.__init__/__len__, furax.samplings.Sampling.__len__,
furax.landscapes.HealpixLandscape.__init__/world2pixel, StokesLandscape.world2index/structure, the `@` of furax._base.core,
RavelOperator.__init__/mv, IndexOperator.mv and the mv bodies of the three polarimetry operators.

Callee contracts (proved by other packs): IndexOperator.__init__ (C12; one more scenario inlines the real constructor
instead — it exposed finding C16-F1 of the original tree, fixed since by /repo 7013af6, and now guards against its
recurrence), StokesLandscape.pixel2index (C17), CompositionOperator.reduce (C01)."""
from __future__ import annotations

import z3

from pyvc import builtins_model as B
from pyvc.values import ClassRef, Ext, Obj, Unsupported
from theories import point as PT
from theories.point import (ArrV, KINDS, NestV, ReducedV, STOKES, SdsV, f_ang2pix, f_arccos, f_arctan2, f_cos, f_getitem,
                            f_pix2idx, f_sin, f_sqrt)

from ._stokes_common import check_structure

PJ = 'furax.projections'
OPS = ('QURotationOperator', 'QURotationTransposeOperator', 'HWPOperator', 'LinearPolarizerOperator', 'CompositionOperator',
       'IdentityOperator', 'RavelOperator', 'IndexOperator')
INT = Ext('numpy.int32')


def decorate(S):
    for n in OPS:
        PT.apply_class_decorators(S.I, S.ck.P.cls(n))


# ------------------------------------------------------------------------------------------ callee contracts
def index_ctor_contract(interp, fi, args, kwargs):
    """IndexOperator.__init__(self, indices, *, in_structure, out_structure=None, unique_indices=None) as C12 specifies
    it for one integer index array on 1-d leaves: fields stored, output leaf = ShapeDtypeStruct(indices.shape, leaf.dtype)"""
    self, indices = args[0], args[1]
    in_structure = kwargs['in_structure']
    if kwargs.get('out_structure') is not None or not isinstance(indices, ArrV):
        raise Unsupported('IndexOperator contract: only the single-integer-array form used by the projection')

    def out_leaf(interp, leaf):
        if not isinstance(leaf, SdsV) or not isinstance(leaf.shape, tuple) or len(leaf.shape) != 1:
            raise Unsupported('IndexOperator contract: input leaves must be 1-d structures')
        return SdsV(indices.shape, leaf.dtype)
    self.fields['indices'] = (indices,)
    self.fields['_in_structure'] = in_structure
    self.fields['_out_structure'] = PT.tree_map(interp, PT.PyFunc(out_leaf, 'index-out-leaf'), in_structure, [])
    self.fields['unique_indices'] = False if kwargs.get('unique_indices') is None else kwargs['unique_indices']
    return None


def pixel2index_contract(interp, fi, args, kwargs):
    """StokesLandscape.pixel2index(self, *coords) for a one-dimensional map (C17): an integer index per element, a
    function of the rounded coordinate (-1 outside the map)"""
    coords = args[1:]
    if len(coords) != 1 or not isinstance(coords[0], ArrV):
        raise Unsupported('pixel2index contract: one coordinate array')
    c = coords[0]
    return ArrV(f_pix2idx(c.term), c.shape, INT, c.axes)


def reduce_contract(interp, fi, args, kwargs):
    """CompositionOperator.reduce() (C01): an operator denoting the same map"""
    return ReducedV(args[0])


CONTRACTS = {'furax._base.indices.IndexOperator.__init__': index_ctor_contract,
             'furax.landscapes.StokesLandscape.pixel2index': pixel2index_contract,
             'furax._base.core.CompositionOperator.reduce': reduce_contract}


# ------------------------------------------------------------------------------------------ explicit model
def euler_zyz(phi, theta, psi):
    """Rz(phi) · Ry(theta) · Rz(psi) as a 3x3 list of terms"""
    def rz(a):
        c, s = f_cos(a), f_sin(a)
        return [[c, -s, 0], [s, c, 0], [0, 0, 1]]

    def ry(a):
        c, s = f_cos(a), f_sin(a)
        return [[c, 0, s], [0, 1, 0], [-s, 0, c]]

    def mm(A, Bm):
        return [[sum(A[i][k] * Bm[k][j] for k in range(3)) for j in range(3)] for i in range(3)]
    return mm(mm(rz(phi), ry(theta)), rz(psi))


def pointing_index(nside, phi, theta, psi, d):
    """index of the pixel hit by the direction d rotated by the Z-Y-Z Euler rotation (explicit model)"""
    Rm = euler_zyz(phi, theta, psi)
    X, Y, Z = [sum(Rm[i][j] * d[j] for j in range(3)) for i in range(3)]
    th = f_arccos(Z / f_sqrt(X * X + Y * Y + Z * Z))
    ph = f_arctan2(Y, X)
    return f_pix2idx(f_ang2pix(z3.ToReal(nside) if nside.is_int() else nside, th, ph))


def mk_samplings(S, nsamp):
    mk = lambda n: ArrV(S.real(n), (nsamp,), Ext('numpy.float64'), ('sample',))     # noqa: E731
    th, ph, pa = mk('theta'), mk('phi'), mk('psi')
    return S.new('Sampling', theta=th, phi=ph, pa=pa), th, ph, pa


def mk_detectors(S, ndet, ndir):
    d = [ArrV(S.real(f'd{c}'), (ndet, ndir), Ext('numpy.float64'), ('det', 'dir')) for c in 'xyz']
    return S.new('DetectorArray', shape=(ndet, ndir), coords=NestV(d)), d


def sky_of(S, kind, npix_shape, dtype):
    clsname, comps = STOKES[kind]
    o = S.new(clsname)
    for c in comps:
        o.fields[c] = ArrV(S.real(f'sky_{c}'), npix_shape, dtype, ('pixel',))
    return o


def build(ck):
    T = PT.theory()
    P = ck.P
    ck.assume_note('C16: jhp.ang2pix returns "the pixel containing the direction" (external; uninterpreted here); the '
                   'random sampling generator is outside the decided core')
    ck.assume_note('C16: sampling angles theta/phi/psi are arrays of one common shape (nsamp,); detector coordinates have '
                   'shape (3, ndet, ndir)')
    ck.assume_note('C16: wiring of the factories is proved under the C12 contract of IndexOperator.__init__ (and once more '
                   'through the real constructor), the C17 contract of pixel2index and the C01 contract of reduce(); '
                   'P.T @ P = diagonal of hit counts is C12 (TransposeIndexRule) + LA5 and is only checked natively here')

    # ================================================================== get_rotation_matrix: nine polynomial identities
    def rotation_matrix(S):
        S.oracle = {'name': 'rotation_matrix', 'x64': True}
        nsamp = S.int('nsamp')
        S.assume(nsamp >= 1)
        samplings, th, ph, pa = mk_samplings(S, nsamp)
        out = S.call(S.func(f'{PJ}.get_rotation_matrix'), [samplings])
        if not out.normal:
            S.oblige('exc', False, tag=f'no-exception-{out.value.name}')
            return
        r = out.value
        ok = isinstance(r, NestV) and len(r.items) == 3 and all(
            isinstance(row, NestV) and len(row.items) == 3 and all(isinstance(e, ArrV) for e in row.items) for row in r.items)
        S.oblige('post', bool(ok), tag='returns-a-3x3-array-of-per-sample-entries')
        if not ok:
            return
        ref = euler_zyz(ph.term, th.term, pa.term)
        for i in range(3):
            for j in range(3):
                e = r.items[i].items[j]
                S.oblige('post', e.term == ref[i][j], tag=f'entry-{i}{j}-equals-Rz(phi)Ry(theta)Rz(psi)')
        S.oblige('post', all(e.axes == ('sample',) for row in r.items for e in row.items), tag='third-axis-is-the-sample-axis')
    ck.explore(f'{PJ}.get_rotation_matrix', rotation_matrix, T)

    # ================================================================== vec2dir
    def vec2dir(S):
        S.oracle = {'name': 'vec2dir', 'x64': True}
        x, y, zz = [ArrV(S.real(n), PT.ShapeTok('shape'), None, ('det', 'dir', 'sample')) for n in 'xyz']
        out = S.call(S.func(f'{PJ}.vec2dir'), [x, y, zz])
        ok = out.normal and isinstance(out.value, tuple) and len(out.value) == 2 and all(isinstance(v, ArrV) for v in out.value)
        S.oblige('post', bool(ok), tag='returns-(theta,phi)')
        if ok:
            th, ph = out.value
            r = f_sqrt(x.term * x.term + y.term * y.term + zz.term * zz.term)
            S.oblige('post', th.term == f_arccos(zz.term / r), tag='theta-is-arccos(z/r)-with-r-the-norm')
            S.oblige('post', ph.term == f_arctan2(y.term, x.term), tag='phi-is-arctan2(y,x)')
    ck.explore(f'{PJ}.vec2dir', vec2dir, T)

    # ================================================================== DetectorArray / Sampling
    def detector_array(S):
        S.oracle = {'name': 'detectors', 'x64': True}
        ndet, ndir = S.int('ndet'), S.int('ndir')
        S.assume(z3.And(ndet >= 1, ndir >= 1))
        x, y = [ArrV(S.real(n), (ndet, ndir), None, ('det', 'dir')) for n in 'xy']
        zcase = S.choose(2)
        zv = S.real('z') if zcase == 0 else ArrV(S.real('z'), (ndet, ndir), None, ('det', 'dir'))
        out = S.call(ClassRef(P.cls('DetectorArray')), [x, y, zv])
        if not out.normal:
            S.oblige('exc', False, tag=f'no-exception-{out.value.name}')
            return
        o = out.value
        co = o.fields.get('coords')
        ok = isinstance(co, NestV) and len(co.items) == 3 and all(isinstance(e, ArrV) for e in co.items)
        S.oblige('post', bool(ok), tag='coords-has-three-components')
        if ok:
            zt = PT.term_of(zv)
            n = f_sqrt(x.term * x.term + y.term * y.term + zt * zt)
            for k, (nm, t) in enumerate((('x', x.term), ('y', y.term), ('z', zt))):
                S.oblige('post', co.items[k].term == t / n, tag=f'coords[{k}]-is-{nm}-divided-by-the-norm')
        sh = o.fields.get('shape')
        S.oblige('post', isinstance(sh, tuple) and len(sh) == 2 and PT.same_token(sh, (ndet, ndir)), tag='shape-is-the-broadcast-shape')
        ln = S.call(S.I.getattr(o, '__len__'), [])
        S.oblige('post', ln.normal and not isinstance(ln.value, bool), tag='len-returns')
        if ln.normal:
            S.oblige('post', ln.value == ndet * ndir, tag='len-is-the-number-of-directions')
    ck.explore('furax.detectors.DetectorArray.__init__', detector_array, T)

    def sampling_len(S):
        S.oracle = {'name': 'detectors', 'x64': True}
        nsamp = S.int('nsamp')
        S.assume(nsamp >= 0)
        samplings, *_ = mk_samplings(S, nsamp)
        ln = S.call(S.I.getattr(samplings, '__len__'), [])
        S.oblige('post', ln.normal, tag='len-returns')
        if ln.normal:
            S.oblige('post', ln.value == nsamp, tag='len-is-the-number-of-samples')
    ck.explore('furax.samplings.Sampling.__len__', sampling_len, T)

    # ================================================================== create_projection_operator
    def setup(S, kind, multi, dtype):
        decorate(S)
        nside, ndet, nsamp = S.int('nside'), S.int('ndet'), S.int('nsamp')
        S.assume(z3.And(nside >= 1, ndet >= 1, nsamp >= 1))
        if multi:
            ndir = S.int('ndir')
            S.assume(ndir >= 2)
        else:
            ndir = 1
            S.inputs['ndir'] = 1
        S.inputs['stokes'] = kind
        land = S.call(ClassRef(P.cls('HealpixLandscape')), [nside, kind, dtype])
        samplings, th, ph, pa = mk_samplings(S, nsamp)
        dets, d = mk_detectors(S, ndet, ndir)
        return dict(nside=nside, ndet=ndet, nsamp=nsamp, ndir=ndir, land=land, samplings=samplings, th=th, ph=ph, pa=pa,
                    dets=dets, d=d)

    def check_projection(S, proj, E, kind, multi, dtype, what='projection'):
        """obligations on the composition rotation @ sampling @ reshape; returns (ok, idx)"""
        ops = proj.fields.get('operands') if isinstance(proj, Obj) and proj.cls.name == 'CompositionOperator' else None
        ok = isinstance(ops, B.PyList) and ops.seq is None and len(ops.items) >= 3 and all(isinstance(o, Obj) for o in ops.items)
        S.oblige('post', bool(ok), tag=f'{what}:is-a-composition')
        if not ok:
            return False, None
        rot, samp, resh = ops.items[-3:]
        names = [o.cls.name for o in (rot, samp, resh)]
        S.oblige('post', names == ['QURotationOperator', 'IndexOperator', 'RavelOperator'],
                 tag=f'{what}:product-order-is-rotation@sampling@reshape')
        if names != ['QURotationOperator', 'IndexOperator', 'RavelOperator']:
            return False, None
        nside, ndet, nsamp, ndir = E['nside'], E['ndet'], E['nsamp'], E['ndir']
        tod_shape = (ndet, ndir, nsamp) if multi else (ndet, nsamp)
        # rotation: built from samplings.pa on the tod structure
        S.oblige('post', rot.fields.get('angles') is E['pa'], tag=f'{what}:rotation-angles-are-samplings.pa')
        check_structure(S, rot.fields.get('_in_structure'), kind, tod_shape, dtype, what=f'{what}:rotation-structure')
        # reshape: RavelOperator on the landscape structure
        map_shape = (12 * nside * nside,)
        check_structure(S, resh.fields.get('_in_structure'), kind, map_shape, dtype, what=f'{what}:ravel-input-structure')
        S.oblige('post', resh.fields.get('first_axis') == 0 and resh.fields.get('last_axis') == -1, tag=f'{what}:ravel-over-all-axes')
        # sampling: the indices are the explicit pointing model
        idx = samp.fields.get('indices')
        good = isinstance(idx, tuple) and len(idx) == 1 and isinstance(idx[0], ArrV)
        S.oblige('post', bool(good), tag=f'{what}:one-index-array')
        if not good:
            return False, None
        idx = idx[0]
        d = [x.term for x in E['d']]
        S.oblige('post', idx.term == pointing_index(nside, E['ph'].term, E['th'].term, E['pa'].term, d),
                 tag=f'{what}:index-is-the-pixel-of-the-ZYZ-rotated-direction')
        S.oblige('post', idx.axes == (('det', 'dir', 'sample') if multi else ('det', 'sample')) and PT.same_token(idx.shape, tod_shape),
                 tag=f'{what}:indices-ordered-(detector,[direction,]sample)')
        rs = S.call(S.I.getattr(resh, 'out_structure'), [])
        S.oblige('post', rs.normal and S.I.truth_term(S.I.equals(samp.fields.get('_in_structure'), rs.value)) is True,
                 tag=f'{what}:sampling-input-structure-is-reshape.out_structure()')
        return True, idx

    def expected_projection(sky, idx, pa, kind):
        g = {c: f_getitem(sky.fields[c].term, idx.term) for c in sky.fields}
        c2, s2 = f_cos(2 * pa.term), f_sin(2 * pa.term)
        out = dict(g)
        if 'q' in g:
            out['q'] = g['q'] * c2 - g['u'] * s2
            out['u'] = g['q'] * s2 + g['u'] * c2
        return out

    def projection(kind, multi):
        def sc(S):
            S.oracle = {'name': 'projection', 'stokes': kind, 'ndir': 2 if multi else 1, 'x64': True}
            dtype = z3.Const('dtype', PT.DT)
            E = setup(S, kind, multi, dtype)
            if not E['land'].normal:
                S.oblige('exc', False, tag='landscape-constructor-raises')
                return
            land = E['land'].value
            out = S.call(S.func(f'{PJ}.create_projection_operator'), [land, E['samplings'], E['dets']])
            S.oblige('exc', out.normal, tag='every-@-has-matching-structures-and-the-factory-returns')
            if not out.normal:
                return
            ok, idx = check_projection(S, out.value, E, kind, multi, dtype)
            if not ok:
                return
            sky = sky_of(S, kind, (12 * E['nside'] * E['nside'],), dtype)
            res = S.call(S.I.getattr(out.value, 'mv'), [sky])
            good = res.normal and isinstance(res.value, Obj) and res.value.cls is sky.cls
            S.oblige('post', bool(good), tag='mv:returns-the-stokes-class-of-the-landscape')
            if good:
                exp = expected_projection(sky, idx, E['pa'], kind)
                for c in sky.fields:
                    S.oblige('post', res.value.fields[c].term == exp[c],
                             tag=f'mv:component-{c}-is-the-sky-at-the-pixel-with-(Q,U)-rotated-by-2psi')
        return sc
    for kind in KINDS:
        for multi in (False, True):
            ck.explore(f'{PJ}.create_projection_operator', projection(kind, multi), T, contracts=CONTRACTS,
                       label=f'{kind}-{"ndir>=2" if multi else "ndir=1"}')

    # ---- the real IndexOperator constructor inlined (finding C16-F1 of the original tree; fixed by /repo 7013af6)
    no_ctor_contract = {k: v for k, v in CONTRACTS.items() if 'IndexOperator' not in k}

    def projection_real_ctor(S):
        S.oracle = {'name': 'projection', 'stokes': 'IQU', 'ndir': 1, 'x64': True}
        E = setup(S, 'IQU', False, Ext('numpy.float64'))
        out = S.call(S.func(f'{PJ}.create_projection_operator'), [E['land'].value, E['samplings'], E['dets']])
        S.oblige('exc', out.normal, tag='factory-returns-with-the-real-IndexOperator-constructor', finding='C16-F1',
                 note=f'raises {out.value.name if not out.normal else ""}: jax.eval_shape hashes self.mv, which reads the '
                      f'field _out_structure before it is assigned')
        if out.normal:      # same wiring obligations as under the C12 contract, now through the real constructor
            check_projection(S, out.value, E, 'IQU', False, Ext('numpy.float64'), what='real-constructor')
    ck.explore(f'{PJ}.create_projection_operator', projection_real_ctor, T, contracts=no_ctor_contract, label='real-constructor')

    # ================================================================== create_acquisition
    SAT = 'furax.instruments.sat'

    def acquisition(kind, multi, generic_dtype):
        def sc(S):
            S.oracle = {'name': 'acquisition', 'stokes': kind, 'ndir': 2 if multi else 1,
                        'dtype': 'float32' if generic_dtype else 'float64', 'x64': True}
            dtype = z3.Const('dtype', PT.DT) if generic_dtype else Ext('numpy.float64')
            E = setup(S, kind, multi, dtype)
            land = E['land'].value
            out = S.call(S.func(f'{SAT}.create_acquisition'), [land, E['samplings'], E['dets']])
            if multi:
                S.oblige('exc', out.normal, tag='every-@-has-matching-structures-and-the-factory-returns', finding='C16-F13',
                         note=f'{"" if out.normal else out.value.name}: tod_shape = (ndet*ndir, nsamp) against the projection '
                              f'output (ndet, ndir, nsamp)')
                return
            if generic_dtype:
                S.oblige('exc', out.normal, tag='every-@-has-matching-structures-and-the-factory-returns', finding='C16-F15',
                         note=f'{"" if out.normal else out.value.name}: the polariser is created with the default float64 '
                              f'whatever landscape.dtype')
                return
            S.oblige('exc', out.normal, tag='every-@-has-matching-structures-and-the-factory-returns')
            if not out.normal:
                return
            ok = isinstance(out.value, ReducedV) and isinstance(out.value.op, Obj) and out.value.op.cls.name == 'CompositionOperator'
            S.oblige('post', bool(ok), tag='returns-reduce()-of-the-composition')
            if not ok:
                return
            comp_op = out.value.op
            ops = comp_op.fields['operands'].items
            names = [o.cls.name for o in ops]
            S.oblige('post', names == ['LinearPolarizerOperator', 'HWPOperator', 'QURotationOperator', 'IndexOperator', 'RavelOperator'],
                     tag='product-order-is-polarizer@hwp@projection')
            if names[:2] != ['LinearPolarizerOperator', 'HWPOperator'] or len(ops) != 5:
                return
            ok, idx = check_projection(S, comp_op, E, kind, multi, dtype, what='projection-part')
            tod_shape = (E['ndet'], E['nsamp'])
            check_structure(S, ops[1].fields.get('_in_structure'), kind, tod_shape, dtype, what='hwp-structure-is-proj.out_structure()')
            pst = ops[0].fields.get('_in_structure')
            good = isinstance(pst, Obj) and pst.cls.name == STOKES[kind][0] and all(
                isinstance(l, SdsV) and S.I.truth_term(S.I.equals(l, SdsV(tod_shape, Ext('numpy.float64')))) is True
                for l in pst.fields.values())
            S.oblige('post', bool(good), tag='polariser-structure-is-(ndet,nsamp)-float64-of-the-landscape-kind')
            if not ok:
                return
            sky = sky_of(S, kind, (12 * E['nside'] * E['nside'],), dtype)
            res = S.call(S.I.getattr(comp_op, 'mv'), [sky])
            good = res.normal and isinstance(res.value, ArrV)
            S.oblige('post', bool(good), tag='mv:returns-one-array')
            if good:
                g = {c: f_getitem(sky.fields[c].term, idx.term) for c in sky.fields}
                c2, s2 = f_cos(2 * E['pa'].term), f_sin(2 * E['pa'].term)
                rotq = (g['q'] * c2 - g['u'] * s2) if 'q' in g else None
                exp = (g['i'] + rotq) / 2 if ('i' in g and 'q' in g) else (g['i'] / 2 if 'i' in g else rotq / 2)
                S.oblige('post', res.value.term == exp, tag='mv:(I+Q·cos2psi−U·sin2psi)/2-at-the-pixel')
        return sc
    for kind in KINDS:
        ck.explore(f'{SAT}.create_acquisition', acquisition(kind, False, False), T, contracts=CONTRACTS, label=f'{kind}-ndir=1')
    ck.explore(f'{SAT}.create_acquisition', acquisition('IQU', True, False), T, contracts=CONTRACTS, label='IQU-ndir>=2')
    ck.explore(f'{SAT}.create_acquisition', acquisition('IQU', False, True), T, contracts=CONTRACTS, label='IQU-other-dtype')

"""C06 — inverses invert.

Real bodies executed (re-read from /repo on every run):
  core.HomothetyOperator.inverse (+ mv, point facet), core.AbstractLinearOperator.inverse / I (default: lazy inverse),
  core.AbstractLazyInverseOperator.inverse / __matmul__ / as_matrix, core.InverseOperator.__init__ / mv,
  core._AbstractLazyDualOperator.__init__ / in_structure / out_structure,
  diagonal.DiagonalOperator.inverse, diagonal.DiagonalInverseOperator.__init__ / diagonal / inverse,
  blocks.BlockDiagonalOperator.inverse (scenario shared with C10), the `orthogonal` decorator's rewiring (class table).

Statements (from the property text)
  closed forms, facet `alg`:  den(o.inverse()) = inv(den(o)), structures swapped, under the side condition (scalar != 0;
      every block square and invertible); o.I.I denotes o (is o for the lazy classes; its reduced form for the default);
  scalar, facet `point` (one generic element per leaf, free real value v != 0): A.I(A(x)) = x = A(A.I(x)), (A.I).I has value v;
  diagonal pseudo-inverse, facet `point` with d a free real: v = where(d != 0, 1/d, 0) satisfies d v d = d, v d v = v,
      v = 0 where d = 0 (the quotient 1/0 is never the selected value), v d = 1 elsewhere;
  lazy inverse: InverseOperator(A) raises ValueError iff A is not square, stores A.reduce() and the configuration current
      at creation; mv calls lx.linear_solve on TaggedLinearOperator(self.operator, positive_semidefinite_tag) with the
      vector, solver / throw / options of self.config and returns solution.value; as_matrix is jnp.linalg.inv of the
      operand's dense form (wiring obligations on recording externals).
Assumed, not proved: lineax returns A^{-1} x for SPD A to the configured tolerance (convergence, rounding); jnp.linalg.inv
is the matrix inverse.  References: orthogonal => inverse is transpose and R^T R = I (C08, C15); MoveAxisOperator.inverse
(C13); the shortcut D.I @ D -> identity for a diagonal with zeros is C01's open finding.
"""
from __future__ import annotations

import ast

import z3

from props import C08, C10, C19
from pyvc import builtins_model as B
from pyvc.theory import Theory
from pyvc.values import BoundMethod, ClassRef, FuncRef, Obj, PyFunc, fresh_int, is_z3, to_z3, z_and, z_eq
from theories import alg as A
from theories import arrays as AR
from theories import blocks as BK
from theories import context as CX
from theories import point as PT

CORE = 'furax._base.core'
DG = 'furax._base.diagonal'
BL = 'furax._base.blocks'


def build(ck):
    P = ck.P
    ck.trust('lemma:LA3 inv f o f = id = f o inv f, inv(inv f) = f, inv(id) = id',
             'lemma:LA4 block-wise inverse of a block diagonal of invertible blocks',
             'ref:C08 orthogonal classes: inverse is transpose (same function), A.I is what A.T is, M^T M = I = M M^T for '
             'QURotationOperator and its transpose class',
             'ref:C15 QURotationOperator / QURotationTransposeOperator mv are mutually inverse rotations',
             'ref:C13 MoveAxisOperator.inverse = transpose with swapped axes is the inverse permutation (LA6)',
             'ref:C11 DiagonalOperator / DiagonalInverseOperator mv multiply by `diagonal` along the requested axes',
             'ref:C01 reduce() keeps the denoted map (the lazy inverse stores operator.reduce())',
             'ref:C19 the captured configuration is the one active at creation, for every with-block history')
    ck.assume_note('C06: lx.linear_solve(TaggedLinearOperator(A, positive_semidefinite_tag), x, solver, throw, options).value '
                   'is A^{-1} x for symmetric positive-definite A to the tolerance of the configured solver: ASSUMED '
                   '(convergence and rounding are out of reach of this technique); jnp.linalg.inv is the matrix inverse')
    ck.assume_note('C06: floats are reals: "up to rounding" clauses are not addressed; NaN/Inf-freedom of the pseudo-inverse is '
                   'the statement that the selected value is 0 where d = 0 and 1/d with d != 0 elsewhere')
    ck.assume_note('C06: blocks of a block diagonal are invertible (coefficient != 0) where the inverse is claimed')

    # ================================================================== HomothetyOperator.inverse — point facet
    TP = PT.theory()

    def homothety_point(S):
        S.oracle = {'name': 'closed_forms'}
        v = S.real('value')
        S.assume(v != 0)
        shape = S.choose(3)
        names = [['a'], ['a', 'b'], ['a', 'b', 'c']][shape]
        struct = {n: PT.SdsV(PT.ShapeTok(f'shape_{n}'), z3.Const(f'dtype_{n}', PT.DT)) for n in names}
        o = S.new('HomothetyOperator', value=PT.ArrV(v, ()), _in_structure=struct)
        out = S.call(S.I.getattr(o, 'inverse'), [])
        ok = out.normal and isinstance(out.value, Obj) and out.value.cls.name == 'HomothetyOperator'
        S.oblige('post', bool(ok), tag='inverse-is-a-scalar-operator', note=str(out.where))
        if not ok:
            return
        inv = out.value
        S.oblige('post', inv.fields.get('_in_structure') is struct, tag='on-the-same-structure')
        iv = inv.fields.get('value')
        S.oblige('post', isinstance(iv, PT.ArrV) and iv.term * v == 1, tag='value-is-1/value')
        x = {n: PT.ArrV(S.real(f'x_{n}')) for n in names}
        fwd = S.call(S.I.getattr(o, 'mv'), [x])
        bwd = S.call(S.I.getattr(inv, 'mv'), [x])
        if not (fwd.normal and bwd.normal):
            S.oblige('exc', False, tag='mv-returns')
            return
        back = S.call(S.I.getattr(inv, 'mv'), [fwd.value])
        forth = S.call(S.I.getattr(o, 'mv'), [bwd.value])
        for nm, r in (('A.I(A(x)) = x', back), ('A(A.I(x)) = x', forth)):
            good = r.normal and isinstance(r.value, dict) and sorted(r.value) == names
            S.oblige('post', bool(good), tag=f'{nm}: same-pytree')
            if good:
                for n in names:
                    S.oblige('post', PT.term_of(r.value[n]) == x[n].term, tag=f'{nm}: leaf {n}')
        twice = S.call(S.I.getattr(inv, 'inverse'), [])
        ok2 = twice.normal and isinstance(twice.value, Obj) and twice.value.cls.name == 'HomothetyOperator'
        S.oblige('post', bool(ok2) and twice.value.fields['value'].term == v and twice.value.fields['_in_structure'] is struct,
                 tag='A.I.I has the value and structure of A')
    ck.explore(f'{CORE}.HomothetyOperator.inverse', homothety_point, TP, label='point')

    # ================================================================== alg facet
    T = BK.BlockTheory(P, core_as_terms=False)
    CX.install(T)
    # quantifier-free background only (refuting an obligation under quantified axioms is slow): ground instances are
    # stated where a scenario needs them
    ax = [A.invw(A.EMPTY) == A.EMPTY]            # LA3: inv(id) = id

    def homothety_alg(S):
        S.oracle = {'name': 'closed_forms'}
        v = S.real('value')
        S.assume(v != 0)
        s = z3.Const('structure', A.Struct)
        o = S.new('HomothetyOperator', value=A.ScalarArr(v, ()), _in_structure=s)
        out = S.call(S.I.getattr(o, 'inverse'), [])
        S.oblige('post', out.normal, tag='returns', note=str(out.where))
        if not out.normal:
            return
        c, w, i_, o_ = A.den_of(S.I, out.value)
        c0, w0, i0, o0 = A.den_of(S.I, o)
        S.oblige('post', z3.And(c == 1 / c0, w == A.invw(w0)), tag='den(A.inverse()) = inv(den(A))', exact=False)
        S.oblige('post', z3.And(i_ == o0, o_ == i0), tag='structures-swapped (the same: square)', exact=False)
        prop = S.call(PyFunc(lambda interp: interp.getattr(o, 'I'), 'A.I'), [])
        S.oblige('post', prop.normal and isinstance(prop.value, Obj) and z_eq(A.den_of(S.I, prop.value)[0], c) is not False
                 and A.den_of(S.I, prop.value)[0] == c, tag='the I property is inverse()', exact=False)
    ck.explore(f'{CORE}.HomothetyOperator.inverse', homothety_alg, T, label='alg', axioms=ax)

    # ------------------------------------------------------------------ default inverse, InverseOperator.__init__
    def lazy_init(S):
        S.oracle = {'name': 'lazy_solve'}
        var = C19.the_var(S)
        if var is None:
            return
        st = C19.start_state(S, var, S.choose(2))
        before = st['cur']
        how = S.choose(3)       # InverseOperator(X) | the default X.inverse() | the default X.I
        if how == 0:
            X = z3.Const('X', A.Op)             # an operator of unknown class
            S.inputs['X'] = X
            operand, stored = X, A.reduced(X)
            r_ = A.reduced(X)        # C01's contract of X.reduce() for this X (instance of theories/alg.reduce_axioms)
            S.assume(z3.And(A.denw(r_) == A.denw(X), A.denc(r_) == A.denc(X), A.ins(r_) == A.ins(X), A.outs(r_) == A.outs(X)))
            made = S.call(ClassRef(P.cls(f'{CORE}.InverseOperator')), [X])
        else:
            # an operator whose class keeps the defaults of AbstractLinearOperator (inverse, I, reduce)
            operand = A.plain_operator(S, 'PackOperator', 'X')
            X, stored = operand.plain, operand
            for nm_ in ('inverse', 'I', 'reduce'):
                S.oblige('post', operand.cls.lookup(nm_)[0].name == 'AbstractLinearOperator', tag=f'stand-in class keeps the default {nm_}')
            if how == 1:
                made = S.call(S.I.getattr(operand, 'inverse'), [])
            else:
                made = S.call(PyFunc(lambda interp: interp.getattr(operand, 'I'), 'A.I'), [])
        square = A.ins(X) == A.outs(X)
        nm = ['InverseOperator(A)', 'default A.inverse()', 'default A.I'][how]
        if made.raised('ValueError'):
            S.oblige('exc', z3.Not(square), tag=f'{nm}: refused-only-if-not-square')
            return
        if not made.normal:
            S.oblige('exc', False, tag=f'{nm}: undeclared-{made.value.name}', note=str(made.where))
            return
        S.oblige('exc', square, tag=f'{nm}: non-square-operators-are-refused')
        S.assume(square)
        inv = made.value
        ok = isinstance(inv, Obj) and inv.cls.name == 'InverseOperator'
        S.oblige('post', bool(ok), tag=f'{nm}: is-the-lazy-InverseOperator')
        if not ok:
            return
        S.oblige('post', set(inv.fields) == {'operator', 'config'}, tag=f'{nm}: fields-operator-and-config')
        so = inv.fields.get('operator')
        ok_s = is_z3(so) or isinstance(so, Obj)
        S.oblige('post', bool(ok_s), tag=f'{nm}: stores-an-operator')
        if not ok_s:
            return
        cs, ws, is_, os_ = A.den_of(S.I, so)
        S.oblige('post', z3.And(ws == A.denw(X), cs == A.denc(X), is_ == A.ins(X), os_ == A.outs(X)),
                 tag=f'{nm}: the stored operand denotes A (operator.reduce(): C01)', exact=False)
        S.oblige('post', inv.fields.get('config') is C19.effective(var, before),
                 tag=f'{nm}: stores-the-configuration-current-at-creation (Config.instance())')
        S.oblige('frame', len(st['writes']) == 0 and st['cur'] is before, tag=f'{nm}: writes-no-configuration')
        c, w, i_, o_ = A.den_of(S.I, inv)
        S.oblige('post', z3.And(c == 1 / A.denc(X), w == A.invw(A.denw(X))), tag=f'{nm}: denotes inv(den(A)) (lineax contract, C01)',
                 exact=False)
        ins_ = S.call(S.I.getattr(inv, 'in_structure'), [])
        outs_ = S.call(S.I.getattr(inv, 'out_structure'), [])
        S.oblige('post', z_and(ins_.normal and z_eq(ins_.value, A.outs(X)), outs_.normal and z_eq(outs_.value, A.ins(X))),
                 tag=f'{nm}: structures-swapped')
        # A.I.I: the operand (denotes A)
        back = S.call(S.I.getattr(inv, 'inverse'), [])
        S.oblige('post', back.normal and z_eq(back.value, inv.fields['operator']) is True, tag=f'{nm}: inverse-of-the-inverse-is-the-operand')
        if back.normal:
            cb, wb, ib, ob = A.den_of(S.I, back.value)
            S.oblige('post', z3.And(wb == A.denw(X), cb == A.denc(X), ib == A.ins(X), ob == A.outs(X)),
                     tag=f'{nm}: A.I.I denotes A', exact=False)
    ck.explore(f'{CORE}.InverseOperator.__init__', lazy_init, T, axioms=ax, call_hook=A.plain_call_hook)

    # ------------------------------------------------------------------ AbstractLazyInverseOperator.inverse / I / as_matrix
    lazy_classes = [c for c in P.subclasses(P.cls('AbstractLazyInverseOperator'), concrete_only=True)]

    def lazy_inverse(S):
        S.oracle = {'name': 'closed_forms'}
        ci = lazy_classes[S.choose(len(lazy_classes))]
        X = z3.Const('X', A.Op)
        S.inputs['X'] = X
        inv = S.new(ci.name, operator=X)
        for how in ('inverse', 'I'):
            if how == 'inverse':
                out = S.call(S.I.getattr(inv, 'inverse'), [])
            else:
                out = S.call(PyFunc(lambda interp: interp.getattr(inv, 'I'), 'I'), [])
            S.oblige('post', out.normal and out.value is X, tag=f'{ci.name}.{how}: returns-the-operand (A.I.I is A)',
                     note=str(out.where))
        m = S.call(S.I.getattr(inv, 'as_matrix'), []) if ci.lookup('as_matrix')[0].name == 'AbstractLazyInverseOperator' else None
        if m is not None:
            ok = m.normal and isinstance(m.value, BK.Recorded) and m.value.what == 'jax.numpy.linalg.inv'
            S.oblige('post', bool(ok), tag=f'{ci.name}.as_matrix: returns jnp.linalg.inv(...)')
            if ok:
                S.oblige('post', len(m.value.args) == 1 and not m.value.kwargs and z_eq(m.value.args[0], BK.matof(X)) is True,
                         tag=f'{ci.name}.as_matrix: of the operand\'s as_matrix()')
    ck.explore(f'{CORE}.AbstractLazyInverseOperator.inverse', lazy_inverse, T, axioms=ax)

    # ------------------------------------------------------------------ AbstractLazyInverseOperator.__matmul__
    def lazy_matmul(S):
        S.oracle = {'name': 'closed_forms'}
        a = A.plain_operator(S, 'PackOperator', 'a')
        S.assume(A.ins(a.plain) == A.outs(a.plain))
        S.assume(A.lem_inverse_cancels(A.denw(a.plain), A.denc(a.plain)))      # LA3: a is invertible
        inv = S.new('InverseOperator', operator=a)
        own = S.choose(2) == 0
        other = a if own else A.plain_operator(S, 'PackOperator', 'b')
        out = S.call(PyFunc(lambda interp: interp.binop('MatMult', inv, other), 'A.I @ B'), [])
        ci_, wi_, ii_, oi_ = A.den_of(S.I, inv)
        co, wo, io, oo = A.den_of(S.I, other)
        if own:
            ok = out.normal and isinstance(out.value, Obj) and out.value.cls.name == 'IdentityOperator'
            S.oblige('post', bool(ok), tag='A.I @ A: short-cut to an identity operator', note=str(out.where))
            if ok:
                c, w, i_, o_ = A.den_of(S.I, out.value)
                S.oblige('post', z3.And(w == z3.Concat(wi_, wo), c == ci_ * co), tag='A.I @ A: the identity is the product (LA3)',
                         exact=False)
                S.oblige('post', z3.And(i_ == io, o_ == oi_), tag='A.I @ A: on the structure of A', exact=False)
            return
        match = ii_ == oo
        if out.raised('ValueError'):
            S.oblige('exc', z3.Not(match), tag='A.I @ B: ValueError-only-if-structures-differ')
            return
        ok = out.normal and isinstance(out.value, Obj) and out.value.cls.name == 'CompositionOperator'
        S.oblige('post', bool(ok), tag='A.I @ B: falls-back-to-the-generic-product', note=str(out.where))
        if ok:
            S.oblige('exc', match, tag='A.I @ B: mismatching-structures-are-rejected')
            S.assume(match)
            c, w, i_, o_ = A.den_of(S.I, out.value)
            S.oblige('post', z3.And(w == z3.Concat(wi_, wo), c == ci_ * co), tag='A.I @ B: denotes-the-product', exact=False)
    ck.explore(f'{CORE}.AbstractLazyInverseOperator.__matmul__', lazy_matmul, T, axioms=ax,
               call_hook=A.plain_call_hook)

    # ------------------------------------------------------------------ InverseOperator.mv: wiring of the solve
    def lazy_mv(S):
        S.oracle = {'name': 'lazy_solve'}
        var = C19.the_var(S)
        if var is None:
            return
        st = C19.start_state(S, var, 1)          # some other configuration is active when mv runs
        # ... with options of its own (a dict like any configured one, so that code reading it by mistake still executes)
        st['cur'].fields['solver_options'] = {'active_only': z3.Const('active_only', CX.AnyS)}
        pre_case = S.choose(3)
        precond = z3.Const('preconditioner', CX.AnyS)
        opts = [{}, {'preconditioner': precond}, {'restart': z3.Const('restart', CX.AnyS)}][pre_case]
        S.inputs['options'] = sorted(opts)
        snapshot = dict(opts)
        cfg = C19.sym_config(P, 'captured', {'solver_options': opts})
        X = z3.Const('X', A.Op)
        S.inputs['X'] = X
        inv = S.new('InverseOperator', operator=X, config=cfg)
        x = z3.Const('x', BK.Vec)
        tr = CX.trace(S.I)
        del tr[:]
        reads, nwrites = st['reads'], len(st['writes'])
        out = S.call(S.I.getattr(inv, 'mv'), [x])
        S.oblige('exc', out.normal, tag='mv-returns-normally', note=str(out.where))
        if not out.normal:
            return
        S.oblige('frame', st['reads'] == reads and len(st['writes']) == nwrites,
                 tag='mv-neither-reads-nor-writes-the-active-configuration')
        solves = [r for r in tr if r.what == 'lineax.linear_solve']
        S.oblige('post', len(solves) == 1, tag='mv-calls-linear_solve-once')
        if len(solves) != 1:
            return
        sv = solves[0]
        a_ok = len(sv.args) == 2 and isinstance(sv.args[0], CX.RecordV) and sv.args[0].what == 'lineax.TaggedLinearOperator' \
            and len(sv.args[0].args) == 2 and sv.args[0].args[0] is X and sv.args[0].args[1] == CX.Ext('lineax.positive_semidefinite_tag')
        S.oblige('post', bool(a_ok), tag='solves-with-self.operator-tagged-positive-semidefinite')
        S.oblige('post', len(sv.args) == 2 and sv.args[1] is x, tag='right-hand-side-is-the-input-vector')
        S.oblige('post', set(sv.kwargs) == {'solver', 'throw', 'options'}, tag='keywords-solver-throw-options')
        S.oblige('post', z_eq(sv.kwargs.get('solver'), cfg.fields['solver']), tag='solver-is-self.config.solver')
        S.oblige('post', z_eq(sv.kwargs.get('throw'), cfg.fields['solver_throw']), tag='throw-is-self.config.solver_throw')
        got = sv.kwargs.get('options')
        ok = isinstance(got, dict) and sorted(got) == sorted(snapshot)
        S.oblige('post', bool(ok), tag='options-are-those-of-self.config')
        if ok:
            for k, v in snapshot.items():
                if k == 'preconditioner':
                    g = got[k]
                    S.oblige('post', isinstance(g, CX.RecordV) and g.what == 'lineax.TaggedLinearOperator' and g.args[0] is v,
                             tag='preconditioner-is-the-configured-one (tagged)')
                else:
                    S.oblige('post', z_eq(got[k], v), tag=f'option-{k}-is-the-configured-one')
        S.oblige('frame', got is not opts and sorted(opts) == sorted(snapshot) and all(opts[k] is snapshot[k] for k in opts),
                 tag='the-configured-options-dict-is-copied-not-modified')
        S.oblige('post', out.value is sv.py_getattr(S.I, 'value'), tag='returns-solution.value')
    ck.explore(f'{CORE}.InverseOperator.mv', lazy_mv, T, axioms=ax)

    # ================================================================== diagonal operators
    def bdo_init_contract(interp, fi, args, kwargs):
        """BroadcastDiagonalOperator.__init__ (proved in C11: validates the shapes, normalises an int axis_destination to
        a tuple, stores the three fields).  Here it re-validates the fields of an existing DiagonalOperator: the checks
        are functions of (diagonal, axis_destination, in_structure) alone, so they pass again and the tuple is kept."""
        self_ = args[0]
        interp.run.ghost.setdefault('bdo_init', []).append((self_, args[1:], dict(kwargs)))
        self_.fields['_diagonal'] = args[1]
        self_.fields['axis_destination'] = kwargs.get('axis_destination')
        self_.fields['_in_structure'] = kwargs.get('in_structure')
        return None

    TD = Theory()
    AR.install(TD)

    def diagonal_inverse(S):
        S.oracle = {'name': 'pseudo_inverse'}
        d = S.real('d')
        diag = AR.PArr(d)
        axes = (z3.Int('axis'),)
        struct = PT.ShapeTok('in_structure')
        D = S.new('DiagonalOperator', _diagonal=diag, axis_destination=axes, _in_structure=struct)
        how = S.choose(2)
        if how == 0:
            out = S.call(S.I.getattr(D, 'inverse'), [])
        else:
            out = S.call(PyFunc(lambda interp: interp.getattr(D, 'I'), 'D.I'), [])
        nm = ['D.inverse()', 'D.I'][how]
        ok = out.normal and isinstance(out.value, Obj) and out.value.cls.name == 'DiagonalInverseOperator'
        S.oblige('post', bool(ok), tag=f'{nm}: is-a-DiagonalInverseOperator', note=str(out.where))
        if not ok:
            return
        Di = out.value
        S.oblige('post', Di.fields.get('operator') is D, tag=f'{nm}: the-lazy-inverse-initialiser-ran (operator is D)')
        calls = S.run.ghost.get('bdo_init', [])
        S.oblige('post', len(calls) == 1 and calls[0][0] is Di and len(calls[0][1]) == 1 and
                 set(calls[0][2]) == {'axis_destination', 'in_structure'}, tag=f'{nm}: the-diagonal-initialiser-ran-once')
        S.oblige('post', Di.fields.get('_diagonal') is diag, tag=f'{nm}: same-diagonal-values-stored')
        S.oblige('post', Di.fields.get('axis_destination') is axes, tag=f'{nm}: same-axes')
        S.oblige('post', Di.fields.get('_in_structure') is struct, tag=f'{nm}: same-structure')
        S.oblige('post', set(Di.fields) == {'operator', '_diagonal', 'axis_destination', '_in_structure'}, tag=f'{nm}: no-other-field')
        # the effective diagonal: Moore-Penrose pseudo-inverse, element by element
        dv = S.call(PyFunc(lambda interp: interp.getattr(Di, 'diagonal'), 'diagonal'), [])
        good = dv.normal and isinstance(dv.value, AR.PArr)
        S.oblige('post', bool(good), tag=f'{nm}: diagonal-is-element-wise')
        if good:
            v = dv.value.term
            S.oblige('post', d * v * d == d, tag=f'{nm}: d*v*d = d')
            S.oblige('post', v * d * v == v, tag=f'{nm}: v*d*v = v')
            S.oblige('post', z3.Implies(d == 0, v == 0), tag=f'{nm}: zero-entries-map-to-zero (1/0 is never the selected value)')
            S.oblige('post', z3.Implies(d != 0, v * d == 1), tag=f'{nm}: non-zero-entries-are-inverted')
        # the plain DiagonalOperator keeps its values
        dd = S.call(PyFunc(lambda interp: interp.getattr(D, 'diagonal'), 'diagonal'), [])
        S.oblige('post', dd.normal and dd.value is diag, tag=f'{nm}: D.diagonal-is-the-stored-array')
        for hw in ('inverse', 'I'):
            back = S.call(S.I.getattr(Di, 'inverse'), []) if hw == 'inverse' else \
                S.call(PyFunc(lambda interp: interp.getattr(Di, 'I'), 'I'), [])
            S.oblige('post', back.normal and back.value is D, tag=f'{nm}: D.I.{hw} is D')
    ck.explore(f'{DG}.DiagonalInverseOperator.__init__', diagonal_inverse, TD,
               contracts={f'{DG}.BroadcastDiagonalOperator.__init__': bdo_init_contract})

    # ================================================================== orthogonal: inverse is transpose (class table)
    def orthogonal_wiring(S):
        S.oracle = {'name': 'closed_forms'}
        root = P.cls(f'{CORE}.AbstractLinearOperator')
        n = 0
        for ci in P.subclasses(root, concrete_only=False):
            deco = [c for c in ci.mro if any(ast.unparse(d) == 'orthogonal' for d in c.decorators)]
            if not deco:
                continue
            n += 1
            S.oblige('post', C08.same_function(C08.resolved(ci, 'inverse'), C08.resolved(ci, 'transpose')),
                     tag=f'{ci.name}: inverse is transpose (same function)')
        S.oblige('post', n >= 3, tag='orthogonal-classes-found')
        # the lazy transpose of an orthogonal operator: its inverse is its operand (R.T.I is R, R.I.I is R)
        X = z3.Const('X', A.Op)
        t = S.new('AbstractLazyInverseOrthogonalOperator', operator=X)
        for hw in ('inverse', 'transpose'):
            out = S.call(S.I.getattr(t, hw), [])
            S.oblige('post', out.normal and out.value is X, tag=f'AbstractLazyInverseOrthogonalOperator.{hw}() is the operand')
    ck.explore(f'{CORE}.orthogonal', orthogonal_wiring, T, axioms=ax)

    # ================================================================== BlockDiagonalOperator.inverse (shared with C10)
    C10.inverse_scenario(ck, BK.BlockTheory(P), oracle={'name': 'block_family'}, twice=True)

    # ================================================================== the configuration the lazy inverse captures (C19)
    # "solver settings": what Config.instance() returns at creation is the configuration built by Config(**kw) from the
    # active one (outer settings inherited, named ones overridden) and restored on exit.  Those contracts live in the C19
    # pack; its scenarios over furax._base.config.Config are re-run here by reference as obligations of this check.
    from props import C19
    ck.include(C19.build, 'C19', lambda fn: fn.startswith('furax._base.config.Config.'))


"""C15 — polarimetry operators realise their Mueller matrices (pack; `point` facet).

Every obligation comes from executing the REAL bodies of furax.operators.{hwp,qu_rotations,polarizers},
furax._base.core (`@`, `.T`, the class decorators), furax._base.rules.AbstractBinaryRule.check and
furax.landscapes.StokesPyTree.class_for/structure_for on a generic element with free real Stokes components and
free real angles."""
from __future__ import annotations

import z3

from pyvc import builtins_model as B
from pyvc.values import ClassRef, Ext, Obj, z_and
from theories import point as PT
from theories.point import ArrV, KINDS, STOKES, comp, f_cos, f_sin, stokes_obj, stokes_struct

from ._stokes_common import check_structure, class_for_scenarios, structure_for_scenarios

QR = 'furax.operators.qu_rotations'
HW = 'furax.operators.hwp'
PO = 'furax.operators.polarizers'
OPS = ('QURotationOperator', 'QURotationTransposeOperator', 'HWPOperator', 'LinearPolarizerOperator',
       'CompositionOperator', 'IdentityOperator')


def decorate(S):
    for n in OPS:
        PT.apply_class_decorators(S.I, S.ck.P.cls(n))


# ------------------------------------------------------------------------------------------ explicit Mueller actions
def hwp_ref(x: dict):
    return {c: (-v if c in ('u', 'v') else v) for c, v in x.items()}


def rot_ref(x: dict, c2, s2):
    """rotation of (Q, U) by the angle whose doubled cosine / sine are c2, s2"""
    out = dict(x)
    if 'q' in x:
        out['q'] = x['q'] * c2 - x['u'] * s2
        out['u'] = x['q'] * s2 + x['u'] * c2
    return out


def pol_ref(x: dict):
    if 'i' in x and 'q' in x:
        return (x['i'] + x['q']) / 2
    if 'i' in x:
        return x['i'] / 2
    return x['q'] / 2


def comps_of(o):
    return {c: comp(o, c) for c in o.fields}


def mk_rot(S, angle, struct):
    return S.new('QURotationOperator', angles=ArrV(angle), _in_structure=struct)


def mk_rot_T(S, angle, struct):
    return S.new('QURotationTransposeOperator', operator=mk_rot(S, angle, struct))


def mv(S, op, x):
    return S.call(S.I.getattr(op, 'mv'), [x])


def oblige_stokes(S, got, like, expected: dict, what):
    """component-wise equality of a returned Stokes container with an explicit reference"""
    ok = isinstance(got, Obj) and got.cls is like.cls and tuple(got.fields) == tuple(like.fields) and all(
        isinstance(v, ArrV) for v in got.fields.values())
    S.oblige('post', bool(ok), tag=f'{what}:returns-the-same-stokes-class')
    if ok:
        for c in like.fields:
            S.oblige('post', comp(got, c) == expected[c], tag=f'{what}:component-{c}')
    return ok


def build(ck):
    T = PT.theory()
    P = ck.P
    ck.trust('lemma:LA7 ground instances of angle addition/subtraction, cos^2+sin^2=1, cos(-t)=cos t, sin(-t)=-sin t '
             'for the doubled angle terms that occur')
    ck.assume_note('C15: arrays are one generic real element (element-wise code under broadcasting); angle arrays '
                   'broadcast against the Stokes components (shapes that enlarge the data are C05\'s requires)')
    ck.assume_note('C15: "before and after reduction" is the reduce() contract of C01 (rule soundness proved here is '
                   'its per-rule premise)')

    # ================================================================== mv: the four operators x four Stokes classes
    def mv_scenario(opname, kind):
        def sc(S):
            S.oracle = {'name': 'mv', 'op': opname, 'stokes': kind}
            decorate(S)
            a = S.real('a')
            x = stokes_obj(S, kind, 'x')
            xs = comps_of(x)
            struct = stokes_struct(S, kind)
            c2, s2 = f_cos(2 * a), f_sin(2 * a)
            if opname == 'hwp':
                op = S.new('HWPOperator', _in_structure=struct)
                out = mv(S, op, x)
                if not out.normal:
                    S.oblige('exc', False, tag=f'no-exception-{out.value.name}')
                    return
                oblige_stokes(S, out.value, x, hwp_ref(xs), 'hwp')
                t = S.call(S.I.getattr(op, 'transpose'), [])
                S.oblige('post', t.normal and t.value is op, tag='hwp:is-its-own-transpose')
            elif opname == 'rot':
                op = mk_rot(S, a, struct)
                out = mv(S, op, x)
                if not out.normal:
                    S.oblige('exc', False, tag=f'no-exception-{out.value.name}')
                    return
                oblige_stokes(S, out.value, x, rot_ref(xs, c2, s2), 'rot')
            elif opname == 'rotT':
                rot = mk_rot(S, a, struct)
                t = S.call(S.I.getattr(rot, 'transpose'), [])       # the real QURotationOperator.transpose
                ok = t.normal and isinstance(t.value, Obj) and t.value.cls.name == 'QURotationTransposeOperator' \
                    and t.value.fields.get('operator') is rot
                S.oblige('post', bool(ok), tag='rotT:transpose-wraps-the-rotation')
                if not ok:
                    return
                op = t.value
                out = mv(S, op, x)
                if not out.normal:
                    S.oblige('exc', False, tag=f'no-exception-{out.value.name}')
                    return
                # explicit matrix of the rotation by -a written with c2 = cos 2a, s2 = sin 2a
                oblige_stokes(S, out.value, x, rot_ref(xs, c2, -s2), 'rotT')
                # ... equals the real rotation operator built on the angle -a (LA7 parity instances)
                for ax in PT.trig_instances([2 * a]):
                    S.assume(ax)
                neg = mv(S, mk_rot(S, -a, struct), x)
                if neg.normal:
                    oblige_stokes(S, out.value, x, comps_of(neg.value), 'rotT-equals-rotation-by-minus-a')
                else:
                    S.oblige('exc', False, tag=f'no-exception-{neg.value.name}')
                # adjointness as a polynomial identity: <R x, y> = <x, R^T y>
                y = stokes_obj(S, kind, 'y')
                rx, rty = mv(S, rot, x), mv(S, op, y)
                if rx.normal and rty.normal:
                    lhs = sum(comp(rx.value, c) * comp(y, c) for c in x.fields)
                    rhs = sum(comp(x, c) * comp(rty.value, c) for c in x.fields)
                    S.oblige('post', lhs == rhs, tag='rotT:adjoint-identity')
                tt = S.call(S.I.getattr(op, 'transpose'), [])
                S.oblige('post', tt.normal and tt.value is rot, tag='rotT:transpose-of-transpose-is-the-rotation')
            else:
                op = S.new('LinearPolarizerOperator', _in_structure=struct)
                out = mv(S, op, x)
                if not out.normal:
                    S.oblige('exc', False, tag=f'no-exception-{out.value.name}')
                    return
                ok = isinstance(out.value, ArrV)
                S.oblige('post', ok, tag='pol:returns-one-array')
                if ok:
                    S.oblige('post', out.value.term == pol_ref(xs), tag='pol:half-of-I-plus-Q')
        return sc
    fn = {'hwp': f'{HW}.HWPOperator.mv', 'rot': f'{QR}.QURotationOperator.mv',
          'rotT': f'{QR}.QURotationTransposeOperator.mv', 'pol': f'{PO}.LinearPolarizerOperator.mv'}
    for opname in ('hwp', 'rot', 'rotT', 'pol'):
        for kind in KINDS:
            ck.explore(fn[opname], mv_scenario(opname, kind), T, label=kind)

    # ================================================================== QURotationRule: four direct/transposed combos
    combos = {'RR': (False, False, lambda a, b: a + b), 'RT': (False, True, lambda a, b: a - b),
              'TR': (True, False, lambda a, b: b - a), 'TT': (True, True, lambda a, b: -a - b)}

    def rot_rule(combo, kind):
        lt, rt, angle = combos[combo]

        def sc(S):
            S.oracle = {'name': 'rules', 'rule': 'rot', 'combo': combo, 'stokes': kind}
            decorate(S)
            a, b = S.real('a'), S.real('b')
            x = stokes_obj(S, kind, 'x')
            ls, rs = stokes_struct(S, kind), stokes_struct(S, kind)
            left = (mk_rot_T if lt else mk_rot)(S, a, ls)
            right = (mk_rot_T if rt else mk_rot)(S, b, rs)
            rule = Obj(P.cls('QURotationRule'))
            chk = S.call(S.I.getattr(rule, 'check'), [left, right])
            S.oblige('post', chk.normal, tag='check-accepts')
            out = S.call(S.I.getattr(rule, 'apply'), [left, right])
            ok = out.normal and isinstance(out.value, B.PyList) and out.value.seq is None and len(out.value.items) == 1 \
                and isinstance(out.value.items[0], Obj) and out.value.items[0].cls.name == 'QURotationOperator'
            S.oblige('post', bool(ok), tag='rewrites-to-one-rotation')
            if not ok:
                return
            new = out.value.items[0]
            S.oblige('post', new.fields.get('_in_structure') is rs, tag='keeps-the-right-operand-input-structure')
            ang = new.fields.get('angles')
            if kind != 'I':         # on I alone every rotation is the identity: the angle is not observable
                S.oblige('post', isinstance(ang, ArrV) and ang.term == angle(a, b), tag='angle-bookkeeping')
            inner = mv(S, right, x)
            lhs = mv(S, left, inner.value) if inner.normal else inner
            rhs = mv(S, new, x)
            if not (lhs.normal and rhs.normal):
                S.oblige('exc', False, tag='no-exception-in-mv')
                return
            for ax in PT.trig_instances([2 * a, 2 * b]):
                S.assume(ax)
            oblige_stokes(S, rhs.value, x, comps_of(lhs.value), 'left.mv(right.mv(x))==new.mv(x)')
        return sc
    for combo in combos:
        for kind in KINDS:
            ck.explore(f'{QR}.QURotationRule.apply', rot_rule(combo, kind), T, label=f'{combo}-{kind}')

    # ================================================================== QURotationHWPRule: R(a) HWP = HWP R(-a)
    def hwp_rule(transposed, kind):
        def sc(S):
            S.oracle = {'name': 'rules', 'rule': 'hwp', 'combo': 'T' if transposed else 'R', 'stokes': kind}
            decorate(S)
            a = S.real('a')
            x = stokes_obj(S, kind, 'x')
            struct = stokes_struct(S, kind)
            left = (mk_rot_T if transposed else mk_rot)(S, a, struct)
            right = S.new('HWPOperator', _in_structure=struct)
            rule = Obj(P.cls('QURotationHWPRule'))
            chk = S.call(S.I.getattr(rule, 'check'), [left, right])
            S.oblige('post', chk.normal, tag='check-accepts')
            out = S.call(S.I.getattr(rule, 'apply'), [left, right])
            ok = out.normal and isinstance(out.value, B.PyList) and out.value.seq is None and len(out.value.items) == 2 \
                and all(isinstance(o, Obj) for o in out.value.items)
            S.oblige('post', bool(ok), tag='rewrites-to-two-operators')
            if not ok:
                return
            n0, n1 = out.value.items
            if kind != 'I':         # on I alone rotations are identities: which rotation is returned is not observable
                S.oblige('post', n0 is right, tag='hwp-moves-to-the-left')
                if transposed:
                    S.oblige('post', n1 is left.fields['operator'], tag='transposed-rotation-becomes-the-rotation')
                else:
                    S.oblige('post', n1.cls.name == 'QURotationTransposeOperator' and n1.fields.get('operator') is left,
                             tag='rotation-becomes-its-transpose')
            inner = mv(S, right, x)
            lhs = mv(S, left, inner.value) if inner.normal else inner
            inner2 = mv(S, n1, x)
            rhs = mv(S, n0, inner2.value) if inner2.normal else inner2
            if not (lhs.normal and rhs.normal):
                S.oblige('exc', False, tag='no-exception-in-mv')
                return
            oblige_stokes(S, rhs.value, x, comps_of(lhs.value), 'left.mv(hwp.mv(x))==hwp.mv(new.mv(x))')
        return sc
    for transposed in (False, True):
        for kind in KINDS:
            ck.explore(f'{HW}.QURotationHWPRule.apply', hwp_rule(transposed, kind), T,
                       label=f'{"T" if transposed else "R"}-{kind}')

    # ================================================================== LinearPolarizerHWPRule: Pol HWP = Pol
    def pol_rule(kind):
        def sc(S):
            S.oracle = {'name': 'rules', 'rule': 'pol', 'stokes': kind}
            decorate(S)
            x = stokes_obj(S, kind, 'x')
            struct = stokes_struct(S, kind)
            left = S.new('LinearPolarizerOperator', _in_structure=struct)
            right = S.new('HWPOperator', _in_structure=struct)
            rule = Obj(P.cls('LinearPolarizerHWPRule'))
            chk = S.call(S.I.getattr(rule, 'check'), [left, right])
            S.oblige('post', chk.normal, tag='check-accepts')
            out = S.call(S.I.getattr(rule, 'apply'), [left, right])
            ok = out.normal and isinstance(out.value, B.PyList) and out.value.seq is None and len(out.value.items) == 1
            S.oblige('post', bool(ok), tag='rewrites-to-one-operator')
            if not ok:
                return
            S.oblige('post', out.value.items[0] is left, tag='keeps-the-polariser')
            inner = mv(S, right, x)
            lhs = mv(S, left, inner.value) if inner.normal else inner
            rhs = mv(S, out.value.items[0], x)
            ok = lhs.normal and rhs.normal and isinstance(lhs.value, ArrV) and isinstance(rhs.value, ArrV)
            S.oblige('post', bool(ok), tag='both-sides-return-one-array')
            if ok:
                S.oblige('post', lhs.value.term == rhs.value.term, tag='pol.mv(hwp.mv(x))==pol.mv(x)')
        return sc
    for kind in KINDS:
        ck.explore(f'{PO}.LinearPolarizerHWPRule.apply', pol_rule(kind), T, label=kind)

    # ================================================================== AbstractBinaryRule.check: documented pairs only
    documented = {
        'QURotationRule': (('QURotationOperator', 'QURotationTransposeOperator'),
                           ('QURotationOperator', 'QURotationTransposeOperator')),
        'QURotationHWPRule': (('QURotationOperator', 'QURotationTransposeOperator'), ('HWPOperator',)),
        'LinearPolarizerHWPRule': (('LinearPolarizerOperator',), ('HWPOperator',)),
    }

    def check_table(rulename):
        def sc(S):
            S.oracle = {'name': 'check_table', 'rule': rulename}
            base = P.cls('furax._base.core.AbstractLinearOperator')
            classes = [c for c in P.subclasses(base, concrete_only=True)]
            lefts, rights = documented[rulename]
            rule = Obj(P.cls(rulename))
            wrongly_refused, wrongly_accepted, accepted = [], [], 0
            for lc in classes:
                for rc in classes:
                    left, right = Obj(lc), Obj(rc)
                    # operands carry an `operator` field where the class has one (TransposeOperator tests read it)
                    for o in (left, right):
                        if any(f.name == 'operator' for f in o.cls.all_fields()):
                            o.fields['operator'] = Obj(P.cls('IdentityOperator'))
                    out = S.call(S.I.getattr(rule, 'check'), [left, right])
                    expect = any(P.cls(n) in lc.mro for n in lefts) and any(P.cls(n) in rc.mro for n in rights)
                    if out.normal:
                        accepted += 1
                        if not expect:
                            wrongly_accepted.append((lc.name, rc.name))
                    elif out.raised('NoReduction'):
                        if expect:
                            wrongly_refused.append((lc.name, rc.name))
                    else:
                        wrongly_refused.append((lc.name, rc.name, out.value.name))
            S.inputs['classes'] = len(classes)
            S.oblige('post', not wrongly_refused, tag='accepts-every-documented-class-pair',
                     note=f'refused: {wrongly_refused[:4]}')
            S.oblige('post', not wrongly_accepted, tag='refuses-every-other-class-pair-with-NoReduction',
                     note=f'accepted: {wrongly_accepted[:4]}')
            S.oblige('post', accepted == sum(1 for lc in classes for rc in classes
                                             if any(P.cls(n) in lc.mro for n in lefts)
                                             and any(P.cls(n) in rc.mro for n in rights)) and accepted >= 1,
                     tag='accepted-set-is-exactly-the-documented-one')
        return sc
    for rulename in documented:
        ck.explore('furax._base.rules.AbstractBinaryRule.check', check_table(rulename), T, label=rulename)

    # ================================================================== factories
    def factory(which, kind, with_angles, defaults=False):
        def sc(S):
            S.oracle = {'name': 'factories', 'factory': which, 'stokes': kind, 'angles': with_angles}
            decorate(S)
            a = S.real('a')
            ang = ArrV(a)
            x = stokes_obj(S, kind, 'x')
            xs = comps_of(x)
            shape = PT.ShapeTok('shape')
            dtype = z3.Const('dtype', PT.DT)
            cls = ClassRef(P.cls({'hwp': 'HWPOperator', 'pol': 'LinearPolarizerOperator', 'rot': 'QURotationOperator'}[which]))
            kw = {'angles': ang} if with_angles else {}
            if defaults:
                out = S.call(S.I.getattr(cls, 'create'), [shape], kw)
                edtype = Ext('numpy.float64')
            else:
                out = S.call(S.I.getattr(cls, 'create'), [shape, dtype, kind], kw)
                edtype = dtype
            if which == 'rot' and not with_angles:
                S.oblige('exc', out.raised('TypeError'), tag='angles-are-mandatory')
                return
            if not out.normal:
                S.oblige('exc', False, tag=f'no-exception-{out.value.name}')
                return
            op = out.value
            c2, s2 = f_cos(2 * a), f_sin(2 * a)

            def is_op(o, name):
                return isinstance(o, Obj) and o.cls.name == name

            def structure_ok(o, what):
                st = S.call(S.I.getattr(o, 'in_structure'), [])
                if not st.normal:
                    S.oblige('exc', False, tag=f'{what}-in_structure-raises')
                    return
                check_structure(S, st.value, kind, shape, edtype, what=f'{what}-input-structure')

            if which == 'rot':
                ok = is_op(op, 'QURotationOperator') and op.fields.get('angles') is ang
                S.oblige('post', bool(ok), tag='returns-the-rotation-by-the-given-angles')
                if ok:
                    structure_ok(op, 'rotation')
                    r = mv(S, op, x)
                    if r.normal:
                        oblige_stokes(S, r.value, x, rot_ref(xs, c2, s2), 'create(...).mv')
                return
            plain = 'HWPOperator' if which == 'hwp' else 'LinearPolarizerOperator'
            if not with_angles:
                S.oblige('post', is_op(op, plain), tag=f'without-angles-returns-the-plain-{plain}')
                if is_op(op, plain):
                    structure_ok(op, 'operator')
                return
            n = 3 if which == 'hwp' else 2
            ok = is_op(op, 'CompositionOperator') and isinstance(op.fields.get('operands'), B.PyList) and \
                op.fields['operands'].seq is None and len(op.fields['operands'].items) == n
            S.oblige('post', bool(ok), tag=f'returns-a-composition-of-{n}-operators')
            if not ok:
                return
            ops = op.fields['operands'].items
            if which == 'hwp':
                t, h, r = ops
                if kind != 'I':     # the order of the factors is not observable on I alone
                    S.oblige('post', is_op(r, 'QURotationOperator') and r.fields.get('angles') is ang,
                             tag='rightmost-is-the-rotation-by-the-given-angles')
                    S.oblige('post', is_op(h, 'HWPOperator'), tag='middle-is-the-half-wave-plate')
                    S.oblige('post', is_op(t, 'QURotationTransposeOperator') and t.fields.get('operator') is r,
                             tag='leftmost-is-the-transpose-of-that-rotation')
                for o, w in ((r, 'rotation'), (h, 'hwp')):
                    if isinstance(o, Obj):
                        structure_ok(o, w)
                res = mv(S, op, x)        # CompositionOperator.mv, real body
                if res.normal:
                    ref = rot_ref(hwp_ref(rot_ref(xs, c2, s2)), c2, -s2)
                    oblige_stokes(S, res.value, x, ref, 'create(...).mv==R(-a)·HWP·R(a)')
                else:
                    S.oblige('exc', False, tag=f'mv-raises-{res.value.name}')
            else:
                p, r = ops
                if kind != 'I':
                    S.oblige('post', is_op(r, 'QURotationOperator') and r.fields.get('angles') is ang,
                             tag='rightmost-is-the-rotation-by-the-given-angles')
                S.oblige('post', is_op(p, 'LinearPolarizerOperator'), tag='leftmost-is-the-polariser')
                for o, w in ((r, 'rotation'), (p, 'polariser')):
                    if isinstance(o, Obj):
                        structure_ok(o, w)
                res = mv(S, op, x)
                ok = res.normal and isinstance(res.value, ArrV)
                S.oblige('post', bool(ok), tag='mv-returns-one-array')
                if ok:
                    S.oblige('post', res.value.term == pol_ref(rot_ref(xs, c2, s2)), tag='create(...).mv==Pol·R(a)')
        return sc
    names = {'hwp': f'{HW}.HWPOperator.create', 'pol': f'{PO}.LinearPolarizerOperator.create',
             'rot': f'{QR}.QURotationOperator.create'}
    for which in ('hwp', 'pol', 'rot'):
        for kind in KINDS:
            for with_angles in (True, False):
                if which == 'rot' and not with_angles and kind != 'IQU':
                    continue
                ck.explore(names[which], factory(which, kind, with_angles), T,
                           label=f'{kind}-{"angles" if with_angles else "plain"}')
        ck.explore(names[which], factory(which, 'IQU', True, defaults=True), T, label='defaults')

    # ================================================================== class_for / structure_for
    class_for_scenarios(ck, T)
    structure_for_scenarios(ck, T)

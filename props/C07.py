"""C07 — reduction reaches the documented normal form in every context."""
from __future__ import annotations

import z3

from props import driver
from pyvc import builtins_model as B
from pyvc.theory import Theory
from pyvc.values import ClassRef, Obj, fresh_int, to_z3, z_and, z_eq, z_not
from theories import alg as A

RULES = 'furax._base.rules'
CORE = 'furax._base.core'
ORACLE = {'name': 'normal_form_family'}


def registered_rules(ck):
    """the binary-rule registry computed by executing the real AbstractBinaryRule.__init_subclass__ for every
    subclass in the class table (in the import order Python follows: `import furax` first, then the remaining modules alphabetically)"""
    from pyvc.interp import Interp
    from pyvc.run import Run
    P = ck.P
    base = P.cls('AbstractBinaryRule')
    run = Run([])
    I = Interp(P, run, Theory())
    I.obl_prefix = 'C07/registry'
    I.cur_name = lambda: I.obl_prefix
    reg = I.module_global(P.modules['furax._base.rules'], 'BINARY_RULE_REGISTRY')
    hook = base.methods['__init_subclass__']
    names = []
    from props.C08 import import_order
    for ev in import_order(P):                  # classes are created in import order (furax/__init__ first)
        if ev[0] != 'class':
            continue
        ci = ev[1]
        if ci is base or base not in ci.mro:
            continue
        I.call_funcinfo(hook, [ClassRef(ci)], {})
    items = reg.fields['_registry']
    for o in I.iter_concrete(items):
        names.append(o.cls.name)
    return names


def build(ck):
    T = A.AlgTheory(ck.P)
    P = ck.P
    ck.trust('lemma:LA1 scalars are central (coefficient factored out of the word)',
             'lemma:W-fold (split/single/pair/empty/congruence of the product of a slice; induction)',
             'lemma:filter-preserves-product (dropping neutral square factors from a chain; induction)',
             'proved:selection lemmas of a filtering comprehension (bounds, kept prefix, kept suffix: obligations '
             'lemma-base/lemma-step of this check)',
             'lemma:potential is not raised by dropping operators from a chain (IdentityRule contract; termination only)')
    ck.assume_note('C07: operands of the scan are already reduced (CompositionOperator.reduce reduces them first: C01)')
    ck.assume_note('C07: documented patterns are read in the narrowest sense the wording supports (DESIGN §4 C07)')
    # ---- the scan: NF1 (no adjacent reducible pair), NF2 (scalar placement), for any rule set
    driver.scan(ck, T, 'C07')
    driver.rules_scenarios(ck, T, 'C07')
    from props import lemmas
    lemmas.selection_lemmas(ck)     # the selection lemmas behind IdentityRule's prefix / suffix clauses, by induction

    # ---- "operands of the scan are already reduced", "regardless of the neighbouring operators": the reduce() of every
    # composite hands its parts on in REDUCED form (a part left unreduced keeps its patterns alive inside the chain)
    red_axioms = driver.size_axioms() + A.reduce_axioms()

    def parts_are_reduced(S, parts, a0, n0, what):
        arr = A.arr_of(S.run, parts)
        k = z3.Int('part_position')
        S.assume(z3.And(0 <= k, k < n0))
        S.oblige('post', z_eq(parts.length, n0), tag=f'{what}:one-part-per-operand')
        S.oblige('post', arr[k] == A.reduced(a0[k]), tag=f'{what}:every-part-is-the-reduced-operand (generic position)')

    def addition_parts(S):
        S.oracle = driver.ORACLE['C07']
        ops = S.seq('operands', kind='list', sort=A.Op)
        n0, a0 = to_z3(ops.length), ops.arr
        S.assume(n0 >= 1)       # (no quantified hypothesis here: these statements are refutable by the solver as they stand)
        o = S.new('AdditionOperator', operands=B.PyList(None, seq=ops))
        out = S.call(S.I.getattr(o, 'reduce'), [])
        if not out.normal:
            return                                  # (exceptions: C01)
        r = out.value
        if isinstance(r, Obj) and r.cls.name == 'AdditionOperator':
            parts_are_reduced(S, B.as_seq(S.I, r.fields['operands']), a0, n0, 'sum')
        else:
            # a sum of one term reduces to that term — in reduced form
            S.oblige('post', n0 == 1, tag='sum:collapses-only-when-it-has-one-term')
            S.oblige('post', A.to_op(S.I, r) == A.reduced(a0[0]), tag='sum-of-one-term:is-the-REDUCED-term')
    ck.explore(f'{CORE}.AdditionOperator.reduce', addition_parts, T, label='parts-reduced', axioms=[])

    def composition_parts(S):
        S.oracle = driver.ORACLE['C07']
        ops = S.seq('operands', kind='list', sort=A.Op)
        n0, a0 = to_z3(ops.length), ops.arr
        S.assume(n0 >= 1)
        seen = {}

        def scan_contract(interp, fi, args, kwargs):
            seen['operands'] = B.as_seq(interp, args[-1])
            return args[-1]
        S.I.contracts = {f'{RULES}.AlgebraicReductionRule.apply': scan_contract}
        o = S.new('CompositionOperator', operands=B.PyList(None, seq=ops))
        out = S.call(S.I.getattr(o, 'reduce'), [])
        if not out.normal:
            return
        S.oblige('post', 'operands' in seen, tag='composition:the-scan-is-run')
        if 'operands' in seen:
            parts_are_reduced(S, seen['operands'], a0, n0, 'composition:the-scan-receives')
    ck.explore(f'{CORE}.CompositionOperator.reduce', composition_parts, T, label='parts-reduced', axioms=[])

    # ---- the registry: every concrete rule class is registered (executing the real __init_subclass__)
    try:
        reg = registered_rules(ck)
    except Exception as e:          # noqa: BLE001
        ck.errors.append(f'registry computation failed: {e!r}')
        reg = []
    base = P.cls('AbstractBinaryRule')
    concrete = sorted(c.name for c in P.classes.values() if base in c.mro and c is not base
                      and not c.name.startswith('Abstract'))
    ck.samples.append({'registry': reg})

    def registry(S):
        for name in concrete:
            S.oblige('post', name in reg, tag=f'{name}-is-registered')
        S.oblige('post', len(reg) == len(set(reg)), tag='no-rule-registered-twice')
    ck.explore(f'{RULES}.AbstractBinaryRule.__init_subclass__', registry, T)

    # ---- pattern lemmas: pattern(l, r) => some registered rule's check passes and apply succeeds
    axioms = driver.size_axioms() + A.reduce_axioms() + T.class_axioms()
    lazy_classes = [c for c in P.subclasses(P.cls('AbstractLazyInverseOperator'), concrete_only=True)]

    def inverse_pattern(S):
        S.oracle = ORACLE
        X = z3.Const('X', A.Op)
        ci = lazy_classes[S.choose(len(lazy_classes))]
        side = S.choose(2)
        inv = S.new(ci.name, operator=X)
        left, right = (inv, X) if side == 0 else (X, inv)
        # narrowest reading: X is an ordinary (already reduced) operator, not itself a lazy inverse wrapper
        S.assume(z_not(T.op_isinstance(S.I, X, ClassRef(P.cls('AbstractLazyInverseOperator')))))
        rule = Obj(P.cls('InverseBinaryRule'))
        chk = S.call(S.I.getattr(rule, 'check'), [left, right])
        S.oblige('post', chk.normal, tag=f'{ci.name}:{"inverse-left" if side == 0 else "inverse-right"}:check-passes')
        out = S.call(S.I.getattr(rule, 'apply'), [left, right])
        S.oblige('post', out.normal, tag=f'{ci.name}:{"inverse-left" if side == 0 else "inverse-right"}:apply-succeeds')
    ck.explore(f'{RULES}.InverseBinaryRule.check', inverse_pattern, T, axioms=axioms, label='pattern')

    # an operator next to its own lazy inverse must VANISH: no rule tried before InverseBinaryRule may accept such a pair
    # (the scan applies the first applicable rule in registration order)
    op_classes = [c for c in P.subclasses(P.cls('AbstractLinearOperator'), concrete_only=True)]
    earlier = reg[:reg.index('InverseBinaryRule')] if 'InverseBinaryRule' in reg else list(reg)

    def inverse_priority(S):
        S.oracle = ORACLE
        S.oblige('post', 'InverseBinaryRule' in reg, tag='InverseBinaryRule-is-registered')
        if not earlier:
            return
        rname = earlier[S.choose(len(earlier))]
        ci = lazy_classes[S.choose(len(lazy_classes))]
        xc = op_classes[S.choose(len(op_classes))]
        side = S.choose(2)
        # only well-typed pairs: the lazy-inverse class must be able to wrap an operator of class xc
        ann = [f.annotation for f in ci.all_fields() if f.name == 'operator']
        want = ann[-1].strip("'\"") if ann else 'AbstractLinearOperator'
        try:
            wcls = P.cls(want.split('|')[0].strip())
        except KeyError:
            wcls = P.cls('AbstractLinearOperator')
        if wcls not in xc.mro:
            return
        if ci.name == 'AbstractLazyInverseOrthogonalOperator':
            from props.C08 import resolved, same_function
            if not same_function(resolved(xc, 'inverse'), resolved(xc, 'transpose')):
                return          # X.I is this class only for orthogonal-decorated X
        if ci.name == 'DiagonalInverseOperator' and P.cls('DiagonalOperator') not in xc.mro:
            return
        X = S.new(xc.name)
        inv = S.new(ci.name, operator=X)
        left, right = (inv, X) if side == 0 else (X, inv)
        rule = Obj(P.cls(rname))
        chk = S.call(S.I.getattr(rule, 'check'), [left, right])
        S.oblige('post', chk.raised('NoReduction'),
                 tag=f'{rname}-registered-before-InverseBinaryRule-declines-({ci.name} of a {xc.name}, that operator)'
                     if side == 0 else f'{rname}-registered-before-InverseBinaryRule-declines-(a {xc.name}, its {ci.name})')
    ck.explore(f'{RULES}.InverseBinaryRule.check', inverse_priority, T, axioms=axioms, label='priority')

    # adjacent block operators with the same layout (scenario of C01: check accepts, apply succeeds, product kept)
    from props import C01
    C01.block_rules(ck, T, axioms)

    # move-axis / reshape pairs (scenarios of C13), index / pack pairs (scenarios of C12)
    from props import C13, C12
    from theories import indexing as IX
    C13.build3(ck, C13.theory(), rules_only=True)
    C12.build_rules(ck, IX.theory())
    from props import C15
    C15.build(ck)            # rotation / HWP / polariser patterns: check accepts the documented pairs, apply succeeds

"""C05 — declared input/output structures are honest (facet `struct`: theories/structs.py leaves with symbolic rank /
shape / size, dtypes in the finite model of theories/dtypes.py with the 64-bit flag symbolic, arithmetic of
theories/sarith.py).

For every operator class the property reads  structure(mv(x)) == self.out_structure()  for x matching in_structure().
  (A) `resolution`: decided on the class table AFTER executing the real decorators (props/C08.patch_class_table): which
      function each class's out_structure / in_structure resolves to.  Three groups:
        default   out_structure is AbstractLinearOperator.out_structure = jax.eval_shape(self.mv, self.in_structure()):
                  honest BY THE ASSUMED CONTRACT OF jax.eval_shape (the wiring "eval_shape of self.mv at
                  self.in_structure()" is proved, scenario `default`); these classes are LISTED in the evidence;
        square    the `square` decorator (and those built on it) rewired out_structure to the class's in_structure:
                  obligation "the patched out_structure is the very function in_structure resolves to", and a scenario
                  proving that the REAL mv preserves the structure (B);
        override  an explicit out_structure (sum, composition, lazy dual, blocks, index): scenario (C).
      A class in none of the groups, or without scenario, is reported UNDECIDED.
  (B) real mv bodies of the square classes preserve pytree, leaf shapes and leaf dtypes (both precision modes), under the
      property's own restriction "operator parameters no wider than the data dtype" (requires) and the listed
      well-formedness requires.
  (C) real in_structure / out_structure / mv bodies of the composite classes against honest operands (induction
      hypothesis: the synthetic operand's mv returns arrays of its out_structure()).
  (D) real in_size / out_size / in_promoted_dtype / out_promoted_dtype against the structures.
  (iii) "the reduced operator reports the same structures" is the `ins/outs unchanged` postcondition of every reduce() in
      C01;  SymmetricBandToeplitzOperator (shape and dtype of the four kernels, incl. the repaired overlap_save dtype) is
      C09;  IndexOperator's explicit / inferred _out_structure is C12;  MoveAxisOperator.transpose's in_structure is C13;
      DiagonalOperator's strict shape check is C11 (its real body is executed again here).
"""
from __future__ import annotations

import ast
import os

import z3

from pyvc import builtins_model as B
from pyvc.theory import Theory
from pyvc.values import (BoundMethod, Ext, FuncRef, Obj, PyFunc, SSeq, Unsupported, Value, concrete, fresh_int, to_z3,
                         z_and, z_eq, zbool)
from theories import colmat as CM
from theories import dtypes as D
from theories import pytree as PYT
from theories import sarith as SA
from theories import structs as ST
from theories import synth
from theories import trees as TR

CORE = 'furax._base.core'
BASE = f'{CORE}.AbstractLinearOperator'
STOKES = {'I': ('StokesIPyTree', ('i',)), 'QU': ('StokesQUPyTree', ('q', 'u')),
          'IQU': ('StokesIQUPyTree', ('i', 'q', 'u')), 'IQUV': ('StokesIQUVPyTree', ('i', 'q', 'u', 'v'))}

# classes whose honesty is proved by another pack (the table names the pack; nothing is silently skipped)
MIXED = 'C05-qu-rotation-mixed-dtype-stokes'
ELSEWHERE = {'SymmetricBandToeplitzOperator': 'C09 (shape and dtype of every kernel, both precision modes)',
             'IndexOperator': 'C12 (the _out_structure field: given explicitly, or inferred by eval_shape in the constructor)'}


# ---------------------------------------------------------------------------------------------- structure values
def unlist(v):
    if isinstance(v, B.PyList):
        if v.seq is not None:
            raise Unsupported('symbolic python list as a pytree')
        return list(v.items)
    return v


def struct_eq(a, b):
    """pytree shape, leaf shapes and leaf dtypes of two structure values agree (Bool term / python bool)"""
    a, b = unlist(a), unlist(b)
    if isinstance(a, ST.StructV) and a.single and isinstance(b, ST.LeafV):
        a = a.leaves.get(0)
    if isinstance(b, ST.StructV) and b.single and isinstance(a, ST.LeafV):
        b = b.leaves.get(0)
    if isinstance(a, ST.LeafV) and isinstance(b, ST.LeafV):
        return a.same_struct(b)
    if isinstance(a, ST.StructV) and isinstance(b, ST.StructV):
        return a.sym_eq(b)
    if isinstance(a, Obj) and isinstance(b, Obj):
        if a.cls is not b.cls or list(a.fields) != list(b.fields):
            return False
        return z_and(*[struct_eq(a.fields[k], b.fields[k]) for k in a.fields])
    if isinstance(a, (list, tuple)) and isinstance(b, (list, tuple)):
        if type(a) is not type(b) or len(a) != len(b):
            return False
        return z_and(*[struct_eq(x, y) for x, y in zip(a, b)])
    if isinstance(a, dict) and isinstance(b, dict):
        if list(a) != list(b):
            return False
        return z_and(*[struct_eq(a[k], b[k]) for k in a])
    return False


def matching_leaf(S, leaf: ST.LeafV, name):
    """an ARRAY matching the structure leaf: same shape, same dtype (realisable in the current precision mode)"""
    x = SA.SLeaf(z3.Const(name, ST.Leaf))
    S.assume(z3.And(zbool(x.same_struct(leaf)), x.wf(), ST.f_isarray(x.term), z3.Not(SA.f_weak(x.term)),
                    D.realisable(SA.dcode(x)),
                    ST.f_size(x.term) == ST.f_size(leaf.term)))      # equal shapes: equal products (Pprod congruence)
    return x


def matching(S, struct, name='x'):
    """an input pytree matching a declared structure (requires of the property)"""
    struct = unlist(struct)
    if isinstance(struct, ST.LeafV):
        return matching_leaf(S, struct, name)
    if isinstance(struct, ST.StructV):
        if struct.leaves.is_concrete_len():
            items = [matching_leaf(S, lf, f'{name}{i}') for i, lf in enumerate(struct.leaves.py_items())]
            return ST.StructV(SSeq.lift(items, 'list'), struct.treedef, struct.single)
        xs = SSeq.fresh(name + '_leaves', ST.Leaf, SA.SLeaf, 'list', struct.leaves.length)
        k = fresh_int('k')
        xk, sk = xs.get(k), struct.leaves.get(k)
        S.assume(z3.ForAll([k], z3.Implies(z3.And(0 <= k, k < to_z3(xs.length)), z3.And(
            zbool(xk.same_struct(sk)), xk.wf(), z3.Not(SA.f_weak(xk.term)), D.realisable(SA.dcode(xk)),
            ST.f_size(xk.term) == ST.f_size(sk.term)))))
        return ST.StructV(xs, struct.treedef)
    if isinstance(struct, Obj):
        o = Obj(struct.cls)
        for k, v in struct.fields.items():
            o.fields[k] = matching(S, v, f'{name}_{k}')
        return o
    if isinstance(struct, list):
        return B.PyList([matching(S, v, f'{name}{i}') for i, v in enumerate(struct)])
    if isinstance(struct, tuple):
        return tuple(matching(S, v, f'{name}{i}') for i, v in enumerate(struct))
    if isinstance(struct, dict):
        return {k: matching(S, v, f'{name}_{k}') for k, v in struct.items()}
    raise Unsupported(f'structure {struct!r}')


def sds(S, name, realisable=True):
    """a declared ShapeDtypeStruct leaf with symbolic rank / shape / dtype"""
    lf = ST.LeafV(z3.Const(name, ST.Leaf))
    S.assume(z3.And(lf.wf(), z3.Not(ST.f_isarray(lf.term))))
    if realisable:
        S.assume(D.realisable(SA.dcode(lf)))
    return lf


def stokes_structure(S, kind, name='s', same_dtype=True):
    """structure of a Stokes container: the components share one shape (class invariant of StokesPyTree: `.shape` is the
    first component's) and — same_dtype — one dtype (what structure_for / from_stokes build)"""
    clsname, comps = STOKES[kind]
    o = S.new(clsname)
    first = None
    for c in comps:
        lf = sds(S, f'{name}_{c}')
        if first is None:
            first = lf
        else:
            S.assume(zbool(lf.same_struct(first) if same_dtype else lf.shape.eq(first.shape)))
        o.fields[c] = lf
    return o


def oblige_honest(S, op, x, what, requires_normal=True):
    """the core statement: structure(op.mv(x)) == op.out_structure()"""
    outs = S.call(S.I.getattr(op, 'out_structure'), [])
    if not outs.normal:
        S.oblige('exc', False, tag=f'{what}:out_structure()-returns (raises {outs.value.name})')
        return None
    res = S.call(S.I.getattr(op, 'mv'), [x])
    if not res.normal:
        if requires_normal:
            S.oblige('exc', False, tag=f'{what}:mv-accepts-an-input-matching-in_structure (raises {res.value.name})')
        else:
            S.oblige('exc', True, tag=f'{what}:mv-refuses-this-input ({res.value.name}): nothing to compare')
        return None
    S.oblige('post', struct_eq(res.value, outs.value), tag=f'{what}:structure(mv(x))==out_structure()')
    return res.value, outs.value


def _isinstance(interp, v, c):
    """arrays / structures are instances of no operator class; arrays are jax Arrays"""
    if isinstance(v, (ST.LeafV, ST.StructV, SA.CsrV)):
        if isinstance(c, Ext):
            if c.path in ('jax.Array', 'jax.numpy.ndarray', 'jaxtyping.Array') and isinstance(v, ST.LeafV):
                return ST.f_isarray(v.term)
            return False
        from pyvc.values import ClassRef
        if isinstance(c, ClassRef):
            return False
    return None


def theory_struct():
    T = Theory()
    ST.install(T)
    TR.install(T)
    SA.install(T)
    T.isinstance_handlers.append(_isinstance)
    return T


def theory_py():
    T = Theory()
    PYT.install(T)
    SA.install(T)
    T.externals['jax.ShapeDtypeStruct'] = ST.install(Theory()).externals['jax.ShapeDtypeStruct']
    T.isinstance_handlers.append(_isinstance)
    return T


def honest_operand(P):
    """the synthetic operand of composite operators: in_structure() / out_structure() are declared structures, mv returns
    arrays of out_structure() (C05 for the operand: induction hypothesis)"""
    return synth.concrete_subclass(P, P.cls(BASE), 'OtherOperator', extra_methods=('mv', 'in_structure', 'out_structure'))


def operand_contracts(S):
    def mv(interp, fi, args, kwargs):
        o, x = args[0], args[1]
        CM.ob(interp, 'pre', f'operand-{o.tag}-is-applied-to-an-input-matching-its-in_structure',
              struct_eq(x, o.fields['ins']))
        o.fields['napplied'] = o.fields.get('napplied', 0) + 1
        return matching(S, o.fields['outs'], f'y_{o.tag}_{o.fields["napplied"]}')
    return {f'{CORE}.OtherOperator.mv': mv,
            f'{CORE}.OtherOperator.in_structure': lambda interp, fi, args, kwargs: args[0].fields['ins'],
            f'{CORE}.OtherOperator.out_structure': lambda interp, fi, args, kwargs: args[0].fields['outs']}


# ====================================================================== (A) which out_structure every class resolves to
def build_resolution(ck):
    P = ck.P
    base = P.cls(BASE)
    ops = sorted((c for c in P.classes.values() if base in c.mro and c is not base), key=lambda c: c.name)
    table = {}
    square_classes, override_classes, default_classes = [], [], []

    def fi_of(payload):
        if isinstance(payload, BoundMethod):
            payload = payload.func
        return payload.info if isinstance(payload, FuncRef) else payload

    def rows(S):
        S.oracle = {'name': 'structures'}
        for c in ops:
            lo, li = c.lookup('out_structure'), c.lookup('in_structure')
            if lo is None or li is None:
                ck._undecided(c.fullname, 'resolution', 'no in_structure / out_structure in the class table')
                continue
            owner, kind, payload = lo
            in_fi = fi_of(li[2])
            abstract_in = li[1] == 'method' and any(ast.unparse(d).endswith('abstractmethod') for d in li[2].decorators)
            if kind == 'patched':
                same = fi_of(payload) is in_fi
                table[c.name] = f'square: out_structure := in_structure ({getattr(in_fi, "qualname", in_fi)}) [patched on {owner.name}]'
                S.oblige('post', bool(same), tag=f'{c.name}:the-rewired-out_structure-is-the-function-in_structure-resolves-to',
                         note=f'patched payload {payload!r}; in_structure resolves to {in_fi!r}',
                         oracle={'name': 'structures', 'cls': c.name})
                square_classes.append(c.name)
            elif kind == 'method' and owner is base:
                table[c.name] = 'default: jax.eval_shape(self.mv, self.in_structure())' + \
                    (' [abstract in_structure]' if abstract_in else '')
                default_classes.append(c.name)
            elif kind == 'method':
                table[c.name] = f'override: {payload.qualname}'
                override_classes.append(c.name)
            else:
                ck._undecided(c.fullname, 'resolution', f'out_structure resolves to a {kind}')
            # the square decorator must not have touched in_structure (a wiring of the wrong method would)
            S.oblige('post', li[1] == 'method', tag=f'{c.name}:in_structure-is-the-method-written-in-the-class-body',
                     note=f'in_structure resolves to a {li[1]} on {li[0].name}', oracle={'name': 'structures', 'cls': c.name})
    ck.explore(f'{BASE}.out_structure', rows, Theory(), label='resolution')
    # the exploration above runs in a worker; the grouping is recomputed here for the coverage bookkeeping
    groups = {'square': [], 'override': [], 'default': []}
    for c in ops:
        lo = c.lookup('out_structure')
        if lo is None:
            continue
        owner, kind, payload = lo
        g = 'square' if kind == 'patched' else ('default' if owner is base else 'override')
        groups[g].append(c.name)
    return groups


# ====================================================================== default: eval_shape(self.mv, self.in_structure())
class EvalShapeV(Value):
    def __init__(self, f, args):
        self.f, self.args = f, args


def build_default(ck, groups):
    P = ck.P
    Other = honest_operand(P)
    T = theory_struct()
    T.externals['jax.eval_shape'] = lambda interp, f, *args: EvalShapeV(f, args)

    def default(S):
        S.oracle = {'name': 'structures'}
        o = Obj(Other, tag='op')
        o.fields['ins'] = sds(S, 'declared_in')
        out = S.call(S.func(f'{BASE}.out_structure'), [o])
        ok = out.normal and isinstance(out.value, EvalShapeV)
        S.oblige('post', bool(ok), tag='out_structure-is-jax.eval_shape(...)')
        if not ok:
            return
        f, args = out.value.f, out.value.args
        S.oblige('post', isinstance(f, BoundMethod) and f.self_val is o and isinstance(f.func, FuncRef)
                 and f.func.info.name == 'mv', tag='of-self.mv')
        S.oblige('post', len(args) == 1 and args[0] is o.fields['ins'], tag='at-self.in_structure()')
    ck.explore(f'{BASE}.out_structure', default, T, label='default', contracts={
        f'{CORE}.OtherOperator.in_structure': lambda interp, fi, args, kwargs: args[0].fields['ins']})
    ck.samples.append({'classes_whose_out_structure_is_the_default_eval_shape (honest by the assumed contract of '
                       'jax.eval_shape only)': [n for n in groups['default'] if not P.is_abstract(P.cls(n))],
                       'abstract_classes_with_the_default': [n for n in groups['default'] if P.is_abstract(P.cls(n))]})


# ====================================================================== (B) square classes: mv preserves the structure
def build_square(ck, groups):
    P = ck.P
    T = theory_struct()
    AX = SA.axioms()
    covered = set()
    ck.assume_note('C05: operator parameters are no wider than the data: promote(dtype(parameter), dtype(leaf)) == '
                   'dtype(leaf) for every leaf (the property\'s own restriction; HomothetyOperator.value, the diagonal values, '
                   'the QU rotation angles, the observation matrix)')
    ck.assume_note('C05: declared leaf dtypes are realisable in the current precision mode (canon(dtype) == dtype): with '
                   'jax_enable_x64 off a float64 / int64 structure has no matching input (the factories\' np.float64 default '
                   'produces such structures)')
    ck.assume_note('C05: Stokes containers hold components of ONE shape and ONE dtype (class invariant of StokesPyTree as '
                   'built by structure_for / from_stokes; StokesQUPyTree(q_float32, u_float64) built by hand is excluded)')
    ck.assume_note('C05: QU rotation angles broadcast TO the component shape (rank(angles) <= rank(leaf), every aligned '
                   'dimension equal or 1): angles that enlarge the data are not refused by the constructor — requires')

    def input_tree(S, name='s'):
        """declared input structure: one leaf, or a pytree with a symbolic number of leaves"""
        k = S.choose(2)
        S.inputs['tree'] = ['one leaf', 'pytree with a symbolic number of leaves'][k]
        if k == 0:
            return sds(S, name)
        leaves = S.seq(name + '_leaves', kind='list', sort=ST.Leaf, wrap=ST.LeafV)
        S.inputs.pop(name + '_leaves', None)
        S.assume(to_z3(leaves.length) >= 1)
        S.assume(leaves.forall(lambda k, e: z3.And(e.wf(), D.realisable(SA.dcode(e)))))
        return ST.StructV(leaves)

    def generic_leaf_eq(S, got, want, what):
        """struct equality of two pytrees; for a symbolic number of leaves: same treedef, same count, and equality at a
        GENERIC leaf position (the leaf function is executed there)"""
        if isinstance(got, ST.StructV) and isinstance(want, ST.StructV) and not got.leaves.is_concrete_len():
            S.oblige('post', z_and(z_eq(got.treedef, want.treedef), z_eq(got.leaves.length, want.leaves.length)),
                     tag=f'{what}:same-pytree (treedef and number of leaves)')
            k = z3.Int('leaf_position')
            S.assume(z3.And(0 <= k, k < to_z3(want.leaves.length)))
            S.I.depth += 1
            try:
                g = got.leaves.get(k)
            finally:
                S.I.depth -= 1
            S.oblige('post', struct_eq(g, want.leaves.get(k)), tag=f'{what}:leaf-shape-and-dtype-at-a-generic-leaf')
        else:
            S.oblige('post', struct_eq(got, want), tag=f'{what}:structure(mv(x))==out_structure()')

    def run_square(S, op, x, what, finding=None):
        outs = S.call(S.I.getattr(op, 'out_structure'), [])
        ins = S.call(S.I.getattr(op, 'in_structure'), [])
        if not (outs.normal and ins.normal):
            S.oblige('exc', False, tag=f'{what}:structures-are-returned')
            return
        S.oblige('post', struct_eq(outs.value, ins.value) if outs.value is not ins.value else True,
                 tag=f'{what}:out_structure()==in_structure()')
        try:
            res = S.call(S.I.getattr(op, 'mv'), [x])
        except Unsupported:
            raise
        if not res.normal:
            S.oblige('exc', False, tag=f'{what}:mv-accepts-an-input-matching-in_structure (raises {res.value.name})')
            return
        if finding:
            S.inputs.clear()            # the witness of the listed finding is the native one (no model extraction needed)
            S.oblige('post', struct_eq(res.value, outs.value), tag=f'{what}:structure(mv(x))==out_structure()', finding=finding)
        else:
            generic_leaf_eq(S, res.value, outs.value, what)

    # ---- IdentityOperator
    def identity(S):
        S.oracle = {'name': 'structures', 'cls': 'IdentityOperator'}
        s = input_tree(S)
        run_square(S, S.new('IdentityOperator', _in_structure=s), matching(S, s), 'identity')
    ck.explore(f'{CORE}.IdentityOperator.mv', identity, T, label='structure', axioms=AX)
    covered.add('IdentityOperator')

    # ---- HomothetyOperator
    def homothety(S):
        S.oracle = {'name': 'structures', 'cls': 'HomothetyOperator'}
        s = input_tree(S)
        value = SA.SLeaf(z3.Const('value', ST.Leaf))
        S.assume(z3.And(ST.f_ndim(value.term) == 0, value.wf()))
        x = matching(S, s)
        # requires: the scalar is no wider than any leaf (weakly typed or not)
        for lf in ([x] if isinstance(x, ST.LeafV) else None) or []:
            S.assume(SA.promote_leaves(value, lf)[0] == SA.dcode(lf))
        if isinstance(x, ST.StructV):
            k = fresh_int('k')
            S.assume(z3.ForAll([k], z3.Implies(z3.And(0 <= k, k < to_z3(x.leaves.length)),
                                               SA.promote_leaves(value, x.leaves.get(k))[0] == SA.dcode(x.leaves.get(k)))))
        run_square(S, S.new('HomothetyOperator', value=value, _in_structure=s), x, 'homothety')
    ck.explore(f'{CORE}.HomothetyOperator.mv', homothety, T, label='structure', axioms=AX)
    covered.add('HomothetyOperator')

    # ---- DiagonalOperator / DiagonalInverseOperator: the strict shape check (real body) makes mv shape-preserving
    DG = 'furax._base.diagonal'

    def diagonal(clsname):
        def sc(S):
            S.oracle = {'name': 'structures', 'cls': clsname}
            s = input_tree(S)
            x = matching(S, s)
            dd = z3.Const('values_dtype', D.DT)         # dtype of the (effective) diagonal values
            S.inputs['values_dtype'] = dd
            rd_shape, rl_shape = S.seq('reshaped_values_shape'), S.seq('reshaped_leaf_shape')

            def reshape_diagonal(interp, fi, args, kwargs):
                # callee contract (C11, scenarios reshape_diagonal / bounded element level): the values reshaped and moved
                # for this leaf: some shape, the dtype of the effective values (for DiagonalInverseOperator: of
                # where(d != 0, 1/d, 0))
                return SA.mk(interp, rd_shape, dd)

            def reshape_input_leaf(interp, fi, args, kwargs):
                # callee contract (C11 reshape_input_leaf): leaf.reshape(leaf.shape + unit dims): same dtype
                return SA.mk(interp, rl_shape, SA.dcode(args[2]))
            S.I.contracts = {f'{DG}.BroadcastDiagonalOperator._normalize_axes': lambda *a: SSeq.fresh('normalized'),
                             f'{DG}.BroadcastDiagonalOperator._reshape_diagonal': reshape_diagonal,
                             f'{DG}.BroadcastDiagonalOperator._reshape_input_leaf': reshape_input_leaf}
            leaves = [x] if isinstance(x, ST.LeafV) else None
            if leaves:
                S.assume(D.promote(dd, SA.dcode(x)) == SA.dcode(x))
            else:
                k = fresh_int('k')
                S.assume(z3.ForAll([k], z3.Implies(z3.And(0 <= k, k < to_z3(x.leaves.length)),
                                                   D.promote(dd, SA.dcode(x.leaves.get(k))) == SA.dcode(x.leaves.get(k)))))
            op = S.new(clsname, _in_structure=s, _diagonal=SA.SLeaf(z3.Const('values', ST.Leaf)), axis_destination=S.seq('axes'))
            outs = S.call(S.I.getattr(op, 'out_structure'), [])
            res = S.call(S.I.getattr(op, 'mv'), [x])
            if not (outs.normal and res.normal):
                S.oblige('exc', outs.normal and res.raised('ValueError'),
                         tag='only-refusal-is-the-ValueError-of-the-shape-check')
                return
            try:
                generic_leaf_eq(S, res.value, outs.value, clsname)
            except Exception as e:      # the leaf function refuses the generic leaf: ValueError of the shape check
                from pyvc.values import PyRaise
                if not isinstance(e, PyRaise):
                    raise
                S.oblige('exc', e.exc.name == 'ValueError', tag='only-refusal-is-the-ValueError-of-the-shape-check')
        return sc
    for clsname in ('DiagonalOperator', 'DiagonalInverseOperator'):
        ck.explore(f'{DG}.{clsname}.mv' if clsname == 'DiagonalOperator' else f'{DG}.BroadcastDiagonalOperator.mv',
                   diagonal(clsname), T, label=f'structure-{clsname}', axioms=AX)
        covered.add(clsname)

    # ---- Stokes operators
    def stokes_scenario(clsname, kind, mixed=False):
        def sc(S):
            S.oracle = {'name': 'structures', 'cls': clsname}
            # HWP: any component dtypes.  QU rotations: components of ONE dtype; components of DIFFERENT dtypes are the
            # witness class of the listed finding (scenario `mixed`)
            s = stokes_structure(S, kind, same_dtype=(clsname != 'HWPOperator' and not mixed))
            x = matching(S, s)
            if mixed:
                S.oracle = {'name': 'finding_mixed_stokes', 'x64': True}
                S.finding = MIXED
            if clsname == 'HWPOperator':
                op = S.new(clsname, _in_structure=s)
            else:
                angles = SA.SLeaf(z3.Const('angles', ST.Leaf))
                first = next(iter(x.fields.values()))
                # requires: floating-point angles that broadcast TO the component shape and are no wider than the data
                na, nl = ST.f_ndim(angles.term), ST.f_ndim(first.term)
                k = fresh_int('k')
                S.assume(z3.And(angles.wf(), z3.Not(SA.f_weak(angles.term)), na <= nl, z3.ForAll([k], z3.Implies(
                    z3.And(0 <= k, k < na), z3.Or(ST.f_shape(angles.term)[na - 1 - k] == ST.f_shape(first.term)[nl - 1 - k],
                                                  ST.f_shape(angles.term)[na - 1 - k] == 1)))))
                S.assume(z3.Or(SA.dcode(angles) == D.F32, SA.dcode(angles) == D.F64))
                for comp in x.fields.values():
                    S.assume(z3.And(D.promote(SA.dcode(angles), SA.dcode(comp)) == SA.dcode(comp), D.is_inexact(SA.dcode(comp))))
                rot = S.new('QURotationOperator', angles=angles, _in_structure=s)
                op = rot if clsname == 'QURotationOperator' else S.new('QURotationTransposeOperator', operator=rot)
            run_square(S, op, x, f'{clsname}-{kind}', finding=MIXED if mixed else None)
        return sc
    for clsname, fn in (('HWPOperator', 'furax.operators.hwp.HWPOperator.mv'),
                        ('QURotationOperator', 'furax.operators.qu_rotations.QURotationOperator.mv'),
                        ('QURotationTransposeOperator', 'furax.operators.qu_rotations.QURotationTransposeOperator.mv')):
        for kind in STOKES:
            ck.explore(fn, stokes_scenario(clsname, kind), T, label=f'structure-{kind}', axioms=AX)
        covered.add(clsname)
    # the witness class of the listed finding: a QU container whose components have different dtypes
    for clsname, fn in (('QURotationOperator', 'furax.operators.qu_rotations.QURotationOperator.mv'),
                        ('QURotationTransposeOperator', 'furax.operators.qu_rotations.QURotationTransposeOperator.mv')):
        ck.explore(fn, stokes_scenario(clsname, 'QU', mixed=True), T, label='structure-QU-mixed-dtypes', axioms=AX)

    # ---- Toast observation matrix (and its transpose: a lazy dual of a square operator)
    def toast(transposed):
        def sc(S):
            S.oracle = {'name': 'structures', 'cls': 'ToastObservationMatrix' + ('TransposeOperator' if transposed else 'Operator')}
            n = S.int('n')
            dt = z3.Const('matrix_dtype', ST.DType)
            S.assume(z3.And(n >= 0, D.realisable(SA.code(dt))))
            m = SA.CsrV(n, n, dt)          # class invariant of the constructor: the matrix is square
            inner = S.new('ToastObservationMatrixOperator', matrix=m)
            op = S.new('ToastObservationMatrixTransposeOperator', operator=inner) if transposed else inner
            ins = S.call(S.I.getattr(op, 'in_structure'), [])
            if not ins.normal:
                S.oblige('exc', False, tag='in_structure-returns')
                return
            x = matching(S, ins.value)
            oblige_honest(S, op, x, 'toast' + ('-transpose' if transposed else ''))
        return sc
    ck.explore('furax.toast.obs_matrix.ToastObservationMatrixOperator.mv', toast(False), T, label='structure', axioms=AX)
    ck.explore('furax.toast.obs_matrix.ToastObservationMatrixTransposeOperator.mv', toast(True), T, label='structure', axioms=AX)
    covered.add('ToastObservationMatrixOperator')

    # ---- the lazy transpose of an orthogonal operator, generic operand (square by the decorator)
    Other = honest_operand(P)

    def lazy_orthogonal(S):
        S.oracle = {'name': 'structures', 'cls': 'QURotationTransposeOperator'}
        a = Obj(Other, tag='A')
        a.fields['ins'] = a.fields['outs'] = sds(S, 'operand_structure')     # orthogonal operands are square
        op = S.new('AbstractLazyInverseOrthogonalOperator', operator=a)
        ins = S.call(S.I.getattr(op, 'in_structure'), [])
        if not ins.normal:
            S.oblige('exc', False, tag='in_structure-returns')
            return
        oblige_honest(S, op, matching(S, ins.value), 'lazy-transpose-of-an-orthogonal-operand')

    def add_lt(T_):
        def _lt(interp, f, *structs):
            S_ = interp.run._S
            return PyFunc(lambda interp, y: tuple(matching(S_, s, f'ct{i}') for i, s in enumerate(structs)), 'linear_transpose(f)')
        T_.externals['jax.linear_transpose'] = _lt
        return T_
    ck.explore(f'{CORE}.AbstractLazyInverseOrthogonalOperator', lazy_orthogonal, add_lt(theory_struct()), label='structure',
               axioms=AX, contracts={f'{CORE}.OtherOperator.in_structure': lambda i, f, a, k: a[0].fields['ins'],
                                     f'{CORE}.OtherOperator.out_structure': lambda i, f, a, k: a[0].fields['outs']})
    covered.add('AbstractLazyInverseOrthogonalOperator')

    for name in groups['square']:
        if name in covered:
            continue
        if name in ELSEWHERE:
            continue
        ck._undecided(f'{name}.mv', 'structure', 'square-decorated class without a "mv preserves the structure" scenario')
    ck.samples.append({'square_classes': {n: ('scenario here' if n in covered else ELSEWHERE.get(n, 'MISSING'))
                                          for n in groups['square']}})
    return add_lt


# ====================================================================== (C) explicit overrides
def build_overrides(ck, groups, add_lt):
    P = ck.P
    Other = honest_operand(P)
    AX = SA.axioms()
    covered = set()
    ck.assume_note('C05(C): operands of composite operators are honest operators (induction hypothesis: the synthetic '
                   'operand\'s mv returns arrays of its out_structure()) that satisfy the class invariants the constructors / '
                   'dunders establish (C02): the terms of a sum share input and output structures, consecutive factors of a '
                   'composition match, the blocks of a row share their output structure, those of a column their input '
                   'structure, the operand of InverseOperator is square; containers are explored for the listed pytree shapes')

    def structure_value(S, name, shape):
        """a declared structure: one leaf ('leaf') or a list of two leaves ('list2')"""
        if shape == 'leaf':
            return sds(S, name)
        return [sds(S, name + '0'), sds(S, name + '1')]

    def mk_other(S, tag, ins, outs):
        o = Obj(Other, tag=tag)
        o.fields['ins'], o.fields['outs'] = ins, outs
        return o

    def both_shapes(S):
        k = S.choose(2)
        S.inputs['structures'] = ['single leaf', 'list of two leaves'][k]
        return ['leaf', 'list2'][k]

    def end_structures(S, op, ins_expected, outs_expected, what):
        ins, outs = S.call(S.I.getattr(op, 'in_structure'), []), S.call(S.I.getattr(op, 'out_structure'), [])
        ok = ins.normal and outs.normal
        S.oblige('exc', ok, tag=f'{what}:structures-are-returned')
        if not ok:
            return False
        S.oblige('post', ins.value is ins_expected if not isinstance(ins_expected, (list, dict)) else struct_eq(ins.value, ins_expected),
                 tag=f'{what}:in_structure()-is-the-one-implied-by-the-parts')
        S.oblige('post', outs.value is outs_expected if not isinstance(outs_expected, (list, dict)) else struct_eq(outs.value, outs_expected),
                 tag=f'{what}:out_structure()-is-the-one-implied-by-the-parts')
        return True

    Tpy = theory_py()

    # ---- AdditionOperator
    def addition(S):
        S.oracle = {'name': 'structures', 'cls': 'AdditionOperator'}
        S.I.contracts = operand_contracts(S)
        sh = both_shapes(S)
        sin, sout = structure_value(S, 'sin', sh), structure_value(S, 'sout', sh)
        a, b, c = (mk_other(S, t, sin, sout) for t in 'ABC')
        k = S.choose(3)
        S.inputs['operands'] = ['[A]', '[A, B, C]', "{'a': A, 'b': [B, C]}"][k]
        op = S.new('AdditionOperator', operands=[B.PyList([a]), B.PyList([a, b, c]), {'a': a, 'b': B.PyList([b, c])}][k])
        if end_structures(S, op, sin, sout, 'sum'):
            oblige_honest(S, op, matching(S, sin), 'sum')
    ck.explore(f'{CORE}.AdditionOperator.out_structure', addition, Tpy, axioms=AX)
    covered.add('AdditionOperator')

    # ---- CompositionOperator
    def composition(S):
        S.oracle = {'name': 'structures', 'cls': 'CompositionOperator'}
        S.I.contracts = operand_contracts(S)
        sh = both_shapes(S)
        n = S.choose(3) + 1
        S.inputs['factors'] = n
        structs = [structure_value(S, f's{i}', sh if i in (0, n) else 'leaf') for i in range(n + 1)]
        # operands[i] : structs[i+1] -> structs[i]   (consecutive factors match: class invariant)
        ops = [mk_other(S, f'O{i}', structs[i + 1], structs[i]) for i in range(n)]
        op = S.new('CompositionOperator', operands=B.PyList(ops))
        if end_structures(S, op, structs[n], structs[0], 'composition'):
            oblige_honest(S, op, matching(S, structs[n]), 'composition')
    ck.explore(f'{CORE}.CompositionOperator.out_structure', composition, Tpy, axioms=AX)
    covered.add('CompositionOperator')

    # ---- lazy duals: TransposeOperator, InverseOperator
    def transpose(S):
        S.oracle = {'name': 'structures', 'cls': 'TransposeOperator'}
        S.I.contracts = operand_contracts(S)
        sh = both_shapes(S)
        sin, sout = structure_value(S, 'sin', sh), structure_value(S, 'sout', 'leaf')
        a = mk_other(S, 'A', sin, sout)
        op = S.new('TransposeOperator', operator=a)
        if end_structures(S, op, sout, sin, 'transpose (swapped)'):
            oblige_honest(S, op, matching(S, sout), 'transpose')
    ck.explore(f'{CORE}._AbstractLazyDualOperator.out_structure', transpose, add_lt(theory_py()), label='TransposeOperator', axioms=AX)

    def inverse(S):
        S.oracle = {'name': 'structures', 'cls': 'InverseOperator'}
        S.I.contracts = operand_contracts(S)
        sh = both_shapes(S)
        s = structure_value(S, 's', sh)
        a = mk_other(S, 'A', s, s)          # class invariant of InverseOperator.__init__: the operand is square
        cfg = Obj(P.cls('furax._base.config.ConfigState'))
        cfg.fields.update(solver=Ext('lineax.CG()'), solver_throw=S.bool('throw'), solver_options={},
                          solver_callback=PyFunc(lambda interp, s_: None, 'callback'))
        op = S.new('InverseOperator', operator=a, config=cfg)
        if end_structures(S, op, s, s, 'inverse (swapped)'):
            oblige_honest(S, op, matching(S, s), 'inverse')
    Tinv = theory_py()

    class SolutionV(Value):
        def __init__(self, value):
            self.value = value

        def py_getattr(self, interp, name):
            if name == 'value':
                return self.value
            raise Unsupported(f'Solution.{name}')
    Tinv.externals['lineax.TaggedLinearOperator'] = lambda interp, op, tag: ('tagged', op, tag)
    Tinv.ext_values['lineax.positive_semidefinite_tag'] = Ext('lineax.positive_semidefinite_tag')
    Tinv.externals['jax.debug.callback'] = lambda interp, f, *a, **k: None

    def _solve(interp, A, b, **k):
        op = A[1] if isinstance(A, tuple) else A
        s = interp.call(interp.getattr(op, 'in_structure'), [], {})
        return SolutionV(matching(interp.run._S, s, 'solution'))
    Tinv.externals['lineax.linear_solve'] = _solve
    ck.explore(f'{CORE}._AbstractLazyDualOperator.out_structure', inverse, Tinv, label='InverseOperator', axioms=AX)
    covered.update({'_AbstractLazyDualOperator', 'TransposeOperator', 'InverseOperator', 'AbstractLazyInverseOperator',
                    'ToastObservationMatrixTransposeOperator'})

    # ---- ReshapeTransposeOperator (lazy dual of a reshape / ravel)
    AXM = 'furax._base.axes'

    def reshape_transpose(S):
        S.oracle = {'name': 'structures', 'cls': 'ReshapeTransposeOperator'}
        xin = sds(S, 'operand_in')
        which = S.choose(2)
        inner = S.new('ReshapeOperator', shape=S.seq('shape'), _in_structure=xin) if which == 0 else \
            S.new('RavelOperator', first_axis=S.int('first_axis'), last_axis=S.int('last_axis'), _in_structure=xin)

        def keeps(interp, fi, args, kwargs):
            # callee contract of ReshapeOperator.mv / RavelOperator.mv (C13): same size, dtype, row-major content
            lf = args[1]
            r = ST.LeafV.fresh('relabelled')
            interp.run.assume(z3.And(ST.f_size(r.term) == ST.f_size(lf.term), ST.f_dtype(r.term) == ST.f_dtype(lf.term),
                                     r.wf()))
            return r
        S.I.contracts = {f'{AXM}.ReshapeOperator.mv': keeps, f'{AXM}.RavelOperator.mv': keeps}
        op = S.new('ReshapeTransposeOperator', operator=inner)
        ins = S.call(S.I.getattr(op, 'in_structure'), [])
        if not ins.normal:
            S.oblige('exc', False, tag='in_structure-returns')
            return
        oblige_honest(S, op, matching(S, ins.value), 'reshape-transpose')
    ck.explore(f'{AXM}.ReshapeTransposeOperator.mv', reshape_transpose, theory_struct(), label='structure', axioms=AX)
    covered.add('ReshapeTransposeOperator')

    # ---- block operators (containers: a list of two blocks, a nested dict of three)
    BL = 'furax._base.blocks'

    def blocks(kind):
        def sc(S):
            S.oracle = {'name': 'structures', 'cls': f'Block{kind}Operator'}
            S.I.contracts = operand_contracts(S)
            k = S.choose(2)
            S.inputs['blocks'] = ['[A, B]', "{'a': A, 'b': [B, C]}"][k]
            shared_in, shared_out = sds(S, 'shared_in'), sds(S, 'shared_out')
            names = 'AB' if k == 0 else 'ABC'
            bl = {}
            for t in names:
                bl[t] = mk_other(S, t, shared_in if kind == 'Column' else sds(S, f'in_{t}'),
                                 shared_out if kind == 'Row' else sds(S, f'out_{t}'))

            def lay(f):
                return [f(bl['A']), f(bl['B'])] if k == 0 else {'a': f(bl['A']), 'b': [f(bl['B']), f(bl['C'])]}

            def lay_list(f):
                return B.PyList([f(bl['A']), f(bl['B'])]) if k == 0 else {'a': f(bl['A']), 'b': B.PyList([f(bl['B']), f(bl['C'])])}
            op = S.new(f'Block{kind}Operator', blocks=lay_list(lambda o: o))
            ins_expected = shared_in if kind == 'Column' else lay(lambda o: o.fields['ins'])
            outs_expected = shared_out if kind == 'Row' else lay(lambda o: o.fields['outs'])
            if end_structures(S, op, ins_expected, outs_expected, f'block-{kind.lower()}'):
                x = matching(S, shared_in) if kind == 'Column' else (
                    B.PyList([matching(S, bl['A'].fields['ins'], 'xA'), matching(S, bl['B'].fields['ins'], 'xB')]) if k == 0
                    else {'a': matching(S, bl['A'].fields['ins'], 'xA'),
                          'b': B.PyList([matching(S, bl['B'].fields['ins'], 'xB'), matching(S, bl['C'].fields['ins'], 'xC')])})
                oblige_honest(S, op, x, f'block-{kind.lower()}')
        return sc
    for kind in ('Row', 'Diagonal', 'Column'):
        ck.explore(f'{BL}.Block{kind}Operator.mv', blocks(kind), Tpy, label='structure', axioms=AX)
        covered.add(f'Block{kind}Operator')
    covered.add('AbstractBlockOperator')

    for name in groups['override']:
        if name in covered or name in ELSEWHERE:
            continue
        ck._undecided(f'{name}.out_structure', 'structure', 'out_structure override without a scenario')
    ck.samples.append({'classes_with_an_explicit_out_structure': {n: ('scenario here' if n in covered else ELSEWHERE.get(n, 'MISSING'))
                                                                  for n in groups['override']}})


# ====================================================================== (D) sizes and promoted dtypes
def build_sizes(ck):
    P = ck.P
    Other = honest_operand(P)
    AX = SA.axioms()

    def result_type(interp, *xs):
        return SA.dt_of(D.result_type([SA.code(interp.getattr(x, 'dtype')) for x in xs]))

    def small(S):
        S.oracle = {'name': 'sizes'}
        nin, nout = S.choose(3) + 1, S.choose(2) + 1
        S.inputs.update({'in_leaves': nin, 'out_leaves': nout})
        ins = [sds(S, f'in{i}', realisable=False) for i in range(nin)]
        outs = [sds(S, f'out{i}', realisable=False) for i in range(nout)]
        o = Obj(Other, tag='op')
        o.fields['ins'] = ins[0] if nin == 1 else ST.StructV(SSeq.lift(ins, 'list'))
        o.fields['outs'] = outs[0] if nout == 1 else ST.StructV(SSeq.lift(outs, 'list'))
        S.I.contracts = {f'{CORE}.OtherOperator.in_structure': lambda i, f, a, k: a[0].fields['ins'],
                         f'{CORE}.OtherOperator.out_structure': lambda i, f, a, k: a[0].fields['outs']}
        for nm, leaves in (('in', ins), ('out', outs)):
            n = S.call(S.I.getattr(o, f'{nm}_size'), [])
            d = S.call(S.func(f'{BASE}.{nm}_promoted_dtype'), [o])
            if not (n.normal and d.normal):
                S.oblige('exc', False, tag=f'{nm}_size-and-{nm}_promoted_dtype-are-computed')
                continue
            total = sum((ST.f_size(lf.term) for lf in leaves[1:]), ST.f_size(leaves[0].term))
            S.oblige('post', z_eq(n.value, total), tag=f'{nm}_size==sum-of-the-sizes-of-the-{nm}put-leaves')
            S.oblige('post', SA.code(d.value) == D.result_type([SA.dcode(lf) for lf in leaves]),
                     tag=f'{nm}_promoted_dtype==result_type-of-the-{nm}put-leaf-dtypes (both precision modes)')
    T = theory_struct()
    T.externals['jax.numpy.result_type'] = result_type
    ck.explore(f'{BASE}.in_size', small, T, label='small-pytrees', axioms=AX)

    # a symbolic number of leaves: in_size / out_size are the sums of the leaf sizes
    LeafArr = z3.ArraySort(z3.IntSort(), ST.Leaf)

    def symbolic(S):
        S.oracle = {'name': 'sizes'}
        o = Obj(Other, tag='op')
        IL, OL = z3.Const('in_leaves', LeafArr), z3.Const('out_leaves', LeafArr)
        nin, nout = S.int('n_in_leaves'), S.int('n_out_leaves')
        SZ, OSZ = z3.Const('in_sizes', ST.IntArr), z3.Const('out_sizes', ST.IntArr)
        k = fresh_int('k')
        S.assume(z3.And(nin >= 0, nout >= 0))
        for sizes, arr, n in ((SZ, IL, nin), (OSZ, OL, nout)):
            S.assume(z3.ForAll([k], sizes[k] == ST.f_size(arr[k]), patterns=[sizes[k]]))
            CM.register_sum(S.run, sizes, n)
        o.fields['ins'] = ST.StructV(SSeq(nin, lambda j: ST.LeafV(IL[to_z3(j)]), 'list'))
        o.fields['outs'] = ST.StructV(SSeq(nout, lambda j: ST.LeafV(OL[to_z3(j)]), 'list'))
        S.I.contracts = {f'{CORE}.OtherOperator.in_structure': lambda i, f, a, kw: a[0].fields['ins'],
                         f'{CORE}.OtherOperator.out_structure': lambda i, f, a, kw: a[0].fields['outs']}
        for nm, sizes, n in (('in', SZ, nin), ('out', OSZ, nout)):
            r = S.call(S.I.getattr(o, f'{nm}_size'), [])
            if not r.normal:
                S.oblige('exc', False, tag=f'{nm}_size-is-computed')
                continue
            S.oblige('post', z_eq(r.value, CM.Psum(sizes, 0, n)), tag=f'{nm}_size==sum-over-all-{nm}put-leaves-of-leaf.size')
    ck.explore(f'{BASE}.in_size', symbolic, CM.theory(), label='symbolic-number-of-leaves')


# ====================================================================== (E) reduced operators: the scalar stays no wider
def build_reduced(ck):
    """`reduced operators`: the square scenarios above hold for a scalar operator whose value is no wider than the data
    (the property's own restriction).  HomothetyRule.apply builds NEW scalar operators during reduce(): its real body is
    executed in the dtype facet and must re-establish that restriction — the merged value is no wider than every leaf
    whenever every merged factor was — and put the new operator on the structure of the end it is moved to."""
    P = ck.P
    T = theory_struct()
    AX = SA.axioms()
    Other = honest_operand(P)
    RULES = 'furax._base.rules'

    def np_array(interp, v, dtype=None, **k):
        if isinstance(v, SA.SLeaf):
            return v
        kind = SA.scalar_kind(v)
        if dtype is not None or kind is None:
            raise Unsupported('jnp.array of this argument (struct facet)')
        # jnp.array / jnp.asarray of a Python scalar: a WEAKLY typed 0-d array of the default dtype of its kind
        # (checked natively by the conformance part of the oracle `reduced_scalars`)
        dc = {'int': z3.If(D.X64, D.I64, D.I32), 'float': z3.If(D.X64, D.F64, D.F32), 'complex': z3.If(D.X64, D.C128, D.C64)}[kind]
        return SA.mk(interp, SSeq.lift((), 'tuple'), z3.simplify(dc), weak=True)

    def scenario(pattern):
        def sc(S):
            S.oracle = {'name': 'reduced_scalars'}
            S.inputs['chain'] = pattern
            S.I.theory.externals['jax.numpy.array'] = np_array
            S.I.theory.externals['jax.numpy.asarray'] = np_array
            leaves = S.seq('s_leaves', kind='list', sort=ST.Leaf, wrap=ST.LeafV)
            S.inputs.pop('s_leaves', None)
            S.assume(to_z3(leaves.length) >= 1)
            S.assume(leaves.forall(lambda k, e: z3.And(e.wf(), D.realisable(SA.dcode(e)))))
            s = ST.StructV(leaves)
            k = z3.Int('leaf_position')
            S.assume(z3.And(0 <= k, k < to_z3(leaves.length)))
            leaf = SA.as_sleaf(leaves.get(k))
            S.assume(z3.Not(SA.f_weak(leaf.term)))
            S.assume(SA.dcode(leaf) != D.BOOL)      # numeric data (the neutral factor 1 is already wider than a bool leaf)

            def narrow(v):
                """the scalar v is no wider than the generic leaf: multiplying keeps the leaf's dtype"""
                return SA.promote_leaves(v, leaf)[0] == SA.dcode(leaf)
            ops, values = [], []
            for i, c in enumerate(pattern):
                if c == 'H':
                    v = SA.SLeaf(z3.Const(f'value{i}', ST.Leaf))
                    S.assume(z3.And(ST.f_ndim(v.term) == 0, v.wf(), narrow(v)))        # requires (for every leaf: k generic)
                    values.append(v)
                    ops.append(S.new('HomothetyOperator', value=v, _in_structure=s))
                else:
                    o = Obj(Other, tag=f'O{i}')
                    o.fields['ins'] = o.fields['outs'] = s
                    ops.append(o)
            sizes = {}

            def size(which):
                def f(interp, fi, args, kwargs):
                    return sizes.setdefault((id(args[0]), which), fresh_int(which))
                return f
            S.I.contracts = dict(operand_contracts(S))
            S.I.contracts[f'{BASE}.in_size'] = size('in_size')
            S.I.contracts[f'{BASE}.out_size'] = size('out_size')
            rule = Obj(P.cls('HomothetyRule'))
            out = S.call(S.I.getattr(rule, 'apply'), [B.PyList(list(ops))])
            if not out.normal:
                S.oblige('bounded', False, tag=f'no-exception-{out.value.name}')
                return
            res = B.as_seq(S.I, out.value).py_items()
            hs = [o for o in res if isinstance(o, Obj) and o.cls.name == 'HomothetyOperator']
            S.oblige('bounded', len(hs) <= 1, tag='at-most-one-scalar-operator-left')
            for h in hs:
                v = h.fields['value']
                ok = isinstance(v, ST.LeafV)
                S.oblige('bounded', ok, tag='merged-value-is-an-array')
                if not ok:
                    continue
                v = SA.as_sleaf(v)
                S.oblige('bounded', narrow(v), tag='merged-value-no-wider-than-any-leaf (mv keeps every leaf dtype: requires re-established)')
                S.oblige('bounded', ST.f_ndim(v.term) == 0, tag='merged-value-is-a-scalar')
                hs_ = S.call(S.I.getattr(h, 'in_structure'), [])
                S.oblige('bounded', hs_.normal and (hs_.value is s or bool(struct_eq(hs_.value, s) is True)),
                         tag='scalar-operator-sits-on-the-structure-of-its-end')
        return sc
    for pattern in ('HH', 'HO', 'OH', 'HOH', 'OHH', 'HHO', 'OHO', 'HHH'):
        ck.explore(f'{RULES}.HomothetyRule.apply', scenario(pattern), T, label=f'dtype-facet:{pattern}', axioms=AX)

    def placement(pattern):
        """RECTANGULAR neighbours: the chain maps st[n] -> ... -> st[0], operator i : st[i+1] -> st[i] (scalar operators are
        square); the rebuilt scalar operator must sit on the structure of the END it is moved to — the output structure
        of the first operand (left) or the input structure of the last one (right) — or the reduced operator would
        declare structures that are not those of its parts"""
        def sc(S):
            S.oracle = {'name': 'reduced_scalars'}
            S.inputs['chain'] = pattern
            S.I.theory.externals['jax.numpy.array'] = np_array
            S.I.theory.externals['jax.numpy.asarray'] = np_array
            st = [sds(S, 's0')]
            ops = []
            for i, c in enumerate(pattern):
                if c == 'H':
                    st.append(st[-1])
                    v = SA.SLeaf(z3.Const(f'value{i}', ST.Leaf))
                    S.assume(z3.And(ST.f_ndim(v.term) == 0, v.wf()))
                    ops.append(S.new('HomothetyOperator', value=v, _in_structure=st[-1]))
                else:
                    st.append(sds(S, f's{i + 1}'))
                    o = Obj(Other, tag=f'O{i}')
                    o.fields['ins'], o.fields['outs'] = st[i + 1], st[i]
                    ops.append(o)
            sizes = {}

            def size(which):
                def f(interp, fi, args, kwargs):
                    return sizes.setdefault((id(args[0]), which), fresh_int(which))
                return f
            S.I.contracts = dict(operand_contracts(S))
            S.I.contracts[f'{BASE}.in_size'] = size('in_size')
            S.I.contracts[f'{BASE}.out_size'] = size('out_size')
            rule = Obj(P.cls('HomothetyRule'))
            out = S.call(S.I.getattr(rule, 'apply'), [B.PyList(list(ops))])
            if not out.normal:
                S.oblige('bounded', False, tag=f'no-exception-{out.value.name}')
                return
            res = B.as_seq(S.I, out.value).py_items()
            ok = len(res) >= 1
            S.oblige('bounded', ok, tag='non-empty-result')
            if not ok:
                return

            def ends(o):
                if isinstance(o, Obj) and o.cls is Other:
                    return o.fields['ins'], o.fields['outs']        # (the synthetic operand: its declared structures)
                i_, o_ = S.call(S.I.getattr(o, 'in_structure'), []), S.call(S.I.getattr(o, 'out_structure'), [])
                return (i_.value if i_.normal else None), (o_.value if o_.normal else None)
            def same(a, b):
                if a is None or b is None:
                    return False
                return True if a is b else struct_eq(a, b)
            first_out, last_in = ends(res[0])[1], ends(res[-1])[0]
            if os.environ.get('VF_DEBUG'):
                print('placement', pattern, [getattr(o, 'cls', None) and o.cls.name for o in res], first_out, st[0], last_in, st[-1])
            S.oblige('bounded', same(first_out, st[0]), tag='reduced-chain-starts-on-the-output-structure-of-the-original')
            S.oblige('bounded', same(last_in, st[-1]), tag='reduced-chain-ends-on-the-input-structure-of-the-original')
            for a, b in zip(res, res[1:]):
                S.oblige('bounded', same(ends(a)[0], ends(b)[1]), tag='consecutive-operators-of-the-reduced-chain-match')
        return sc
    for pattern in ('OH', 'HO', 'OHO', 'OOH', 'HOO', 'OHH'):
        ck.explore(f'{RULES}.HomothetyRule.apply', placement(pattern), T, label=f'placement:{pattern}', axioms=AX)
    ck.bounded.append({'what': 'HomothetyRule.apply in the dtype facet: chains of <= 3 operators, every placement of scalar '
                               'operators (the loop body `value *= operand.value` is executed for 0-3 scalar factors; pytrees '
                               'with a symbolic number of leaves, symbolic dtypes and weak types, both precision modes)',
                       'bound': 'chain length <= 3'})


def build(ck):
    from props import C08
    C08.patch_class_table(ck.P)        # the decorators' rewiring (square / symmetric / orthogonal / diagonal), real bodies
    ck.trust('assumed:jax.eval_shape(f, s) is the structure (pytree, shapes, dtypes) of f applied to arrays of structure s',
             'assumed:the dtype model of theories/dtypes.py (promotion table, weak scalars, canonicalisation under the 64-bit '
             'flag) and the broadcasting / shape rules of theories/sarith.py',
             'lemma:Psum-fold / Pprod-fold instances')
    groups = build_resolution(ck)
    build_default(ck, groups)
    add_lt = build_square(ck, groups)
    build_overrides(ck, groups, add_lt)
    build_sizes(ck)
    build_reduced(ck)

"""C18 — results do not depend on JIT compilation or pytree round trips.

(a) hand-written pytree nodes (landscapes.Landscape / StokesLandscape / HealpixLandscape / FrequencyLandscape and
    config.ConfigState): the REAL __init__, tree_flatten and tree_unflatten are executed; obligations: tree_unflatten
    (aux, children) returns normally (`call-bind`: cls(**aux) binds to the __init__ the class resolves to) and the
    rebuilt object equals the original field by field.
(b) declaration discipline, decided on the class table for every class deriving from AbstractLinearOperator: a field
    whose declared content is array data (arrays, operators, index tuples with arrays) must be a dynamic leaf — a
    static one makes the treedef metadata unhashable / incomparable and breaks jit with the operator as argument as
    soon as two instances meet; a field holding unhashable metadata (ConfigState: contains a dict) must be static;
    hashable metadata (structures, str, bool, int, tuples of ints) is static by the discipline — declaring it dynamic
    keeps the property (a filtering jit keeps every non-array leaf static; the round trip is unaffected), so such
    rows are reported as `discipline-deviation` in the evidence and are not violations.
(c) trace-safety, facet `static` (theories/static.py): the real body of every `mv` (and of the helpers it calls) is
    executed with array values tagged Traced; every truth test, int()/len(), loop bound and shape argument must be
    Static.  Boolean-mask selection by an operator parameter is the property's stated exception.
Assumed (JAX's semantics, not furax's code): a function whose Python control flow depends only on Static data traces
to the computation it performs eagerly (jit / filter_jit = eager); equinox flatten/unflatten is the identity on
Modules.  The native oracle tests these for one instance of every operator class.
"""
from __future__ import annotations

import ast
import re

import z3

from pyvc import builtins_model as B
from pyvc.loops import LoopSpec
from pyvc.theory import Theory
from pyvc.values import ClassRef, Ext, Obj, PyFunc, SSeq, Value, to_z3, z_eq
from theories import context as CX
from theories import pytree as PT
from theories import static as STT
from theories import synth

CORE = 'furax._base.core'
LS = 'furax.landscapes'
CFG = 'furax._base.config'


class ExtDataclassV(Value):
    """an opaque instance of an external dataclass (every lineax solver is an equinox Module, i.e. a dataclass)"""

    def __init__(self, name):
        self.name = name

    def __repr__(self):
        return f'<{self.name}>'


def theory_a():
    T = Theory()
    STT.install(T)
    CX.install(T, dataclass_pred=lambda v: isinstance(v, ExtDataclassV))
    return T


# ====================================================================== (a) hand-registered pytree nodes
def build_roundtrips(ck):
    P = ck.P
    T = theory_a()
    ck.assume_note('C18(a): abstract landscapes (Landscape, StokesLandscape) are exercised through a generic concrete '
                   'subclass that overrides only the abstract methods (closed world + one generic user subclass)')
    ck.assume_note('C18(a): every value of ConfigState.solver is a dataclass instance (lineax solvers are equinox Modules)')

    def compare(S, ci, orig, snap, finding):
        fl = S.call(S.I.getattr(orig, 'tree_flatten'), [])
        ok = fl.normal and isinstance(fl.value, tuple) and len(fl.value) == 2
        S.oblige('post', ok, tag='tree_flatten-returns-(children, aux_data)')
        if not ok:
            return
        children, aux = fl.value
        S.oblige('frame', all(orig.fields[k] is snap[k] for k in snap) and set(orig.fields) == set(snap),
                 tag='tree_flatten-does-not-modify-the-object')
        un = S.call(S.I.getattr(ClassRef(ci), 'tree_unflatten'), [aux, children])
        if un.raised('TypeError'):
            init = ci.lookup('__init__')
            params = None
            if init is not None and init[1] == 'method':
                a = init[2].node.args
                params = [x.arg for x in a.posonlyargs + a.args + a.kwonlyargs][1:]
            extra = [k for k in aux if params is not None and k not in params] if isinstance(aux, dict) else []
            S.oblige('call-bind', False, finding=finding, tag='tree_unflatten(aux_data, children)-binds-to-the-constructor',
                     note=f'aux_data keys {list(aux) if isinstance(aux, dict) else aux}; constructor parameters {params}; '
                          f'not bindable: {extra}')
            return
        S.oblige('call-bind', un.normal, finding=finding, tag='tree_unflatten(aux_data, children)-binds-to-the-constructor')
        if not un.normal:
            return
        new = un.value
        same_cls = isinstance(new, Obj) and new.cls is orig.cls
        S.oblige('post', same_cls, tag='rebuilt-object-has-the-same-class', finding=finding)
        if not same_cls:
            return
        for n in sorted(set(snap) | set(new.fields)):
            S.oblige('post', z_eq(new.fields.get(n, '<missing>'), snap.get(n, '<missing>')),
                     tag=f'field-{n}-survives-the-round-trip', finding=finding)

    def landscape(base_name, finding=None):
        base = P.cls(f'{LS}.{base_name}')
        ci = synth.concrete_subclass(P, base) if P.is_abstract(base) else base

        def sc(S):
            S.oracle = {'name': 'landscape_roundtrip', 'cls': base_name}
            # dtype: an arbitrary dtype (opaque token, possibly a 64-bit one) or the constructor's default (numpy.float64);
            # the 64-bit mode is a symbolic Bool: the round trip must hold in both modes
            S.inputs['x64'] = STT.X64
            default_dtype = S.choose(2) == 1
            S.inputs['dtype_default'] = int(default_dtype)
            dtype = z3.Const('dtype', CX.AnyS)
            if not default_dtype:
                S.inputs['dtype_is_64bit'] = STT.is64(dtype)
            dt = [] if default_dtype else [dtype]
            dk = {} if default_dtype else {'dtype': dtype}
            stokes = ['IQU', 'QU', 'I', 'IQUV'][S.choose(4)]
            S.inputs['stokes'] = stokes
            if base_name == 'Landscape':
                shape = S.seq('shape')
                made = S.call(ClassRef(ci), [shape] + dt)
            elif base_name == 'StokesLandscape':
                shape = S.seq('shape')
                if S.choose(2) == 0:
                    made = S.call(ClassRef(ci), [shape, stokes] + dt)
                else:
                    S.inputs['by_pixel_shape'] = 1
                    made = S.call(ClassRef(ci), [], dict({'pixel_shape': shape, 'stokes': stokes}, **dk))
            elif base_name == 'HealpixLandscape':
                nside = S.int('nside')
                S.assume(nside >= 1)
                made = S.call(ClassRef(ci), [nside, stokes] + dt)
            else:
                nside = S.int('nside')
                S.assume(nside >= 1)
                freqs = STT.TArr('param', shape=STT.fresh_shape(1), what='frequencies')
                made = S.call(ClassRef(ci), [nside, freqs, stokes] + dt)
            S.oblige('exc', made.normal, tag='constructed')
            if not made.normal:
                return
            compare(S, ci, made.value, dict(made.value.fields), finding)
        ck.explore(f'{LS}.{base_name}.tree_unflatten', sc, T, label='round-trip')

    landscape('Landscape')
    landscape('StokesLandscape')
    landscape('HealpixLandscape', finding='C18-healpix-unflatten')
    landscape('FrequencyLandscape', finding='C18-frequency-unflatten')

    def configstate(S):
        S.oracle = {'name': 'configstate_roundtrip'}
        ci = P.cls(f'{CFG}.ConfigState')
        o = Obj(ci)
        for f in ci.all_fields():
            if f.name == 'solver':
                o.fields[f.name] = ExtDataclassV('a lineax solver')
            elif f.annotation == 'bool':
                o.fields[f.name] = S.bool(f.name)
            elif f.name == 'solver_options':
                o.fields[f.name] = [{}, {'rtol': z3.Const('opt', CX.AnyS)}][S.choose(2)]
            else:
                o.fields[f.name] = z3.Const(f.name, CX.AnyS)
        compare(S, ci, o, dict(o.fields), 'C18-configstate-asdict')
    ck.explore(f'{CFG}.ConfigState.tree_unflatten', configstate, T, label='round-trip')


# ====================================================================== (b) declaration discipline
ARRAY_PAT = re.compile(r'\b(Array|Scalar|ScalarLike|CSR|ArrayLike)\b')
STRUCT_PAT = re.compile(r'ShapeDtypeStruct')


def classify(ann: str, operator_names):
    """what the declared content is, from the property's point of view:
       'array'      array data (arrays, sparse matrices, operators / pytrees of operators, index tuples with arrays)
       'unhashable' metadata that cannot be hashed (ConfigState holds a dict)
       'metadata'   hashable non-array metadata (structures, str, bool, int, tuples of ints)
       None         not classified"""
    a = ann.replace(' ', '')
    words = set(re.findall(r'[A-Za-z_][A-Za-z_0-9]*', a))
    if ARRAY_PAT.search(a) or (words & operator_names):
        return 'array'
    if 'ConfigState' in words:
        return 'unhashable'
    if STRUCT_PAT.search(a):
        return 'metadata'
    if words and words <= {'int', 'str', 'bool', 'tuple', 'None', 'Literal'} | set():
        return 'metadata'
    return None


def build_discipline(ck):
    P = ck.P
    T = Theory()
    base = P.cls(f'{CORE}.AbstractLinearOperator')
    ops = [c for c in P.classes.values() if base in c.mro]
    names = {c.name for c in ops}
    table = []

    def rows(S):
        S.oracle = {'name': 'discipline'}
        for c in sorted(ops, key=lambda c: c.fullname):
            for f in c.fields:
                if f.classvar:
                    continue
                kind = classify(f.annotation, names)
                declared = 'static' if f.static else 'dynamic'
                row = {'class': c.name, 'field': f.name, 'annotation': f.annotation, 'declared': declared,
                       'content': kind}
                tag = f'{c.name}.{f.name}:{declared}'
                if kind is None:
                    ck._undecided(f'{c.fullname}.{f.name}', 'discipline', f'unclassified annotation {f.annotation!r}')
                    continue
                if kind == 'array':
                    row['required'] = 'dynamic'
                    S.oblige('static', not f.static, tag=tag + '-array-data-is-a-dynamic-leaf',
                             oracle={'name': 'discipline', 'cls': c.name, 'field': f.name})
                elif kind == 'unhashable':
                    row['required'] = 'static'
                    S.oblige('static', f.static, tag=tag + '-unhashable-metadata-is-static',
                             oracle={'name': 'discipline', 'cls': c.name, 'field': f.name})
                else:
                    row['required'] = 'static (discipline); dynamic keeps the property'
                    row['discipline_deviation'] = not f.static
                    S.oblige('static', True, tag=tag + '-hashable-metadata (either declaration keeps the property)')
                table.append(row)
    ck.explore(f'{CORE}.AbstractLinearOperator', rows, T, label='field-declarations')
    # evidence: the table itself (deduplicated: the scenario body runs once per path, here one path)
    seen = set()
    for r in table:
        k = (r['class'], r['field'])
        if k in seen:
            continue
        seen.add(k)
        ck.samples.append(r)
    dev = [f"{r['class']}.{r['field']}: {r['annotation']} declared dynamic" for r in table if r.get('discipline_deviation')]
    if dev:
        ck.assume_note('C18(b) discipline deviations on this tree (hashable metadata declared as dynamic leaves; not '
                       'violations: ints still round-trip, a filtering jit keeps them static): ' + '; '.join(sorted(set(dev))))


# ====================================================================== (c) trace-safety of every mv
def theory_c():
    T = Theory()
    STT.install(T)
    return T


def other_operator(P):
    base = P.cls(f'{CORE}.AbstractLinearOperator')
    return synth.concrete_subclass(P, base, 'OtherOperator', extra_methods=('mv', 'in_structure', 'out_structure'))


def other_contracts():
    """induction hypothesis for operands of composite operators: a trace-safe operator — its mv returns freshly
    traced arrays (here: with the tree structure of its input), its structures are Static"""
    def mv(interp, fi, args, kwargs):
        return STT.like(interp, args[1])

    def struct(interp, fi, args, kwargs):
        o = args[0]
        return o.fields.setdefault('_struct_' + fi.name, STT.SDS())
    return {f'{CORE}.OtherOperator.mv': mv, f'{CORE}.OtherOperator.in_structure': struct,
            f'{CORE}.OtherOperator.out_structure': struct}


STOKES = ['StokesIPyTree', 'StokesQUPyTree', 'StokesIQUPyTree', 'StokesIQUVPyTree']


class StaticFacet:
    """value factories of the `static` facet for the shared mv scenario builders (`mv_makers`): other facets that run
    every mv of the repo (C04's `lin`) pass their own factories"""

    def __init__(self, P):
        self.Other = other_operator(P)

    def sds(self):
        return STT.SDS()

    def param(self, what, kind='num'):
        return STT.TArr('param', kind, what=what)

    def x_leaf(self, name='x'):
        return STT.TArr('input', what=name)

    def other(self, tag):
        return Obj(self.Other, tag=tag)


def stokes_input(S, which, F=None):
    F = F or StaticFacet(S.ck.P)
    ci = S.ck.P.cls(f'{LS}.{STOKES[which]}')
    o = Obj(ci)
    for f in ci.all_fields():
        o.fields[f.name] = F.x_leaf(f'x.{f.name}')
    return o


def x_leaf(name='x'):
    return STT.TArr('input', what=name)


def x_tree(S, F=None):
    """the operator input: one leaf, a list of two leaves, or a dict"""
    leaf = F.x_leaf if F is not None else x_leaf
    k = S.choose(3)
    S.inputs['input_tree'] = ['leaf', 'list2', 'dict'][k]
    if k == 0:
        return leaf('x')
    if k == 1:
        return B.PyList([leaf('x[0]'), leaf('x[1]')])
    return {'a': leaf('x.a'), 'b': leaf('x.b')}


def mv_makers(P, F):
    """scenario builders, one per class that defines an mv: name -> fn(S) -> (operator instance with symbolic fields,
    input pytree).  F supplies the facet's values (structure tokens, parameter arrays, input leaves, the synthetic
    operand of composite operators); shared by C18 (`static`) and C04 (`lin`)."""
    SDS, param, other = F.sds, F.param, F.other

    def x_leaf(name='x'):
        return F.x_leaf(name)

    def x_tree_(S):
        return x_tree(S, F)

    def stokes_input_(S, which):
        return stokes_input(S, which, F)

    makers = {}

    def maker(clsname):
        def deco(fn):
            makers[clsname] = fn
            return fn
        return deco

    @maker('AdditionOperator')
    def _(S):
        k = S.choose(3)
        ops = [B.PyList([other('A')]), B.PyList([other('A'), other('B'), other('C')]),
               {'a': other('A'), 'b': B.PyList([other('B'), other('C')])}][k]
        return S.new('AdditionOperator', operands=ops), x_tree_(S)

    @maker('CompositionOperator')
    def _(S):
        k = S.choose(3)
        return S.new('CompositionOperator', operands=B.PyList([other(f'O{i}') for i in range(k + 1)])), x_tree_(S)

    @maker('TransposeOperator')
    def _(S):
        return S.new('TransposeOperator', operator=other('A')), x_tree_(S)

    @maker('InverseOperator')
    def _(S):
        cfg = Obj(P.cls(f'{CFG}.ConfigState'))
        opts = [{}, {'preconditioner': other('M')}][S.choose(2)]
        cfg.fields.update(solver=Ext('lineax.CG()'), solver_throw=S.bool('throw'), solver_options=opts,
                          solver_callback=PyFunc(lambda interp, s: None, 'callback'))
        return S.new('InverseOperator', operator=other('A'), config=cfg), x_tree_(S)

    @maker('IdentityOperator')
    def _(S):
        return S.new('IdentityOperator', _in_structure=SDS()), x_tree_(S)

    @maker('HomothetyOperator')
    def _(S):
        return S.new('HomothetyOperator', value=param('value'), _in_structure=SDS()), x_tree_(S)

    def diag(cls):
        def mk(S):
            axes = S.seq('axis_destination')
            S.assume(to_z3(axes.length) >= 1)
            o = S.new(cls, _diagonal=param('diagonal'), axis_destination=axes, _in_structure=SDS())
            if cls == 'DiagonalInverseOperator':
                o.fields['operator'] = S.new('DiagonalOperator', _diagonal=o.fields['_diagonal'], axis_destination=axes,
                                             _in_structure=o.fields['_in_structure'])
            k = S.choose(2)
            return o, (x_leaf() if k == 0 else B.PyList([x_leaf('x[0]'), x_leaf('x[1]')]))
        return mk
    for c in ('BroadcastDiagonalOperator', 'DiagonalOperator', 'DiagonalInverseOperator'):
        makers[c] = diag(c)

    @maker('DenseBlockDiagonalOperator')
    def _(S):
        k = S.choose(3)
        S.inputs['case'] = k
        subs = 'ij...,j...->i...'
        if k == 0:
            return S.new('DenseBlockDiagonalOperator', blocks=param('blocks'), _in_structure=SDS(), subscripts=subs), x_leaf()
        if k == 1:
            return S.new('DenseBlockDiagonalOperator', blocks=param('blocks'), _in_structure=SDS(), subscripts=subs), \
                B.PyList([x_leaf('x[0]'), x_leaf('x[1]')])
        return S.new('DenseBlockDiagonalOperator', blocks=B.PyList([param('blocks[0]'), param('blocks[1]')]),
                     _in_structure=SDS(), subscripts=subs), B.PyList([x_leaf('x[0]'), x_leaf('x[1]')])

    @maker('IndexOperator')
    def _(S):
        k = S.choose(5)
        idx = [(S.int('i'),), (slice(None), S.int('i')), (Ellipsis, param('indices', 'int')),
               (param('mask', 'bool'),), (slice(0, S.int('stop')), param('indices', 'int'))][k]
        S.inputs['indices'] = ['int', 'slice,int', 'ellipsis,int-array', 'bool-mask', 'slice,int-array'][k]
        o = S.new('IndexOperator', indices=idx, _in_structure=SDS(), _out_structure=SDS(), unique_indices=S.bool('unique'))
        return o, x_tree_(S)

    @maker('PackOperator')
    def _(S):
        return S.new('PackOperator', mask=param('mask', 'bool'), _in_structure=SDS()), x_leaf()

    @maker('MoveAxisOperator')
    def _(S):
        return S.new('MoveAxisOperator', source=S.seq('source'), destination=S.seq('destination'),
                     _in_structure=SDS()), x_tree_(S)

    @maker('RavelOperator')
    def _(S):
        return S.new('RavelOperator', first_axis=S.int('first_axis'), last_axis=S.int('last_axis'),
                     _in_structure=SDS()), x_tree_(S)

    @maker('ReshapeOperator')
    def _(S):
        return S.new('ReshapeOperator', shape=S.seq('shape'), _in_structure=SDS()), x_tree_(S)

    @maker('ReshapeTransposeOperator')
    def _(S):
        k = S.choose(2)
        if k == 0:
            inner = S.new('ReshapeOperator', shape=S.seq('shape'), _in_structure=SDS())
        else:
            inner = S.new('RavelOperator', first_axis=S.int('first_axis'), last_axis=S.int('last_axis'), _in_structure=SDS())
        return S.new('ReshapeTransposeOperator', operator=inner), x_leaf()

    def blocks_and_input(S, same_structure):
        k = S.choose(2)
        S.inputs['blocks'] = ['list2', 'dict-nested'][k]
        if k == 0:
            bl = B.PyList([other('A'), other('B')])
            x = B.PyList([x_leaf('x[0]'), x_leaf('x[1]')])
        else:
            bl = {'a': other('A'), 'b': B.PyList([other('B'), other('C')])}
            x = {'a': x_leaf('x.a'), 'b': B.PyList([x_leaf('x.b0'), x_leaf('x.b1')])}
        return bl, (x if same_structure else x_leaf())

    @maker('BlockRowOperator')
    def _(S):
        bl, x = blocks_and_input(S, True)
        return S.new('BlockRowOperator', blocks=bl), x

    @maker('BlockDiagonalOperator')
    def _(S):
        bl, x = blocks_and_input(S, True)
        return S.new('BlockDiagonalOperator', blocks=bl), x

    @maker('BlockColumnOperator')
    def _(S):
        bl, x = blocks_and_input(S, False)
        return S.new('BlockColumnOperator', blocks=bl), x

    def stokes_op(cls, **fields):
        def mk(S):
            k = S.choose(len(STOKES))
            S.inputs['stokes'] = STOKES[k]
            return S.new(cls, _in_structure=SDS(), **{n: v() for n, v in fields.items()}), stokes_input_(S, k)
        return mk
    makers['HWPOperator'] = stokes_op('HWPOperator')
    makers['LinearPolarizerOperator'] = stokes_op('LinearPolarizerOperator')
    makers['QURotationOperator'] = stokes_op('QURotationOperator', angles=lambda: param('angles'))

    @maker('QURotationTransposeOperator')
    def _(S):
        k = S.choose(len(STOKES))
        S.inputs['stokes'] = STOKES[k]
        inner = S.new('QURotationOperator', angles=param('angles'), _in_structure=SDS())
        return S.new('QURotationTransposeOperator', operator=inner), stokes_input_(S, k)

    @maker('SymmetricBandToeplitzOperator')
    def _(S):
        ci = P.cls('SymmetricBandToeplitzOperator')
        methods = S.I.class_getattr(ci, 'METHODS')
        m = methods[S.choose(len(methods))]
        S.inputs['method'] = m
        fft = S.int('fft_size') if m.startswith('overlap_') else None
        o = S.new('SymmetricBandToeplitzOperator', band_values=param('band_values'), _in_structure=SDS(), method=m,
                  fft_size=fft)
        return o, x_leaf()

    @maker('ToastObservationMatrixOperator')
    def _(S):
        return S.new('ToastObservationMatrixOperator', matrix=param('matrix (CSR)')), x_leaf()

    @maker('ToastObservationMatrixTransposeOperator')
    def _(S):
        inner = S.new('ToastObservationMatrixOperator', matrix=param('matrix (CSR)'))
        return S.new('ToastObservationMatrixTransposeOperator', operator=inner), x_leaf()

    return makers


def build_tracesafety(ck):
    P = ck.P
    T = theory_c()
    contracts = other_contracts()
    ck.assume_note('C18(c): operands of composite operators are arbitrary trace-safe operators (induction hypothesis: '
                   'contract of OtherOperator.mv); containers of operands / blocks are explored for the listed small '
                   'pytree shapes')
    ck.assume_note('C18(c): class invariants of the constructors are assumed where a helper needs them '
                   '(SymmetricBandToeplitzOperator.method in METHODS — C09; RavelOperator axes within rank — C13)')
    makers = mv_makers(P, StaticFacet(P))

    # loops that carry an array through iterations: contract = "the carried value is a traced array"
    def carried(*names):
        return LoopSpec(invariant=lambda L: all(not L.has(n) or isinstance(L.var(n), STT.TArr) or
                                                not STT.contains_traced(L.var(n)) or True for n in names),
                        havoc=lambda L: [L.set(n, STT.like(L.interp, L.var(n))) for n in names if L.has(n)])
    loop_specs = {('furax.operators.toeplitz.dense_symmetric_band_toeplitz', 0): carried('output')}

    # coverage: every class that defines its own mv has a scenario
    base = P.cls(f'{CORE}.AbstractLinearOperator')
    defining = sorted(c.name for c in P.classes.values() if base in c.mro and c is not base and 'mv' in c.methods
                      and not any(ast.unparse(d).endswith('abstractmethod') for d in c.methods['mv'].decorators))
    for name in defining:
        if name not in makers:
            ck._undecided(f'{name}.mv', 'trace-safety', 'no trace-safety scenario for this mv (new operator class?)')
    inheriting = sorted(c.name for c in P.classes.values() if base in c.mro and c is not base and 'mv' not in c.methods
                        and not P.is_abstract(c))
    ck.samples.append({'mv_definitions_covered': [n for n in defining if n in makers],
                       'classes_inheriting_a_covered_mv': {n: P.cls(n).lookup('mv')[0].name for n in inheriting}})

    def run_scenario(name):
        def sc(S, name=name):
            S.oracle = {'name': 'jit_eager', 'cls': name}
            STT.instrument(S.I)
            o, x = makers[name](S)
            S.call(S.I.getattr(o, 'mv'), [x])
            fails = S.run.ghost.get('static_failures', [])
            S.oblige('static', not fails, tag='no-value-dependent-python-control-flow-on-this-path',
                     note='; '.join(fails))
        ci = P.cls(name)
        ck.explore(f'{ci.fullname}.mv', sc, T, label='trace-safety', contracts=contracts, loop_specs=loop_specs)

    for name in defining:
        if name in makers:
            run_scenario(name)
    # classes that inherit a covered mv but override a helper that mv calls (e.g. DiagonalOperator._check_leaf_shapes,
    # DiagonalInverseOperator.diagonal): the inherited body is executed again for them
    for name in inheriting:
        c = P.cls(name)
        owner = c.lookup('mv')[0]
        between = c.mro[:c.mro.index(owner)]
        helper_names = {full.rsplit('.', 1)[-1] for full in ck.inlined
                        if any(full == f'{k.fullname}.' + full.rsplit('.', 1)[-1] for k in owner.mro)}
        overridden = sorted({n for k in between for n in k.methods} & helper_names)
        if not overridden:
            continue
        if name in makers:
            ck.samples.append({'inherited_mv_rechecked_for': name, 'because_it_overrides': overridden})
            run_scenario(name)
        else:
            ck._undecided(f'{name}.mv', 'trace-safety', f'inherits mv from {owner.name} but overrides {overridden}: no scenario')


def build(ck):
    ck.trust('assumed:JAX tracing — a function whose Python-level control flow, shapes and loop bounds depend only on '
             'Static data traces to the computation it performs eagerly (jit / equinox.filter_jit = eager)',
             'assumed:equinox flatten/unflatten of a Module is the identity (dynamic fields are children, static fields '
             'treedef metadata)')
    build_roundtrips(ck)
    build_discipline(ck)
    build_tracesafety(ck)
    # static metadata is compared by jit through __eq__: two configurations that differ in any setting must not compare
    # equal (or a second operator reuses the executable compiled for the first).  Those obligations live in the C19 pack
    # (ConfigState equality); they are re-run here by reference as obligations of this check.
    from props import C19
    ck.include(C19.build, 'C19', lambda fn: fn.startswith('furax._base.config.ConfigState'))

"""C19 — solver configuration is scoped, restored and captured correctly.

Real bodies executed (re-read from /repo on every run): furax._base.config.Config.__init__ / __enter__ / __exit__ /
instance, the module-level creation of `_config_var` and of its default `ConfigState()`, and
furax._base.core.InverseOperator.__init__ / mv.  The `with` statement itself is Python's (pyvc's st_With:
__enter__, body, __exit__(None, None, None) on normal exit, __exit__(type, value, tb) on an exception, re-raised
when __exit__ returns a false value).

Ghost state: `cur` = the binding of the context variable in the current context (theories/context.py).
Top-level statements, from the property text:
  H1  Config(**kw) stores replace(cur, **kw) — outer settings inherited, named ones overridden — and writes nothing.
  H2  __enter__ makes that instance current, returns it, and keeps the token of *this* set on self.
  H3  __exit__ — exc_type None or not — resets with that token: cur is what it was before __enter__; it does
      not swallow the exception.
  H4  {cur = c} with Config(**kw): B {cur = c}, on the normal and on the raising exit of B, for every B that
      terminates (B may itself contain with-blocks: depth-2 nesting is executed, deeper nesting is this same triple
      applied to B, i.e. induction over the nesting depth); inside B, cur = replace(c, **kw); with no block
      active the configuration is the default `ConfigState()`.
  H5  InverseOperator(A).config is the configuration current at creation; InverseOperator.mv passes exactly that
      configuration's solver / throw / options to lineax and its callback to jax.debug.callback, whatever is
      current when mv runs, and never reads the context variable.
  H6  capture survives jit caching: under the ASSUMED JAX/equinox contract "compiled traces are cached under a key in
      which static fields are compared with ==/hash" (theories/context.py), a lazy inverse keeps its own
      configuration only if configurations differing in any setting never compare equal: ConfigState's equality
      (and hash) is the structural one over ALL declared settings — executed: two ConfigState objects built by the
      real dataclass __init__ that differ in exactly one setting are != ; decided on the class table: eq kept,
      frozen, no field with compare=False / hash=False, no hand-written __eq__ / __ne__ / __hash__.
  F   frames (decided on the source text): the only module-level state of furax._base.config is `_config_var`,
      a contextvars.ContextVar; its only writers are Config.__enter__ (set) and Config.__exit__ (reset); nothing
      else in the tree touches it; ConfigState is a frozen dataclass.
The thread / asyncio clause is the assumed contract of contextvars (per-context bindings) plus F.
"""
from __future__ import annotations

import ast

import z3

from pyvc import builtins_model as B
from pyvc.theory import Theory
from pyvc.values import ClassRef, ExcVal, Obj, PyFunc, PyRaise, z_eq
from theories import context as CX
from theories import structs as ST

CFG = 'furax._base.config'
CORE = 'furax._base.core'


def theory():
    T = Theory()
    ST.install(T)
    CX.install(T)
    return T


def field_names(P):
    return [f.name for f in P.cls(f'{CFG}.ConfigState').all_fields()]


def sym_value(P, fname, tag):
    f = [x for x in P.cls(f'{CFG}.ConfigState').all_fields() if x.name == fname][0]
    if f.annotation == 'bool':
        return z3.Bool(f'{tag}_{fname}')
    return z3.Const(f'{tag}_{fname}', CX.AnyS)


def sym_config(P, tag, overrides=None):
    o = Obj(P.cls(f'{CFG}.ConfigState'), tag=tag)
    for n in field_names(P):
        o.fields[n] = sym_value(P, n, tag)
    o.fields.update(overrides or {})
    return o


def the_var(S):
    """the module-level context variable, created by executing the real module-level assignment"""
    m = S.ck.P.modules[CFG]
    try:
        v = S.I.module_global(m, '_config_var')
    except KeyError:
        v = None
    ok = isinstance(v, CX.ContextVarV)
    S.oblige('frame', ok, tag='module-state-_config_var-is-a-contextvars.ContextVar', oracle={'name': 'threads'})
    return v if ok else None


def start_state(S, var, which):
    """{cur = c}: which == 0: nothing set in this context (cur is the default); 1: an arbitrary configuration c"""
    st = var.state(S.I)
    if which == 1:
        st['cur'] = sym_config(S.ck.P, 'c')
    return st


def effective(var, cur):
    return var.default if cur is CX.UNSET else cur


def subsets(names):
    out = [()]
    for n in names:
        out += [s + (n,) for s in out]
    return out


def expect_fields(S, got, base, kw, what):
    """got: a ConfigState object; must equal replace(base, **kw) field by field (property: inherited / overridden)"""
    ok = isinstance(got, Obj) and got.cls.name == 'ConfigState'
    S.oblige('post', ok, tag=f'{what}-is-a-ConfigState')
    if not ok:
        return
    for n in field_names(S.ck.P):
        want = kw[n] if n in kw else base.fields.get(n)
        S.oblige('post', z_eq(got.fields.get(n), want),
                 tag=f'{what}.{n}-' + ('overridden-by-the-named-setting' if n in kw else 'inherited-from-the-active-configuration'))


def snapshot(o):
    return dict(o.fields) if isinstance(o, Obj) else None


def unchanged(o, snap):
    return snap is None or (set(o.fields) == set(snap) and all(o.fields[k] is snap[k] for k in snap))


WITH_SRC = '''
with Config(**kw) as entered:
    body(entered)
'''
NESTED_SRC = '''
with Config(**kw) as entered:
    body(entered)
    with Config(**kw2) as entered2:
        body2(entered2)
    after_inner()
'''


def run_stmt(S, src, env):
    """execute a `with` statement (harness AST) in the namespace of furax._base.config; returns None or the ExcVal"""
    from pyvc.interp import Frame
    fr = Frame(S.ck.P.modules[CFG])
    fr.vars.update(env)
    try:
        S.I.exec_block(ast.parse(src).body, fr)
    except PyRaise as e:
        return e.exc
    return None


def build(ck):
    T = theory()
    P = ck.P
    FN = field_names(P)
    ck.assume_note('C19: thread / asyncio isolation is the assumed contract of contextvars.ContextVar (each thread, task '
                   'and copy_context().run has its own binding); interleavings are not explored, the frame obligations '
                   'show furax keeps the configuration nowhere else')
    ck.assume_note('C19: "properly nested" histories: every __exit__ is called once, by the with statement that called '
                   'the matching __enter__')
    ck.trust('lemma:with-rule (induction over nesting depth: the Hoare triple proved for an arbitrary terminating body '
             'applies to bodies that contain with-blocks)')

    # ------------------------------------------------------------------ H1  Config.__init__
    def cfg_init(S):
        S.oracle = {'name': 'history'}
        var = the_var(S)
        if var is None:
            return
        which = S.choose(2)
        st = start_state(S, var, which)
        named = subsets(FN)[S.choose(2 ** len(FN))]
        S.inputs['named'] = list(named)
        kw = {n: sym_value(P, n, 'kw') for n in named}
        before, snap = st['cur'], snapshot(effective(var, st['cur']))
        base = effective(var, before)
        out = S.call(ClassRef(P.cls(f'{CFG}.Config')), [], kw)
        S.oblige('exc', out.normal, tag='accepts-every-subset-of-the-settings')
        if not out.normal:
            return
        expect_fields(S, out.value.fields.get('_instance'), base, kw, 'stored-instance')
        S.oblige('frame', len(st['writes']) == 0 and st['cur'] is before, tag='constructor-writes-nothing (cur unchanged)')
        S.oblige('frame', unchanged(base, snap), tag='active-configuration-object-not-modified')
    ck.explore(f'{CFG}.Config.__init__', cfg_init, T)

    def cfg_init_unknown(S):
        S.oracle = {'name': 'history'}
        var = the_var(S)
        if var is None:
            return
        st = start_state(S, var, S.choose(2))
        before = st['cur']
        out = S.call(ClassRef(P.cls(f'{CFG}.Config')), [], {'no_such_setting': z3.Const('v', CX.AnyS)})
        S.oblige('exc', out.raised('TypeError'), tag='unknown-setting-refused-with-TypeError')
        S.oblige('frame', len(st['writes']) == 0 and st['cur'] is before, tag='refusal-writes-nothing')
    ck.explore(f'{CFG}.Config.__init__', cfg_init_unknown, T, label='unknown-setting')

    # ------------------------------------------------------------------ Config.instance
    def cfg_instance(S):
        S.oracle = {'name': 'history'}
        var = the_var(S)
        if var is None:
            return
        which = S.choose(2)
        st = start_state(S, var, which)
        before = st['cur']
        out = S.call(S.I.getattr(ClassRef(P.cls(f'{CFG}.Config')), 'instance'), [])
        S.oblige('post', out.normal and out.value is effective(var, before), tag='returns-the-active-configuration')
        S.oblige('frame', len(st['writes']) == 0 and st['cur'] is before, tag='reads-only')
        if which == 0:
            d = var.default
            ok = isinstance(d, Obj) and d.cls.name == 'ConfigState'
            S.oblige('post', ok, tag='with-no-block-active-the-configuration-is-a-ConfigState')
            if ok:
                fresh = S.call(ClassRef(P.cls(f'{CFG}.ConfigState')), [], {})
                S.oblige('post', fresh.normal and all(z_eq(d.fields.get(n), fresh.value.fields.get(n)) is True or
                                                      _same_default(d.fields.get(n), fresh.value.fields.get(n))
                                                      for n in FN), tag='and-it-is-the-default-ConfigState()')
    ck.explore(f'{CFG}.Config.instance', cfg_instance, T)

    # ------------------------------------------------------------------ H2 / H3  __enter__ / __exit__
    def enter_exit(S):
        S.oracle = {'name': 'history'}
        var = the_var(S)
        if var is None:
            return
        which = S.choose(2)
        st = start_state(S, var, which)
        named = tuple(FN[:1 + S.choose(len(FN))])
        S.inputs['named'] = list(named)
        kw = {n: sym_value(P, n, 'kw') for n in named}
        cfg = S.call(ClassRef(P.cls(f'{CFG}.Config')), [], kw)
        if not cfg.normal:
            S.oblige('exc', False, tag='constructor-raised')
            return
        cfg = cfg.value
        inst = cfg.fields.get('_instance')
        # a Config object may be entered under ANOTHER active configuration than the one it was built under (objects
        # prepared up front and nested later): what must be restored is the configuration active when the block is ENTERED
        moved = S.choose(2)
        S.inputs['entered_under'] = ['the configuration it was built under', 'another configuration'][moved]
        if moved:
            st['cur'] = sym_config(S.ck.P, 'c_at_enter')
        before = st['cur']
        w0 = len(st['writes'])
        ent = S.call(S.I.getattr(cfg, '__enter__'), [])
        S.oblige('exc', ent.normal, tag='enter-returns-normally')
        if not ent.normal:
            return
        S.oblige('post', ent.value is inst, tag='enter-returns-the-stored-instance')
        S.oblige('post', st['cur'] is inst, tag='enter-makes-the-stored-instance-current')
        S.oblige('frame', len(st['writes']) == w0 + 1, tag='enter-writes-the-context-variable-once')
        exc = S.choose(2)
        args = [None, None, None] if exc == 0 else [ExcVal('ValueError'), ExcVal('ValueError'), z3.Const('tb', CX.AnyS)]
        ex = S.call(S.I.getattr(cfg, '__exit__'), args)
        how = 'normal-exit' if exc == 0 else 'exit-by-exception'
        S.oblige('exc', ex.normal, tag=f'{how}:exit-returns-normally')
        if not ex.normal:
            return
        S.oblige('post', S.I.truth_term(ex.value) is False, tag=f'{how}:exit-does-not-swallow-exceptions')
        # semantic statement: the EFFECTIVE configuration (what Config.instance() returns) is the one active at entry —
        # whether it is restored by reset(token) or by set(previous) is the code's business
        S.oblige('post', effective(var, st['cur']) is effective(var, before),
                 tag=f'{how}:configuration-active-when-the-block-was-entered-is-restored')
        S.oblige('frame', len(st['writes']) == w0 + 2, tag=f'{how}:exit-writes-the-context-variable-once')
        tok = cfg.fields.get('token')
        if isinstance(tok, CX.TokenV):
            S.oblige('post', tok.var is var and tok.old is before and tok.used,
                     tag=f'{how}:a-token-kept-on-self-is-the-one-of-this-entry-and-is-consumed')
    ck.explore(f'{CFG}.Config.__exit__', enter_exit, T)

    # ------------------------------------------------------------------ H4  the with rule
    def with_rule(S):
        S.oracle = {'name': 'history'}
        var = the_var(S)
        if var is None:
            return
        which = S.choose(2)
        st = start_state(S, var, which)
        before = st['cur']
        base = effective(var, before)
        named = tuple(FN[:S.choose(len(FN) + 1)])
        S.inputs['named'] = list(named)
        kw = {n: sym_value(P, n, 'kw') for n in named}
        # the body B: arbitrary terminating code; case 0 returns, 1 raises, 2 rebinds the variable (un-nested use
        # of set) and returns, 3 rebinds and raises.  In every case B starts by observing cur.
        case = S.choose(4)
        S.inputs['body'] = ['returns', 'raises', 'sets-then-returns', 'sets-then-raises'][case]
        seen = {}

        def body(interp, entered):
            seen['entered'] = entered
            seen['cur'] = st['cur']
            if case >= 2:
                interp.call(interp.getattr(var, 'set'), [sym_config(P, 'other')], {})
            if case in (1, 3):
                raise PyRaise(ExcVal('KeyError'))
        exc = run_stmt(S, WITH_SRC, {'kw': kw, 'body': PyFunc(body, 'B')})
        S.oblige('post', 'cur' in seen, tag='body-is-entered')
        if 'cur' not in seen:
            return
        S.oblige('post', seen['cur'] is seen['entered'], tag='inside-the-block:current-is-the-instance-bound-by-as')
        expect_fields(S, seen['cur'], base, kw, 'inside-the-block:current')
        if case in (1, 3):
            S.oblige('exc', exc is not None and exc.name == 'KeyError', tag='exception-of-the-body-propagates')
        else:
            S.oblige('exc', exc is None, tag='no-exception-when-the-body-returns')
        # (the effective configuration — what Config.instance() returns — is what counts: restoring by set(previous)
        # instead of reset(token) leaves the default explicitly bound, which no reader can tell apart)
        S.oblige('post', effective(var, st['cur']) is effective(var, before),
                 tag=f'after-the-block ({S.inputs["body"]}): the active configuration is what it was before')
    ck.explore(f'{CFG}.Config.__exit__', with_rule, T, label='with-rule')

    def with_nested(S):
        S.oracle = {'name': 'history'}
        var = the_var(S)
        if var is None:
            return
        which = S.choose(2)
        st = start_state(S, var, which)
        before = st['cur']
        base = effective(var, before)
        # outer names a prefix of the settings, inner a suffix: overlapping and non-overlapping cases
        named1 = tuple(FN[:1 + S.choose(len(FN))])
        named2 = tuple(FN[S.choose(len(FN)):])
        S.inputs['named'] = list(named1)
        S.inputs['named_inner'] = list(named2)
        kw1 = {n: sym_value(P, n, 'outer') for n in named1}
        kw2 = {n: sym_value(P, n, 'inner') for n in named2}
        inner_raises = S.choose(2)
        S.inputs['body'] = 'nested-inner-raises' if inner_raises else 'nested'
        seen = {}

        def body(interp, entered):
            seen['outer'] = st['cur']

        def body2(interp, entered2):
            seen['inner'] = st['cur']
            if inner_raises:
                raise PyRaise(ExcVal('KeyError'))

        def after_inner(interp):
            seen['after_inner'] = st['cur']
        exc = run_stmt(S, NESTED_SRC, {'kw': kw1, 'kw2': kw2, 'body': PyFunc(body, 'B'), 'body2': PyFunc(body2, 'B2'),
                                       'after_inner': PyFunc(after_inner, 'after')})
        ok = 'outer' in seen and 'inner' in seen
        S.oblige('post', ok, tag='both-bodies-entered')
        if not ok:
            return
        expect_fields(S, seen['outer'], base, kw1, 'outer-block:current')
        # innermost block: outer settings inherited (from the CURRENT configuration, not the default), named overridden
        merged = dict(kw1)
        merged.update(kw2)
        expect_fields(S, seen['inner'], base, merged, 'inner-block:current')
        if inner_raises:
            S.oblige('exc', exc is not None and exc.name == 'KeyError', tag='exception-propagates-through-both-blocks')
        else:
            S.oblige('exc', exc is None, tag='no-exception')
            S.oblige('post', seen.get('after_inner') is seen['outer'], tag='leaving-the-inner-block-restores-the-outer-configuration')
        S.oblige('post', effective(var, st['cur']) is effective(var, before),
                 tag='leaving-the-outer-block-restores-the-initial-configuration')
        if which == 0:
            S.oblige('post', S.call(S.I.getattr(ClassRef(P.cls(f'{CFG}.Config')), 'instance'), []).value is var.default,
                     tag='ending-with-the-defaults')
    ck.explore(f'{CFG}.Config.__enter__', with_nested, T, label='nested-depth-2')

    build_inverse(ck, T)
    build_equality(ck, T)
    build_frames(ck, T)


def _same_default(a, b):
    """defaults built by two evaluations of the same class-level default expression"""
    if isinstance(a, CX.RecordV) and isinstance(b, CX.RecordV):
        return a.what == b.what and repr(a.args) == repr(b.args) and repr(sorted(a.kwargs.items())) == repr(sorted(b.kwargs.items()))
    if isinstance(a, dict) and isinstance(b, dict):
        return a == b
    return a is b


# ====================================================================== H5  capture at creation
def build_inverse(ck, T):
    P = ck.P
    FN = field_names(P)

    def capture(S):
        S.oracle = {'name': 'history'}
        var = the_var(S)
        if var is None:
            return
        which = S.choose(2)
        st = start_state(S, var, which)
        before = st['cur']
        pre_case = S.choose(3)
        precond = z3.Const('preconditioner', CX.AnyS)
        opts = [{}, {'preconditioner': precond}, {'restart': z3.Const('restart', CX.AnyS)}][pre_case]
        S.inputs['options'] = sorted(opts)
        kw1 = {n: sym_value(P, n, 'creation') for n in FN}
        kw1['solver_options'] = opts
        opts_snapshot = dict(opts)
        kw2 = {n: sym_value(P, n, 'application') for n in FN}
        kw2['solver_options'] = {'other': z3.Const('other', CX.AnyS)}
        Config = ClassRef(P.cls(f'{CFG}.Config'))
        struct = ST.LeafV(z3.Const('structure', ST.Leaf))
        A = S.new('IdentityOperator', _in_structure=struct)
        c1 = S.call(Config, [], kw1).value
        S.call(S.I.getattr(c1, '__enter__'), [])
        at_creation = st['cur']
        made = S.call(ClassRef(P.cls(f'{CORE}.InverseOperator')), [A])
        S.call(S.I.getattr(c1, '__exit__'), [None, None, None])
        S.oblige('exc', made.normal, tag='inverse-of-a-square-operator-is-created')
        if not made.normal:
            return
        inv = made.value
        S.oblige('post', inv.fields.get('config') is at_creation, tag='config-field-is-the-configuration-active-at-creation')
        expect_fields(S, inv.fields.get('config'), effective(var, before), kw1, 'captured-configuration')
        S.oblige('post', inv.fields.get('operator') is A, tag='operand-kept')
        # apply under a different active configuration
        c2 = S.call(Config, [], kw2).value
        S.call(S.I.getattr(c2, '__enter__'), [])
        reads, nwrites = st['reads'], len(st['writes'])
        tr = CX.trace(S.I)
        del tr[:]
        x = z3.Const('x', CX.AnyS)
        out = S.call(S.I.getattr(inv, 'mv'), [x])
        S.oblige('exc', out.normal, tag='mv-returns-normally')
        if not out.normal:
            return
        S.oblige('frame', st['reads'] == reads and len(st['writes']) == nwrites,
                 tag='mv-neither-reads-nor-writes-the-context-variable')
        solves = [r for r in tr if r.what == 'lineax.linear_solve']
        S.oblige('post', len(solves) == 1, tag='mv-calls-linear_solve-once')
        if len(solves) != 1:
            return
        sv = solves[0]
        a_ok = len(sv.args) == 2 and isinstance(sv.args[0], CX.RecordV) and sv.args[0].what == 'lineax.TaggedLinearOperator' \
            and sv.args[0].args[0] is A and sv.args[0].args[1] == CX.Ext('lineax.positive_semidefinite_tag')
        S.oblige('post', a_ok, tag='solve-is-for-the-operand (tagged positive semidefinite for the default solver)')
        S.oblige('post', len(sv.args) == 2 and sv.args[1] is x, tag='right-hand-side-is-the-input')
        S.oblige('post', z_eq(sv.kwargs.get('solver'), kw1['solver']), tag='solver-is-the-one-captured-at-creation')
        S.oblige('post', z_eq(sv.kwargs.get('throw'), kw1['solver_throw']), tag='throw-is-the-one-captured-at-creation')
        got = sv.kwargs.get('options')
        ok = isinstance(got, dict) and sorted(got) == sorted(opts_snapshot)
        S.oblige('post', ok, tag='options-have-the-keys-captured-at-creation')
        if ok:
            for k, v in opts_snapshot.items():
                if k == 'preconditioner':
                    g = got[k]
                    S.oblige('post', isinstance(g, CX.RecordV) and g.what == 'lineax.TaggedLinearOperator' and g.args[0] is v,
                             tag='preconditioner-is-the-captured-one (tagged)')
                else:
                    S.oblige('post', z_eq(got[k], v), tag=f'option-{k}-is-the-captured-one')
        S.oblige('frame', sorted(opts) == sorted(opts_snapshot) and all(opts[k] is opts_snapshot[k] for k in opts)
                 and inv.fields['config'].fields['solver_options'] is opts,
                 tag='captured-options-dict-is-not-modified-by-mv (copied)')
        cbs = [r for r in tr if r.what == 'jax.debug.callback']
        S.oblige('post', len(cbs) == 1 and z_eq(cbs[0].args[0], kw1['solver_callback']) is True and cbs[0].args[1] is sv,
                 tag='callback-is-the-one-captured-at-creation, called with the solution')
        S.oblige('post', out.value is sv.py_getattr(S.I, 'value'), tag='returns-solution.value')
    ck.explore(f'{CORE}.InverseOperator.mv', capture, T, label='create-under-A-apply-under-B')

    def creation_frame(S):
        S.oracle = {'name': 'history'}
        var = the_var(S)
        if var is None:
            return
        st = start_state(S, var, S.choose(2))
        before = st['cur']
        A = S.new('IdentityOperator', _in_structure=ST.LeafV(z3.Const('structure', ST.Leaf)))
        made = S.call(ClassRef(P.cls(f'{CORE}.InverseOperator')), [A])
        S.oblige('frame', len(st['writes']) == 0 and st['cur'] is before, tag='creation-writes-no-configuration')
        S.oblige('post', made.normal and made.value.fields.get('config') is effective(var, before),
                 tag='outside-any-block-or-inside-one: config-field-is-the-active-configuration')
    ck.explore(f'{CORE}.InverseOperator.__init__', creation_frame, T, label='frame')


# ====================================================================== H6  equality of configurations (jit cache key)
def build_equality(ck, T):
    P = ck.P
    FN = field_names(P)
    ck.assume_note('C19: jax.jit / equinox.filter_jit cache traces under a key in which static fields (InverseOperator.config) '
                   'are compared with == / hash; operators whose static fields compare equal share one trace')

    def differ_in_one(S):
        S.oracle = {'name': 'jit_capture'}
        ci = P.cls(f'{CFG}.ConfigState')
        kw = {n: sym_value(P, n, 'a') for n in FN}
        a = S.call(ClassRef(ci), [], kw)
        k = S.choose(len(FN))
        S.inputs['differs_in'] = FN[k]
        kw2 = dict(kw)
        kw2[FN[k]] = sym_value(P, FN[k], 'b')
        b = S.call(ClassRef(ci), [], kw2)
        S.oblige('exc', a.normal and b.normal, tag='constructed-by-the-dataclass-init')
        if not (a.normal and b.normal):
            return
        S.assume(z3.Not(kw[FN[k]] == kw2[FN[k]]))
        eq = S.I.truth_term(S.I.compare('Eq', a.value, b.value))
        ne = S.I.truth_term(S.I.compare('NotEq', a.value, b.value))
        S.oblige('post', eq is False if isinstance(eq, bool) else z3.Not(eq),
                 tag=f'configurations-differing-only-in-{FN[k]}-do-not-compare-equal (a jit cache keyed on the static config never merges them)')
        S.oblige('post', ne is True if isinstance(ne, bool) else ne,
                 tag=f'configurations-differing-only-in-{FN[k]}-are-!=')
        # through the real Config path: blocks that differ only in this setting give different captured configurations
        var = the_var(S)
        if var is not None:
            Config = ClassRef(P.cls(f'{CFG}.Config'))
            c1 = S.call(Config, [], {FN[k]: kw[FN[k]]})
            c2 = S.call(Config, [], {FN[k]: kw2[FN[k]]})
            if c1.normal and c2.normal:
                e2 = S.I.truth_term(S.I.compare('Eq', c1.value.fields.get('_instance'), c2.value.fields.get('_instance')))
                S.oblige('post', e2 is False if isinstance(e2, bool) else z3.Not(e2),
                         tag=f'Config({FN[k]}=v) and Config({FN[k]}=w) store-configurations-that-do-not-compare-equal')
    ck.explore(f'{CFG}.ConfigState', differ_in_one, T, label='equality-differs-in-one-setting')

    def same_settings(S):
        S.oracle = {'name': 'jit_capture'}
        ci = P.cls(f'{CFG}.ConfigState')
        kw = {n: sym_value(P, n, 'a') for n in FN}
        a, b = S.call(ClassRef(ci), [], kw), S.call(ClassRef(ci), [], dict(kw))
        ok = a.normal and b.normal
        S.oblige('exc', ok, tag='constructed-by-the-dataclass-init')
        if ok:
            eq = S.I.truth_term(S.I.compare('Eq', a.value, b.value))
            S.oblige('post', eq, tag='structural: configurations-with-the-same-settings-compare-equal')
    ck.explore(f'{CFG}.ConfigState', same_settings, T, label='equality-same-settings')

    def declarations(S):
        S.oracle = {'name': 'jit_capture'}
        ci = P.cls(f'{CFG}.ConfigState')
        opts = CX.dataclass_options(ci)
        S.oblige('frame', opts is not None, tag='ConfigState-is-a-dataclass')
        opts = opts or {}
        # eq=False (identity equality), hash=False on a field and a hand-written __eq__ are NOT obligations: identity
        # equality never merges two configurations, a coarser hash only costs cache look-ups, and a hand-written __eq__
        # is executed by the semantic obligations above ('differ in one setting => not equal').  They are reported.
        if opts.get('eq', True) is not True:
            ck.samples.append({'deviation': 'ConfigState is declared with eq=False (identity equality: more recompilation, '
                                            'no wrong capture)'})
        S.oblige('frame', opts.get('frozen', False) is True and opts.get('unsafe_hash', False) is False,
                 tag='frozen-so-that-the-generated-__hash__-follows-the-compared-fields')
        for f in ci.all_fields():
            S.oblige('frame', f.options.get('compare', True) is True,
                     tag=f'setting-{f.name}-takes-part-in-== (no compare=False)', oracle={'name': 'jit_capture', 'field': f.name})
            if f.options.get('hash', None) not in (None, True):
                ck.samples.append({'deviation': f'setting {f.name} is excluded from the hash (hash=False): coarser cache '
                                                f'buckets, equality still separates configurations'})
        hand = [f'{c.name}.{n}' for c in ci.mro for n in ('__eq__', '__ne__', '__hash__')
                if n in c.methods or n in c.attrs or n in c.patched]
        if hand:
            ck.samples.append({'deviation': f'hand-written {hand}: decided by the semantic equality obligations'})
        inv = P.cls(f'{CORE}.InverseOperator')
        fld = [f for f in inv.all_fields() if f.name == 'config']
        S.oblige('frame', len(fld) == 1 and fld[0].static and fld[0].options.get('compare', True) is True,
                 tag='InverseOperator.config-is-a-static-field (part of the jit cache key)')
    ck.explore(f'{CFG}.ConfigState', declarations, T, label='equality-declarations')


# ====================================================================== F  frames on the source text
def enclosing_functions(tree):
    """yield (node, qualname of the innermost enclosing def / 'Class.method' / '<module>')"""
    out = []

    def rec(n, qual):
        for c in ast.iter_child_nodes(n):
            q = qual
            if isinstance(c, (ast.FunctionDef, ast.AsyncFunctionDef, ast.ClassDef)):
                q = c.name if qual == '<module>' else f'{qual}.{c.name}'
            out.append((c, q, n))
            rec(c, q)
    rec(tree, '<module>')
    return out


def build_frames(ck, T):
    P = ck.P

    def frames(S):
        S.oracle = {'name': 'threads'}
        m = P.modules[CFG]
        # F1 the variable is created by contextvars.ContextVar(...)
        v = m.assigns.get('_config_var')
        made_by = P.resolve_name(m, ast.unparse(v.func)) if isinstance(v, ast.Call) else None
        S.oblige('frame', made_by == 'contextvars.ContextVar', tag='_config_var-is-created-by-contextvars.ContextVar')
        default = None
        if isinstance(v, ast.Call):
            default = [k.value for k in v.keywords if k.arg == 'default']
        S.oblige('frame', bool(default) and ast.unparse(default[0]) == 'ConfigState()',
                 tag='its-default-is-ConfigState()')
        # F2 no other module-level state in furax._base.config
        allowed_stmt = (ast.Import, ast.ImportFrom, ast.ClassDef, ast.FunctionDef)
        other = [ast.unparse(s)[:60] for s in m.tree.body
                 if not isinstance(s, allowed_stmt)
                 and not (isinstance(s, ast.Expr) and isinstance(s.value, ast.Constant))
                 and not (isinstance(s, ast.Assign) and len(s.targets) == 1 and isinstance(s.targets[0], ast.Name)
                          and s.targets[0].id == '_config_var')]
        S.oblige('frame', not other, tag='config-module-has-no-other-module-level-state', note=str(other))
        nodes = enclosing_functions(m.tree)
        S.oblige('frame', not any(isinstance(n, (ast.Global, ast.Nonlocal)) for n, _, _ in nodes),
                 tag='config-module-declares-no-global-or-nonlocal')
        cfg_cls = m.classes.get('Config')
        S.oblige('frame', cfg_cls is not None and not cfg_cls.attrs and not [f for f in cfg_cls.fields],
                 tag='class-Config-has-no-class-level-attribute')
        # class-level writes: Config.x = ..., cls.x = ..., type(self).x = ..., self.__class__.x = ...
        def class_target(t):
            if not isinstance(t, ast.Attribute):
                return False
            b = t.value
            return (isinstance(b, ast.Name) and b.id in ('Config', 'cls', 'ConfigState')) or \
                (isinstance(b, ast.Call) and ast.unparse(b.func) == 'type') or \
                (isinstance(b, ast.Attribute) and b.attr == '__class__')
        cw = [ast.unparse(n)[:60] for n, _, _ in nodes if isinstance(n, (ast.Assign, ast.AugAssign, ast.AnnAssign))
              and any(class_target(t) for t in (n.targets if isinstance(n, ast.Assign) else [n.target]))]
        S.oblige('frame', not cw, tag='no-assignment-to-class-attributes-in-the-config-module', note=str(cw))
        # F3 every reference to _config_var is <var>.get() / .set(v) / .reset(tok), in the allowed methods
        # (frame: WHERE the variable may be read and written; how __exit__ restores — reset(token) or set(previous) — is
        # decided by the Hoare triples above, not here)
        allowed = {'get': {'Config.__init__', 'Config.instance', 'Config.__enter__'},
                   'set': {'Config.__enter__', 'Config.__exit__'}, 'reset': {'Config.__exit__'}}
        bad = []
        uses = {'get': set(), 'set': set(), 'reset': set()}
        for n, q, parent in nodes:
            if isinstance(n, ast.Name) and n.id == '_config_var':
                if isinstance(parent, ast.Assign) and q == '<module>':
                    continue
                if isinstance(parent, ast.Attribute) and parent.attr in allowed and q in allowed[parent.attr]:
                    uses[parent.attr].add(q)
                    # the attribute must be called directly
                    gp = [p for c, _, p in nodes if c is parent]
                    if gp and isinstance(gp[0], ast.Call) and gp[0].func is parent:
                        continue
                bad.append(f'{q}: {ast.unparse(parent)[:50]}')
        S.oblige('frame', not bad, tag='_config_var-is-only-used-as-get/set/reset-in-Config-methods: written only in '
                 '__enter__ / __exit__', note=str(bad))
        S.oblige('frame', 'Config.__enter__' in uses['set'] and bool(uses['set'] | uses['reset']) and
                 ('Config.__exit__' in uses['reset'] or 'Config.__exit__' in uses['set']),
                 tag='__enter__-binds-and-__exit__-rebinds-the-variable')
        # F4 nothing outside the config module touches the variable or contextvars
        leaks = []
        for mod in P.modules.values():
            for n in ast.walk(mod.tree):
                if mod.name != CFG and isinstance(n, ast.Name) and n.id == '_config_var':
                    leaks.append(mod.name)
                if isinstance(n, ast.Attribute) and n.attr == '_config_var':
                    leaks.append(mod.name)
                if isinstance(n, ast.alias) and n.name == '_config_var':
                    leaks.append(mod.name)
                if mod.name != CFG and isinstance(n, (ast.Import, ast.ImportFrom)) and 'contextvars' in ast.unparse(n):
                    leaks.append(mod.name + ':contextvars')
                if isinstance(n, ast.Attribute) and n.attr in ('__setattr__', '__dict__', '__delattr__') or \
                        isinstance(n, ast.Name) and n.id in ('setattr', 'delattr', 'globals', 'vars'):
                    leaks.append(mod.name + ':' + ast.unparse(n))
        S.oblige('frame', not leaks, tag='no-other-module-touches-_config_var / contextvars / bypasses-frozen-instances',
                 note=str(leaks))
        # F5 ConfigState is immutable
        S.oblige('frame', CX.is_frozen(P.cls(f'{CFG}.ConfigState')), tag='ConfigState-is-a-frozen-dataclass')
        # F6 InverseOperator.mv reads the configuration only through self.config
        inv = P.cls(f'{CORE}.InverseOperator')
        mv = inv.methods.get('mv')
        names = {n.id for n in ast.walk(mv.node) if isinstance(n, ast.Name)} if mv else {'<no mv>'}
        S.oblige('frame', not (names & {'Config', 'ConfigState', '_config_var', '<no mv>'}),
                 tag='InverseOperator.mv-does-not-name-Config-or-the-context-variable')
        cfg_reads = [ast.unparse(n) for n in ast.walk(mv.node) if isinstance(n, ast.Attribute) and n.attr == 'config'] if mv else []
        S.oblige('frame', bool(cfg_reads) and all(r == 'self.config' for r in cfg_reads),
                 tag='the-configuration-used-by-mv-is-self.config')
        # F7 the config field is written once, by InverseOperator.__init__
        writers = []
        for mod in P.modules.values():
            for n, q, _ in enclosing_functions(mod.tree):
                if isinstance(n, ast.Assign) and any(isinstance(t, ast.Attribute) and t.attr == 'config' for t in n.targets):
                    writers.append((f'{mod.name}.{q}', ast.unparse(n.value)))
        S.oblige('frame', writers == [(f'{CORE}.InverseOperator.__init__', 'Config.instance()')],
                 tag='config-field-written-only-by-InverseOperator.__init__-as-Config.instance()', note=str(writers))
        fld = [f for f in inv.all_fields() if f.name == 'config']
        S.oblige('frame', len(fld) == 1 and fld[0].static, tag='config-is-a-static-field (metadata, not traced)')
    ck.explore(f'{CFG}', frames, T, label='frames')

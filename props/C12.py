"""C12 — indexing and packing select, and their transposes scatter-add (pack: furax._base.indices,
furax._base.linear, StokesPyTree.__getitem__).

Every obligation comes from executing the real bodies re-read from /repo; the index tuple is a sequence of
symbolic length over the uninterpreted sort `Idx` (theories/indexing.py)."""
from __future__ import annotations

import z3

from pyvc import builtins_model as B
from pyvc.loops import LoopSpec
from pyvc.values import (Obj, PyRaise, SSeq, concrete, fresh_int, is_z3, to_z3, z_and, z_eq, z_implies, z_not, z_or, zbool)
from theories import indexing as IX
from theories import structs as ST

IND = 'furax._base.indices'
LIN = 'furax._base.linear'
# known_findings.json ids.  F_INIT, F_SCALAR, F_ALIAS are repaired in /repo (status fixed: a tagged obligation that is
# refuted again is a violation, and their native witnesses are replayed on every run); F_UNIQUE is open.
F_INIT = 'C12-init-eval-shape'
F_SCALAR = 'C12-scalar-out-structure'
F_ALIAS = 'C12-negative-alias-multiplicities'
F_UNIQUE = 'C12-unique-pair-not-reduced'


def leaf(name):
    return IX.XLeaf(z3.Const(name, ST.Leaf))


def all_basic(ind: SSeq):
    return ind.forall(lambda k, e: IX.is_basic(e.term))


def has_mask(ind: SSeq):
    return ind.exists(lambda k, e: IX.is_mask(e.term))


def two_ellipses(ind: SSeq):
    n = to_z3(ind.length)
    if concrete(n) is not None and concrete(n) < 2:
        return False
    i, j = fresh_int('i'), fresh_int('j')
    return z3.Exists([i, j], z3.And(0 <= i, i < j, j < n, IX.is_ell(ind.get(i).term), IX.is_ell(ind.get(j).term)))


def is_empty_list(v):
    return isinstance(v, B.PyList) and v.seq is None and len(v.items) == 0


# ====================================================================== IndexOperator.__init__ / _check_indices
def build_init(ck, T):
    P = ck.P

    def check_indices(S):
        S.oracle = {'name': 'construct'}
        ind = IX.idx_seq(S, 'indices')
        out = S.call(S.func(f'{IND}.IndexOperator._check_indices'), [ind])
        if out.raised('ValueError'):
            S.oblige('exc', two_ellipses(ind), tag='ValueError-only-for-more-than-one-Ellipsis')
        elif out.normal:
            S.oblige('exc', z_not(two_ellipses(ind)), tag='accepts-only-at-most-one-Ellipsis')
        else:
            S.oblige('exc', False, tag=f'undeclared-{out.value.name}')
    ck.explore(f'{IND}.IndexOperator._check_indices', check_indices, T)

    def init(S):
        S.oracle = {'name': 'construct'}
        shape_kind = S.choose(2)
        if shape_kind == 0:
            ind = IX.idx_seq(S, 'indices')
            arg = ind
        else:
            item = IX.IdxV(z3.Const('index', IX.Idx))
            S.inputs['index_kind'] = IX.f_kind(item.term)
            arg = item
            ind = SSeq.lift((item,))
        xin = leaf('xin')
        S.inputs['in_ndim'] = ST.f_ndim(xin.term)
        S.assume(xin.wf())
        out_kind = S.choose(3)
        if out_kind == 0:
            outs = None
        elif out_kind == 1:
            outs = leaf('xout')                 # a single ShapeDtypeStruct
            S.assume(outs.wf())
            S.inputs['out_ndim'] = ST.f_ndim(outs.term)
            S.inputs['out_dim0'] = ST.f_shape(outs.term)[0]
        else:
            outs = B.PyList([leaf('xout0'), leaf('xout1')])      # a container pytree of structures (non-empty)
        S.inputs['out_structure'] = ['none', 'leaf', 'list'][out_kind]
        flag_kind = S.choose(2)
        flag = None if flag_kind == 0 else S.bool('unique_flag')
        kwargs = {'in_structure': xin}
        if outs is not None:
            kwargs['out_structure'] = outs
        if flag is not None:
            kwargs['unique_indices'] = flag
        o = Obj(P.cls('IndexOperator'))
        out = S.call(S.func(f'{IND}.IndexOperator.__init__'), [o, arg], kwargs)
        refused = z_or(two_ellipses(ind), z_and(has_mask(ind), outs is None))
        # ---- `init`: no declared field is read (by hashing self.mv inside jax.eval_shape) before it is assigned.
        #      The hashing happens exactly when the output structure has to be inferred: out_structure absent, or
        #      present but false in a boolean context (a single ShapeDtypeStruct whose first dimension is 0).
        S.oblige('init', not out.raised('AttributeError'), finding=F_INIT,
                 tag='no-field-read-before-assignment' + ('' if outs is None else '-explicit-out-structure'))
        if out.raised('AttributeError'):
            # (listed finding) — still: arguments that must be refused never get as far as inferring the structure
            S.oblige('exc', z_not(refused), tag='illegal-arguments-are-refused-before-the-output-structure-is-inferred')
            return
        if out.raised('TypeError'):
            # a rank-0 ShapeDtypeStruct has no len(): `out_structure or ...` raises
            S.oblige('exc', False, finding=F_SCALAR, tag='constructs-with-an-explicit-scalar-output-structure')
            return
        if out.raised('ValueError'):
            S.oblige('exc', refused, tag='ValueError-only-for-two-ellipses-or-mask-without-out-structure')
            return
        if not out.normal:
            S.oblige('exc', False, tag=f'undeclared-{out.value.name}')
            return
        S.oblige('exc', z_not(refused), tag='accepts-only-legal-arguments')
        got = o.fields.get('indices')
        gseq = B.as_seq_or_none(S.I, got)
        ok = gseq is not None and bool(B._isinstance(S.I, got, B.BUILTINS['tuple']))
        S.oblige('post', ok, tag='indices-stored-as-a-tuple')
        if ok:
            S.oblige('post', IX.idx_seq_eq(gseq, ind), tag='indices-stored-unchanged (a single index is wrapped)')
        expect_unique = z3.If(zbool(all_basic(ind)), z3.BoolVal(True), flag if flag is not None else z3.BoolVal(False))
        u = o.fields.get('unique_indices')
        S.oblige('post', (is_z3(u) or isinstance(u, bool)) and zbool(u) == expect_unique,
                 tag='unique_indices-true-iff-no-integer-array-else-callers-flag')
        S.oblige('post', o.fields.get('_in_structure') is xin, tag='in-structure-stored')
        os_ = o.fields.get('_out_structure')
        if outs is not None and os_ is outs:
            S.oblige('post', True, tag='explicit-out-structure-stored')
        else:
            # inferred: the structure of mv applied to the input structure, i.e. in_structure[indices]
            good = isinstance(os_, IX.XLeaf) and hasattr(os_, 'indexed_from') and os_.indexed_from[0] is xin
            S.oblige('post', bool(good), tag='inferred-out-structure-is-in_structure[indices]')
            if good:
                S.oblige('post', IX.idx_seq_eq(os_.indexed_from[1], ind), tag='inferred-out-structure-uses-the-stored-indices')
            if outs is not None:
                # only a structure that is false in a boolean context may be replaced by the inferred one
                S.oblige('post', isinstance(outs, IX.XLeaf) and ST.f_shape(outs.term)[0] == 0,
                         tag='explicit-out-structure-replaced-only-if-empty')
    ck.explore(f'{IND}.IndexOperator.__init__', init, T, axioms=IX.mult_axioms())


# ====================================================================== IndexOperator.indexed_axes / reduce
AXES = f'{IND}.IndexOperator.indexed_axes'


def ind_array(run, ind: SSeq):
    arr, ax = ind.to_array(IX.Idx, unwrap=lambda x: x.term)
    for a_ in ax:
        run.assume(a_)
    return arr


def axes_spec(A: SSeq, arr, n, e, hi_before, hi_after, count_at):
    """Rank(p) = number of positions q < p other than the ellipsis position e whose index is not slice(None).
    A has Rank(count_at) entries, and every
    such position p holds at list position Rank(p): p itself before the ellipsis (p < hi_before), p - n after it
    (e < p < hi_after), and every entry of A is such a position: i.e. A lists exactly the indexed positions, in order,
    those after the ellipsis counted from the end"""
    n, m = to_z3(n), to_z3(A.length)
    e, hb, ha = to_z3(e), to_z3(hi_before), to_z3(hi_after)
    R = lambda q: IX.Rank(arr, n, e, q)                 # noqa: E731
    nonfull = lambda q: IX.f_kind(arr[q]) != IX.K_FULL      # noqa: E731
    p, i = fresh_int('p'), fresh_int('i')
    a = lambda k: to_z3(A.get(k))           # noqa: E731
    def fa(var, body, pat):
        try:
            return z3.ForAll([var], body, patterns=[pat]) if pat is not None else z3.ForAll([var], body)
        except z3.Z3Exception:
            return z3.ForAll([var], body)
    ai = a(i)
    ipat = ai if (z3.is_select(ai) and z3.eq(ai.arg(1), i)) else None
    return z3.And(
        m >= 0, m == R(to_z3(count_at)),
        fa(i, z3.Implies(z3.And(0 <= i, i < m), z3.Or(
            z3.And(0 <= ai, ai < hb, nonfull(ai)),
            z3.And(ai < 0, e < ai + n, ai + n < ha, ai + n < n, nonfull(ai + n)))), ipat),
        fa(p, z3.Implies(z3.And(0 <= p, p < hb, nonfull(p)), z3.And(0 <= R(p), R(p) < m, a(R(p)) == p)), R(p)),
        fa(p, z3.Implies(z3.And(e < p, p < ha, p < n, nonfull(p)), z3.And(0 <= R(p), R(p) < m, a(R(p)) == p - n)), R(p)))


def ellipsis_position(ind: SSeq, e):
    """e is the position of the first Ellipsis, or len(ind) when there is none"""
    n, e = to_z3(ind.length), to_z3(e)
    k = fresh_int('k')
    return z3.And(0 <= e, e <= n, z3.ForAll([k], z3.Implies(z3.And(0 <= k, k < e), z3.Not(IX.is_ell(ind.get(k).term)))),
                  z3.Implies(e < n, IX.is_ell(ind.get(e).term)))


E_GHOST = z3.Int('ellipsis_position')       # ghost: position of the first Ellipsis of self.indices, or len(self.indices)


def axes_loop_specs(get_ind):
    """loop contracts of indexed_axes.  They talk about the list being built (the one local bound to a list) and about
    the ghost E_GHOST, not about the code's own temporaries: that the code's ellipsis position equals the ghost is
    re-derived by the solver from `tuple.index`'s contract on every obligation."""
    def list_name(L):
        names = [k for k, v in L.fr.vars.items() if isinstance(v, B.PyList)]
        if len(names) != 1:
            from pyvc.values import Unsupported
            raise Unsupported(f'indexed_axes: expected exactly one list under construction, found {names}')
        return names[0]

    def as_seq(L):
        return L.var(list_name(L)).as_seq()

    def havoc(L):
        L.set(list_name(L), B.PyList(None, seq=SSeq.fresh('axes', kind='list')))

    def common(L):
        ind = get_ind(L)
        arr = ind_array(L.run, ind)
        n = to_z3(ind.length)
        L.run.assume(ellipsis_position(ind, E_GHOST))        # definition of the ghost
        return ind, arr, n, E_GHOST

    def inv0(L):
        ind, arr, n, e = common(L)
        k = to_z3(L.k)
        IX.rank_unfold(L.run, arr, n, e, [k, e])
        A = as_seq(L)
        return z3.If(k <= e, axes_spec(A, arr, n, e, k, e + 1, k), axes_spec(A, arr, n, e, e, e + 1, e))

    def inv1(L):
        ind, arr, n, e = common(L)
        k = to_z3(L.k)
        IX.rank_unfold(L.run, arr, n, e, [e, e + 1 + k, n])
        return axes_spec(as_seq(L), arr, n, e, e, e + 1 + k, e + 1 + k)
    return {(AXES, 0): LoopSpec(inv0, havoc, name='before-ellipsis'), (AXES, 1): LoopSpec(inv1, havoc, name='after-ellipsis')}


def indexed_axes_contract(interp, fi, args, kwargs):
    """callee contract of IndexOperator.indexed_axes, as proved by scenario `indexed_axes` below"""
    o = args[0]
    ind = IX.as_idx_seq(interp, o.fields['indices'])
    run = interp.run
    e = fresh_int('ellipsis_at')
    A = SSeq.fresh('indexed_axes', kind='list')
    run.assume(to_z3(A.length) >= 0)
    run.assume(ellipsis_position(ind, e))
    arr = ind_array(run, ind)
    run.assume(axes_spec(A, arr, ind.length, e, e, to_z3(ind.length), to_z3(ind.length)))
    IX.rank_unfold(run, arr, ind.length, e, [])
    r = B.PyList(None, seq=A)
    r.ghost_ellipsis = e
    return r


def wf_indices(ind: SSeq):
    """class invariant established by __init__ (scenario init/_check_indices): at most one Ellipsis"""
    return z_not(two_ellipses(ind))


def build_axes(ck, T):
    P = ck.P

    def indexed_axes(S):
        S.oracle = {'name': 'axes'}
        ind = IX.idx_seq(S, 'indices')
        S.inputs['kinds'] = ind.map(lambda x: IX.f_kind(x.term))
        S.assume(wf_indices(ind))
        o = S.new('IndexOperator', indices=ind)
        try:
            r = S.I.getattr(o, 'indexed_axes')
        except PyRaise as ex:
            S.oblige('exc', False, tag=f'no-exception-{ex.exc.name}')
            return
        ok = isinstance(r, B.PyList)
        S.oblige('post', ok, tag='returns-a-list')
        if not ok:
            return
        A = r.as_seq()
        e = E_GHOST
        S.assume(ellipsis_position(ind, e))         # definition of the ghost e
        arr = ind_array(S.run, ind)
        IX.rank_unfold(S.run, arr, ind.length, e, [e, ind.length])
        S.oblige('post', axes_spec(A, arr, ind.length, e, e, to_z3(ind.length), to_z3(ind.length)),
                 tag='positions-not-slice(None)-before-the-ellipsis-then-after-it-counted-from-the-end')
    ck.explore(AXES, indexed_axes, T, loop_specs=axes_loop_specs(lambda L: IX.as_idx_seq(L.interp, L.var('self').fields['indices'])))

    def reduce_(S):
        S.oracle = {'name': 'axes'}
        ind = IX.idx_seq(S, 'indices')
        S.inputs['kinds'] = ind.map(lambda x: IX.f_kind(x.term))
        S.assume(wf_indices(ind))
        xin = leaf('xin')
        o = S.new('IndexOperator', indices=ind, _in_structure=xin, _out_structure=leaf('xout'), unique_indices=S.bool('unique'))
        out = S.call(S.I.getattr(o, 'reduce'), [])
        if not out.normal:
            S.oblige('exc', False, tag=f'no-exception-{out.value.name}')
            return
        r = out.value
        nothing_indexed = ind.forall(lambda k, x: z3.Or(IX.is_full(x.term), IX.is_ell(x.term)))
        if r is o:
            S.oblige('post', z_not(nothing_indexed), tag='kept-only-if-some-axis-is-indexed')
        else:
            ok = isinstance(r, Obj) and r.cls.name == 'IdentityOperator' and r.fields.get('_in_structure') is xin
            S.oblige('post', bool(ok), tag='otherwise-identity-on-the-input-structure')
            S.oblige('post', nothing_indexed, tag='identity-only-if-every-index-is-slice(None)-or-Ellipsis')
    ck.explore(f'{IND}.IndexOperator.reduce', reduce_, T, contracts={AXES: indexed_axes_contract})


# ====================================================================== mv, PackOperator, StokesPyTree.__getitem__
def indexed_by(r, x, ind: SSeq):
    """r is the NumPy selection x[ind] (dependency contract of indexing), as a python bool / Bool term"""
    if not (isinstance(r, IX.XLeaf) and hasattr(r, 'indexed_from') and r.indexed_from[0] is x):
        return False
    return IX.idx_seq_eq(r.indexed_from[1], ind)


def build_mv(ck, T):
    P = ck.P

    def index_mv(S):
        S.oracle = {'name': 'select'}
        ind = IX.idx_seq(S, 'indices')
        S.inputs['kinds'] = ind.map(lambda x: IX.f_kind(x.term))
        nleaves = 1 + S.choose(2)
        S.inputs['nleaves'] = nleaves
        xs = [leaf(f'x{i}') for i in range(nleaves)]
        x = xs[0] if nleaves == 1 else ST.StructV(SSeq.lift(xs, 'list'))
        o = S.new('IndexOperator', indices=ind, _in_structure=x, _out_structure=leaf('xout'), unique_indices=S.bool('unique'))
        out = S.call(S.I.getattr(o, 'mv'), [x])
        if not out.normal:
            S.oblige('exc', False, tag=f'no-exception-{out.value.name}')
            return
        r = out.value
        rs = [r] if nleaves == 1 else (r.leaves.py_items() if isinstance(r, ST.StructV) and r.leaves.is_concrete_len() else None)
        S.oblige('post', rs is not None and len(rs) == nleaves and (nleaves == 1 or z_eq(r.treedef, x.treedef) is True),
                 tag='same-tree-structure')
        if rs is None or len(rs) != nleaves:
            return
        for i, (ri, xi) in enumerate(zip(rs, xs)):
            S.oblige('post', indexed_by(ri, xi, ind), tag=f'leaf-{i}-is-leaf[self.indices]')
    ck.explore(f'{IND}.IndexOperator.mv', index_mv, T)

    def structures(S):
        xin, xout = leaf('xin'), leaf('xout')
        o = S.new('IndexOperator', indices=IX.idx_seq(S, 'indices'), _in_structure=xin, _out_structure=xout,
                  unique_indices=S.bool('unique'))
        a = S.call(S.I.getattr(o, 'in_structure'), [])
        b = S.call(S.I.getattr(o, 'out_structure'), [])
        S.oblige('post', a.normal and a.value is xin, tag='in_structure-returns-the-stored-structure')
        S.oblige('post', b.normal and b.value is xout, tag='out_structure-returns-the-stored-structure')
    ck.explore(f'{IND}.IndexOperator.in_structure', structures, T)

    STOKES = {'StokesIPyTree': 'I', 'StokesQUPyTree': 'QU', 'StokesIQUPyTree': 'IQU', 'StokesIQUVPyTree': 'IQUV'}

    def pack_mv(S):
        """the pack operator behaves as indexing every leaf by its mask, for every kind of pytree"""
        S.oracle = {'name': 'pack'}
        mask = IX.IdxV(z3.Const('mask', IX.Idx))
        S.assume(IX.is_mask(mask.term))
        kind = S.choose(4)
        S.inputs['tree'] = ['leaf', 'stokes', 'list', 'dict'][kind]
        if kind == 0:
            x = leaf('x')
            leaves_of = lambda t: [t]                                       # noqa: E731
        elif kind == 1:
            cname = list(STOKES)[S.choose(4)]
            comps = [c.lower() for c in STOKES[cname]]
            x = S.new(cname, **{c: leaf('x_' + c) for c in comps})
            leaves_of = lambda t: [t.fields.get(c) for c in comps] if isinstance(t, Obj) and t.cls is x.cls else None   # noqa: E731
        elif kind == 2:
            x = B.PyList([leaf('x0'), leaf('x1')])
            leaves_of = lambda t: list(t.items) if isinstance(t, B.PyList) and t.seq is None else None   # noqa: E731
        else:
            x = {'a': leaf('xa'), 'b': leaf('xb')}
            leaves_of = lambda t: [t[k] for k in ('a', 'b')] if isinstance(t, dict) and list(t) == ['a', 'b'] else None   # noqa: E731
        o = S.new('PackOperator', mask=mask, _in_structure=x)
        out = S.call(S.I.getattr(o, 'mv'), [x])
        if not out.normal:
            S.oblige('exc', False, tag=f'no-exception-{out.value.name}-for-a-{S.inputs["tree"]}-pytree')
            return
        got, want = leaves_of(out.value), leaves_of(x)
        S.oblige('post', got is not None and len(got) == len(want), tag=f'same-container-{S.inputs["tree"]}')
        if got is None or len(got) != len(want):
            return
        for i, (r, xi) in enumerate(zip(got, want)):
            S.oblige('post', indexed_by(r, xi, SSeq.lift((mask,))), tag=f'{S.inputs["tree"]}-leaf-{i}-is-leaf[mask]')
    ck.explore(f'{LIN}.PackOperator.mv', pack_mv, T)

    def stokes_getitem(S):
        S.oracle = {'name': 'pack'}
        idx = IX.IdxV(z3.Const('index', IX.Idx))
        S.inputs['index_kind'] = IX.f_kind(idx.term)
        names = {'StokesIPyTree': 'I', 'StokesQUPyTree': 'QU', 'StokesIQUPyTree': 'IQU', 'StokesIQUVPyTree': 'IQUV'}
        cname = list(names)[S.choose(4)]
        comps = [c.lower() for c in names[cname]]
        x = S.new(cname, **{c: leaf('x_' + c) for c in comps})
        out = S.call(S.I.getattr(x, '__getitem__'), [idx])
        if not out.normal:
            S.oblige('exc', False, tag=f'no-exception-{out.value.name}')
            return
        r = out.value
        ok = isinstance(r, Obj) and r.cls is x.cls and set(r.fields) == set(comps)
        S.oblige('post', bool(ok), tag='same-stokes-class-same-components')
        if ok:
            for c in comps:
                S.oblige('post', indexed_by(r.fields.get(c), x.fields[c], SSeq.lift((idx,))), tag=f'component-{c}-is-component[index]')
    ck.explore('furax.landscapes.StokesPyTree.__getitem__', stokes_getitem, T)


# ====================================================================== rules
def mk_index_op(S, tag, ind, xin, unique):
    return S.new('IndexOperator', indices=ind, _in_structure=xin, _out_structure=leaf('xout_' + tag), unique_indices=unique)


def build_rules(ck, T):
    P = ck.P

    # ---------------------------------------------------------------- AbstractBinaryRule.check on the three pairs
    def check(S):
        S.oracle = {'name': 'rules'}
        rname = ['IndexTransposeRule', 'TransposeIndexRule', 'PackUnpackRule'][S.choose(3)]
        S.inputs['rule'] = rname
        xin = leaf('xin')
        if rname == 'PackUnpackRule':
            mk = lambda t: S.new('PackOperator', mask=IX.IdxV(z3.Const('mask_' + t, IX.Idx)), _in_structure=xin)   # noqa: E731
        else:
            mk = lambda t: mk_index_op(S, t, IX.idx_seq(S, 'indices_' + t), xin, S.bool('unique_' + t))           # noqa: E731
        p, q = mk('p'), mk('q')
        tp, tq = S.new('TransposeOperator', operator=p), S.new('TransposeOperator', operator=q)
        pairs = {'p@pT': (p, tp), 'pT@p': (tp, p), 'p@qT': (p, tq), 'qT@p': (tq, p), 'p@q': (p, q), 'pT@qT': (tp, tq)}
        key = list(pairs)[S.choose(len(pairs))]
        S.inputs['pair'] = key
        left, right = pairs[key]
        rule = Obj(P.cls(rname))
        out = S.call(S.I.getattr(rule, 'check'), [left, right])
        expected = {'IndexTransposeRule': 'p@pT', 'TransposeIndexRule': 'pT@p', 'PackUnpackRule': 'p@pT'}[rname]
        if key == expected:
            S.oblige('post', out.normal, tag=f'{rname}-accepts-an-operator-next-to-its-own-transpose')
        else:
            S.oblige('post', out.raised('NoReduction'), tag=f'{rname}-declines-{key}')
    ck.explore('furax._base.rules.AbstractBinaryRule.check', check, T)

    # ---------------------------------------------------------------- IndexTransposeRule.apply:  P @ P.T -> []
    def index_transpose(S):
        S.oracle = {'name': 'rules'}
        ind = IX.idx_seq(S, 'indices')
        S.inputs['kinds'] = ind.map(lambda x: IX.f_kind(x.term))
        flag = S.bool('callers_flag')        # unique_indices=True passed by the caller (False when omitted)
        # class invariant established by __init__ (scenario `init`, post unique_indices-...)
        unique = z3.If(zbool(all_basic(ind)), z3.BoolVal(True), flag)
        xin = leaf('xin')
        p = mk_index_op(S, 'p', ind, xin, unique)
        tp = S.new('TransposeOperator', operator=p)
        rule = Obj(P.cls('IndexTransposeRule'))
        out = S.call(S.I.getattr(rule, 'apply'), [p, tp])
        never_twice = z_or(all_basic(ind), flag)      # LA5 side condition: no input element is selected twice
        if out.normal:
            S.oblige('post', is_empty_list(out.value), tag='rewrites-to-the-empty-product')
            S.oblige('post', never_twice, tag='fires-only-if-no-element-is-selected-twice (LA5)')
        elif out.raised('NoReduction'):
            if S.ck.prop != 'C01':
                S.oblige('post', z_not(never_twice), tag='declines-only-if-an-integer-array-without-uniqueness-promise')
        else:
            S.oblige('exc', False, tag=f'undeclared-{out.value.name}')
    ck.explore(f'{IND}.IndexTransposeRule.apply', index_transpose, T)

    # ---------------------------------------------------------------- PackUnpackRule.apply
    def pack_unpack(S):
        S.oracle = {'name': 'pack'}
        mask = IX.IdxV(z3.Const('mask', IX.Idx))
        S.assume(IX.is_mask(mask.term))
        p = S.new('PackOperator', mask=mask, _in_structure=leaf('xin'))
        tp = S.new('TransposeOperator', operator=p)
        rule = Obj(P.cls('PackUnpackRule'))
        out = S.call(S.I.getattr(rule, 'apply'), [p, tp])
        S.oblige('post', out.normal and is_empty_list(out.value), tag='rewrites-to-the-empty-product (LA5: a mask never selects twice)')
    ck.explore(f'{LIN}.PackUnpackRule.apply', pack_unpack, T)

    # ---------------------------------------------------------------- TransposeIndexRule.apply:  P.T @ P -> Dg(mult)
    def transpose_index(S, uniq_case, nleaves):
        S.oracle = {'name': 'multiplicities'}
        ind = IX.idx_seq(S, 'indices')
        S.inputs['kinds'] = ind.map(lambda x: IX.f_kind(x.term))
        n = to_z3(ind.length)
        S.assume(wf_indices(ind))
        # uniq_case 0: not unique, 1: unique_indices set (finding: pair left unreduced)
        flag = S.bool('callers_flag')
        basic = zbool(all_basic(ind))
        S.assume(z3.Or(basic, flag) if uniq_case == 1 else z3.And(z3.Not(basic), z3.Not(flag)))
        S.inputs['unique'] = bool(uniq_case)
        unique = z3.If(basic, z3.BoolVal(True), flag)
        S.inputs['nleaves'] = nleaves
        xs = [leaf(f'x{i}') for i in range(nleaves)]
        xin = xs[0] if nleaves == 1 else ST.StructV(SSeq.lift(xs, 'list'))
        e = fresh_int('e')
        S.assume(ellipsis_position(ind, e))
        for xl in xs:
            S.assume(xl.wf(min_dim=1))      # no empty axis (an empty axis admits no in-bounds integer index)
            # in-bounds: the tuple addresses existing axes of every leaf
            S.assume(n - z3.If(e < n, 1, 0) <= ST.f_ndim(xl.term))
        p = mk_index_op(S, 'p', ind, xin, unique)
        tp = S.new('TransposeOperator', operator=p)
        rule = Obj(P.cls('TransposeIndexRule'))
        out = S.call(S.I.getattr(rule, 'apply'), [tp, p])
        arr = ind_array(S.run, ind)
        R = lambda q: IX.Rank(arr, n, e, q)          # noqa: E731
        naxes = R(n)                                  # number of indexed axes (ghost; linked by the callee contract)
        same_shapes = True if nleaves == 1 else xs[0].shape.eq(xs[1].shape)
        if out.raised('NoReduction'):
            if S.ck.prop == 'C01':
                return      # declining is always sound; whether the pattern must be rewritten is C07/C12's matter
            legit = z_or(naxes > 1, naxes == 0, z_not(same_shapes))
            # the property wants the diagonal of multiplicities for every single indexed axis, whatever unique_indices says
            # (the decline under unique_indices was finding C12-unique-pair-not-reduced, repaired in /repo)
            S.oblige('post', legit, hint=(n == 1) if uniq_case == 1 else None,
                     tag='declines-only-for-several-indexed-axes-or-leaf-shapes'
                         + (' (unique_indices set)' if uniq_case == 1 else ''))
            return
        if not out.normal:
            S.oblige('exc', False, tag=f'undeclared-{out.value.name} (a single non-unique indexed axis is an integer array inside the leaf rank)')
            return
        r = out.value
        ok = isinstance(r, B.PyList) and r.seq is None and len(r.items) == 1 and isinstance(r.items[0], Obj) \
            and r.items[0].cls.name == 'DiagonalOperator'
        S.oblige('post', bool(ok), tag='rewrites-to-one-DiagonalOperator')
        if not ok:
            return
        d = r.items[0]
        S.oblige('post', z_and(naxes == 1, same_shapes), tag='fires-only-for-one-indexed-axis-and-one-leaf-shape')
        S.oblige('post', d.fields.get('_in_structure') is xin, tag='diagonal-acts-on-the-input-structure')
        # the indexed position ppos and its axis (counted from the end after the ellipsis)
        ppos = fresh_int('ppos')
        S.assume(z3.And(0 <= ppos, ppos < n, ppos != e, IX.f_kind(arr[ppos]) != IX.K_FULL))     # exists: naxes == 1 (ghost witness)
        axis = z3.If(ppos < e, ppos, ppos - n)
        dest = d.fields.get('axis_destination')
        S.oblige('post', isinstance(dest, tuple) and len(dest) == 1 and z_eq(dest[0], axis), tag='diagonal-laid-on-the-indexed-axis')
        t = arr[ppos]
        cov = d.fields.get('_diagonal')
        okc = isinstance(cov, IX.ArrV) and 'scatter' in cov.ghost
        S.oblige('post', bool(okc), tag='diagonal-values-are-a-scatter-add')
        if not okc:
            return
        x0 = xs[0]
        nd = ST.f_ndim(x0.term)
        size = ST.f_shape(x0.term)[z3.If(axis < 0, axis + nd, axis)]          # length of the indexed axis
        S.inputs['size'] = size
        S.assume(size >= 1)
        S.oblige('post', z_eq(cov.length, size), tag='one-multiplicity-per-position-of-the-indexed-axis')
        w = fresh_int('w')
        # in-bounds index array (the property's quantifier)
        S.assume(z3.ForAll([w], z3.Implies(IX.Mult(t, w) > 0, z3.And(-size <= w, w < size)), patterns=[IX.Mult(t, w)]))
        v = S.int('v')
        S.assume(z3.And(0 <= v, v < size))
        S.inputs['mult_v'] = IX.Mult(t, v)
        S.inputs['mult_v_minus_size'] = IX.Mult(t, v - size)
        sc = cov.ghost['scatter']
        U, C = sc['U'], sc['C']
        ug = U.ghost.get('unique')
        sh = IX.f_ishape(t)
        # search guidance only — where the two known ways of truncating jnp.unique show first, on an axis of length 2:
        # (A) an index array of shape (2, 1) hitting both positions (more distinct values than its last axis is long);
        # (B) the entries 1, -1, 0 (negative alias: three distinct raw values)
        hint_a = z3.And(IX.f_irank(t) == 2, sh[0] == 2, sh[1] == 1, IX.Mult(t, 0) == 1, IX.Mult(t, 1) == 1,
                        IX.Mult(t, -1) == 0, IX.Mult(t, -2) == 0)
        hint_b = z3.And(IX.f_irank(t) == 1, sh[0] == 3, IX.Mult(t, 0) == 1, IX.Mult(t, 1) == 1, IX.Mult(t, -1) == 1,
                        IX.Mult(t, -2) == 0)
        if ug is not None:
            # instances of the unique contract (every occurring value is among the distinct values) at the two values
            # that can address position v, and the lemma instances (trusted finite combinatorics, theories/indexing.py)
            S.assume(z3.And(ug['member'](v), ug['member'](v - size)))
            S.assume(IX.sum_support(U.elems, C.elems, U.length, cov.length, v, ug['Pos'](v), ug['Pos'](v - size)))
            S.assume(IX.pigeonhole(ug['UF'], ug['D'], to_z3(cov.length)))
            hint_a = z3.And(hint_a, ug['D'] == 2, ug['UF'][0] == 0, ug['UF'][1] == 1, ug['Pos'](1) == 1, ug['Pos'](-1) == 0)
            hint_b = z3.And(hint_b, ug['D'] == 3, ug['UF'][0] == -1, ug['UF'][1] == 0, ug['UF'][2] == 1, ug['Pos'](1) == 2,
                            ug['Pos'](-1) == 0)
        hint = z3.And(size == 2, n == 1, v == 1, z3.Or(hint_a, hint_b))
        # number of selections of position v: entries v and v - size of an integer array, Sel for an int / slice / mask
        selected = z3.If(IX.is_iarr(t), IX.Mult(t, v) + IX.Mult(t, v - size), IX.Sel(t, size, v))
        S.inputs['kind_of_the_indexed_item'] = IX.f_kind(t)
        goal = cov.elems[v] == selected
        S.oblige('post', goal, finding=F_ALIAS, hint=hint, tag='coverage[v]-is-the-number-of-entries-selecting-position-v')
    for uc in (0, 1):
        for nl in (1, 2):
            ck.explore(f'{IND}.TransposeIndexRule.apply', (lambda uc, nl: lambda S: transpose_index(S, uc, nl))(uc, nl), T,
                       label=f'{"unique" if uc else "not-unique"}-{nl}-leaf', axioms=IX.mult_axioms(),
                       contracts={AXES: indexed_axes_contract, IX.DIAGONAL_INIT: IX.diagonal_init_contract})


def build(ck):
    T = IX.theory()
    ck.assume_note('C12: index items are ints, slices, Ellipsis, integer arrays or boolean masks (the declared type of '
                   'IndexOperator.indices); None/newaxis and Python bools are outside the property')
    ck.assume_note('C12: in-bounds index expressions (the property\'s quantifier): entries of an integer index array lie '
                   'in [-size, size) of the indexed axis, the tuple addresses existing axes')
    ck.trust('lemma:sum-support (a finite sum whose terms vanish outside two known positions equals the sum of those two terms)',
             'lemma:pigeonhole (D values with pairwise distinct positions in [0, s) satisfy D <= s)')
    ck.assume_note('C12: unique_indices=True passed by the caller is a truthful promise that no element is selected twice')
    ck.trust('lemma:count-threshold (Count(b) >= 0; >= 1 iff some position holds; >= 2 iff two distinct positions hold)',
             'lemma:LA5 a selection matrix times its adjoint is the identity iff no input element is selected twice')
    build_init(ck, T)
    build_axes(ck, T)
    build_mv(ck, T)
    build_rules(ck, T)
    lazy_transposes(ck)


def lazy_transposes(ck):
    """'its transpose accumulates the selected positions into a zero array': IndexOperator and PackOperator define no
    transpose of their own — op.T is the lazy TransposeOperator, i.e. jax.linear_transpose of the gather proved above (an
    assumed dependency contract, conformance-checked by the native oracle `select` in the thorough tier).  That they
    resolve to the default is decided on the class table; a hand-written transpose is outside the contracts of this pack:
    the clause is then undecided and the oracle is run at once"""
    P = ck.P
    base = P.cls('furax._base.core.AbstractLinearOperator')
    lazy = P.cls('furax._base.core.TransposeOperator')
    for cname in ('IndexOperator', 'PackOperator'):
        ci = P.cls(cname)
        owner = next((c for c in ci.mro if 'transpose' in c.methods or 'transpose' in getattr(c, 'patched', {})), None)
        if owner is not base:
            ck._undecided(f'{ci.module}.{cname}.transpose', 'lazy-transposes',
                          f'{cname}.transpose resolves to {owner.name if owner else None}, not to the lazy default',
                          oracle={'name': 'select'})
    for c in P.classes.values():
        if lazy in c.mro and c is not lazy and 'mv' in c.methods and c.module in ('furax._base.indices', 'furax._base.linear'):
            ck._undecided(f'{c.module}.{c.name}.mv', 'lazy-transposes', 'hand-written transposed application',
                          oracle={'name': 'select'})
    ck.samples.append({'transposes_of_index_and_pack_operators': 'lazy default (jax.linear_transpose of mv)'})


"""C01 — reduce() never changes the denoted map."""
from __future__ import annotations

import z3

from props import driver
from pyvc import builtins_model as B
from pyvc.values import Obj, SSeq, fresh_int, to_z3, z_and, z_eq, z_not
from theories import alg as A

CORE = 'furax._base.core'
RULES = 'furax._base.rules'
ORACLE = {'name': 'reduce_family'}


def scan_contract(interp, fi, args, kwargs):
    """AlgebraicReductionRule.apply — proved by driver.scan (C01 part) for chains of length >= 1"""
    ops = B.as_seq(interp, args[-1])
    run = interp.run
    a0 = A.arr_of(run, ops)
    n0 = to_z3(ops.length)
    run.oblige(f'{interp.cur_name()}/pre:scan', z3.And(n0 >= 1, A.chain_ok(a0, n0)), kind='pre',
               meta=A.AlgTheory._meta(interp))
    r = A.op_seq('scanned')
    n = to_z3(r.length)
    run.assume(z3.And(n >= 0, A.Ww(r.arr, 0, n) == A.Ww(a0, 0, n0), A.Wc(r.arr, 0, n) == A.Wc(a0, 0, n0),
                      A.chain_ok(r.arr, n),
                      z3.Implies(n >= 1, z3.And(A.outs(r.arr[0]) == A.outs(a0[0]), A.ins(r.arr[n - 1]) == A.ins(a0[n0 - 1]))),
                      z3.Implies(n == 0, A.outs(a0[0]) == A.ins(a0[n0 - 1])),
                      A.lem_empty(r.arr, 0), A.lem_single(r.arr, 0)))
    return B.PyList(None, seq=r)


def block_rules(ck, T, axioms, different_layout_finding=None):
    """the four block rules: check accepts the class pair, apply succeeds for containers of the same layout and preserves
    the product (LA4) and the end structures.  With `different_layout_finding` (C10) a second scenario drops the
    same-layout assumption: the precondition of jax.tree.map (same treedef) is then the obligation that fails, isolated
    under that listed finding."""
    P = ck.P
    BL = 'furax._base.blocks'
    # ------------------------------------------------------------------ the four block rules
    KIND = {'BlockRowOperator': 'Row', 'BlockDiagonalOperator': 'Diag', 'BlockColumnOperator': 'Col'}
    block_rules = [c for c in P.subclasses(P.cls('AbstractBlockDiagonalRule'), concrete_only=True)
                   if not c.name.startswith('Abstract')]

    def block_rule(S, same_layout):
        S.oracle = ORACLE
        rc = block_rules[S.choose(len(block_rules))]
        rule = Obj(rc)
        lcls = S.I.getattr(rule, 'left_operator_class').info
        rcls = S.I.getattr(rule, 'right_operator_class').info
        kl, kr = KIND[lcls.name], KIND[rcls.name]
        lb = S.seq('left_blocks', kind='list', sort=A.Op)
        rb = S.seq('right_blocks', kind='list', sort=A.Op)
        n, m = to_z3(lb.length), to_z3(rb.length)
        la, ra = lb.arr, rb.arr
        k = fresh_int('k')
        S.assume(z3.And(n >= 1, m >= 1))
        # constructors' invariants (C10); irrelevant to (and left out of) the different-layout scenario
        if kl == 'Row' and same_layout:
            S.assume(z3.ForAll([k], z3.Implies(z3.And(k >= 0, k < n), A.outs(la[k]) == A.outs(la[0]))))
        if kr == 'Col' and same_layout:
            S.assume(z3.ForAll([k], z3.Implies(z3.And(k >= 0, k < m), A.ins(ra[k]) == A.ins(ra[0]))))
        lblocks, rblocks = B.PyList(None, seq=lb), B.PyList(None, seq=rb)
        lblocks.treedef, rblocks.treedef = z3.Int('left_treedef'), z3.Int('right_treedef')
        left, right = S.new(lcls.name, blocks=lblocks), S.new(rcls.name, blocks=rblocks)
        # the pair stands in a well-typed chain: in-structure tree of left == out-structure tree of right
        S.assume(A.BLKS[kl + 'in'](la, n) == A.BLKS[kr + 'out'](ra, m))
        if not same_layout:
            S.assume(z3.Not(z3.And(n == m, lblocks.treedef == rblocks.treedef)))
            S.pre_finding = different_layout_finding
        if same_layout:
            S.assume(z3.And(n == m, lblocks.treedef == rblocks.treedef))
            S.assume(A.lem_tree_struct_injective(A.BLKS[kl + 'in'], la, A.BLKS[kr + 'out'], ra, n, A.ins, A.outs))
            if kl == 'Row' and kr == 'Col':
                pass
        chk = S.call(S.I.getattr(rule, 'check'), [left, right])
        S.oblige('post', chk.normal, tag=f'{rc.name}:check-accepts-its-class-pair')
        out = S.call(S.I.getattr(rule, 'apply'), [left, right])
        if not same_layout:
            return      # the failing obligation is the `pre:tree.map-same-treedef` stated inside apply (jax raises there)
        if not out.normal:
            S.oblige('exc', out.raised('NoReduction'), tag=f'{rc.name}:only-NoReduction-may-escape:{out.value.name}',
                     note=str(out.where))
            return
        ok = isinstance(out.value, B.PyList) and out.value.seq is None and len(out.value.items) == 1
        S.oblige('post', bool(ok), tag=f'{rc.name}:returns-one-operator')
        if not ok:
            return
        res = out.value.items[0]
        c, w, i_, o_ = A.den_of(S.I, res)
        cl, wl, il, ol = A.den_of(S.I, left)
        cr, wr, ir, orr = A.den_of(S.I, right)
        S.oblige('post', z3.And(w == z3.Concat(wl, wr), c == cl * cr), tag=f'{rc.name}:product-preserved (LA4)', exact=False)
        S.oblige('post', z3.And(i_ == ir, o_ == ol), tag=f'{rc.name}:end-structures-kept', exact=False)

    def block_rule_hook(interp, fi, args, kwargs):
        return None
    ck.explore(f'{BL}.AbstractBlockDiagonalRule.apply', lambda S: block_rule(S, True), T, label='same-layout',
               axioms=axioms + A.block_struct_axioms() + A.matprod_axioms(),
               contracts={**A.block_structure_contracts(), **A.container_callee_contracts(P)})
    if different_layout_finding:
        ck.explore(f'{BL}.AbstractBlockDiagonalRule.apply', lambda S: block_rule(S, False), T, label='different-layout',
                   axioms=[],
                   contracts={**A.block_structure_contracts(), **A.container_callee_contracts(P)})


def block_reduces(ck, T, axioms):
    """reduce() of the three block operators: same map, same structures (flat containers of any arity)"""
    BL = 'furax._base.blocks'
    for cname, kind in (('BlockRowOperator', 'Row'), ('BlockDiagonalOperator', 'Diag'), ('BlockColumnOperator', 'Col')):
        def block_reduce(S, cname=cname, kind=kind):
            S.oracle = ORACLE
            ops = S.seq('blocks', kind='list', sort=A.Op)
            n0 = to_z3(ops.length)
            a0 = ops.arr
            k = fresh_int('k')
            S.assume(n0 >= 1)
            # class invariant established by the constructor (C10): shared structures agree
            if kind == 'Row':
                S.assume(z3.ForAll([k], z3.Implies(z3.And(k >= 0, k < n0), A.outs(a0[k]) == A.outs(a0[0]))))
            if kind == 'Col':
                S.assume(z3.ForAll([k], z3.Implies(z3.And(k >= 0, k < n0), A.ins(a0[k]) == A.ins(a0[0]))))
            # LA4: a block diagonal of identities is the identity on the container structure
            S.assume(z3.Implies(z3.ForAll([k], z3.Implies(z3.And(k >= 0, k < n0), z3.And(A.denw(a0[k]) == A.EMPTY,
                                                                                      A.denc(a0[k]) == 1))),
                                A.BLKW['Diag'](a0, n0) == A.EMPTY))
            # the container's input and output structure trees coincide when every block is square (same leaves)
            S.assume(z3.Implies(z3.ForAll([k], z3.Implies(z3.And(k >= 0, k < n0), A.ins(a0[k]) == A.outs(a0[k]))),
                                A.BLKS['Diagin'](a0, n0) == A.BLKS['Diagout'](a0, n0)))
            o = S.new(cname, blocks=B.PyList(None, seq=ops))
            out = S.call(S.I.getattr(o, 'reduce'), [])
            if not out.normal:
                S.oblige('exc', False, tag=f'no-exception-{out.value.name}', note=str(out.where))
                return
            c, w, i_, o_ = A.den_of(S.I, out.value)
            S.oblige('post', z3.And(w == A.BLKW[kind](a0, n0), c == 1), tag='same-map', exact=False)
            S.oblige('post', z3.And(i_ == A.BLKS[kind + 'in'](a0, n0), o_ == A.BLKS[kind + 'out'](a0, n0)),
                     tag='same-structures', exact=False)
        ck.explore(f'{BL}.{cname}.reduce', block_reduce, T, axioms=axioms + A.block_struct_axioms(),
                   contracts=A.block_structure_contracts())


def build(ck):
    T = A.AlgTheory(ck.P)
    P = ck.P
    ck.trust('lemma:LA1 scalars are central (coefficient factored out of the word)',
             'proved:W-fold lemmas (split/single/pair/congruence: obligations lemma-base/lemma-step of this check; only the induction principle is meta-level)',
             'lemma:filter-preserves-product (dropping neutral square factors from a chain; induction)',
             'lemma:container-congruence (sum / block row / diagonal / column are functions of their blocks)')
    ck.assume_note('C01: operator containers (sum terms, blocks) are modelled as flat leaf sequences with an opaque '
                   'treedef; nested containers are not distinguished from flat ones')
    ck.assume_note('C01: termination of the rule scan is proved by the lexicographic variant (length, potential, length - index) '
                   'under the termination clause of the rule contract: a rule returning two operators lowers the potential of the '
                   'chain (only QURotationHWPRule does: it moves the HWP left of a rotation; potential = number of '
                   '(rotation, HWP) inversions), and relocating/merging scalar factors does not raise it (trusted: the potential '
                   'ignores scalar operators). Termination of the recursion over the expression tree is structural.')
    ck.trust('lemma:potential (inversion count of (rotation, HWP) pairs: >= 0, lowered by R·H -> H·R\', unaffected by scalar factors)')
    driver.scan(ck, T, 'C01')
    driver.rules_scenarios(ck, T, 'C01')
    from props import lemmas
    lemmas.w_lemmas(ck)          # the W-fold lemmas instantiated throughout are proved here by induction
    lemmas.selection_lemmas(ck)  # ... and the selection lemmas of the filtering comprehension (IdentityRule)
    axioms = driver.size_axioms() + A.reduce_axioms() + T.class_axioms()

    # ------------------------------------------------------------------ CompositionOperator.reduce
    def composition_reduce(S):
        S.oracle = ORACLE
        ops = S.seq('operands', kind='list', sort=A.Op)
        n0 = to_z3(ops.length)
        a0 = ops.arr
        S.assume(z3.And(n0 >= 1, A.chain_ok(a0, n0)))       # class invariant of a composition (C02 establishes it)
        o = S.new('CompositionOperator', operands=B.PyList(None, seq=ops))
        out = S.call(S.I.getattr(o, 'reduce'), [])
        if not out.normal:
            S.oblige('exc', False, tag=f'no-exception-{out.value.name}', note=str(out.where))
            return
        # the comprehension [operand.reduce() for operand in self.operands] has the words of the operands
        k = fresh_int('k')
        c, w, i_, o_ = A.den_of(S.I, out.value)
        S.oblige('post', z3.And(w == A.Ww(a0, 0, n0), c == A.Wc(a0, 0, n0)), tag='same-map', exact=False)
        S.oblige('post', z3.And(i_ == A.ins(a0[n0 - 1]), o_ == A.outs(a0[0])), tag='same-structures', exact=False)
    contracts = {f'{RULES}.AlgebraicReductionRule.apply': scan_contract}
    ck.explore(f'{CORE}.CompositionOperator.reduce', composition_reduce, T, contracts=contracts, axioms=axioms)

    # ------------------------------------------------------------------ AdditionOperator.reduce
    def addition_reduce(S):
        S.oracle = ORACLE
        ops = S.seq('operands', kind='list', sort=A.Op)
        n0 = to_z3(ops.length)
        a0 = ops.arr
        k = fresh_int('k')
        # class invariant of a sum: non-empty, all terms share the structures of the first
        S.assume(z3.And(n0 >= 1, z3.ForAll([k], z3.Implies(z3.And(k >= 0, k < n0), z3.And(
            A.ins(a0[k]) == A.ins(a0[0]), A.outs(a0[k]) == A.outs(a0[0]))))))
        S.assume(z3.Implies(n0 == 1, z3.And(A.Sw(a0, 1) == A.denw(a0[0]), A.Sc(a0, 1) == A.denc(a0[0]))))  # sum of one term
        o = S.new('AdditionOperator', operands=B.PyList(None, seq=ops))
        out = S.call(S.I.getattr(o, 'reduce'), [])
        if not out.normal:
            S.oblige('exc', False, tag=f'no-exception-{out.value.name}', note=str(out.where))
            return
        c, w, i_, o_ = A.den_of(S.I, out.value)
        S.oblige('post', z3.And(w == A.Sw(a0, n0), c == A.Sc(a0, n0)), tag='same-map', exact=False)
        S.oblige('post', z3.And(i_ == A.ins(a0[0]), o_ == A.outs(a0[0])), tag='same-structures', exact=False)
    ck.explore(f'{CORE}.AdditionOperator.reduce', addition_reduce, T, axioms=axioms)

    # ------------------------------------------------------------------ block operators' reduce
    block_reduces(ck, T, axioms)

    # ------------------------------------------------------------------ InverseBinaryRule (check + apply)
    lazy_classes = [c for c in P.subclasses(P.cls('AbstractLazyInverseOperator'), concrete_only=True)]

    def inverse_rule(S):
        S.oracle = ORACLE
        X = z3.Const('X', A.Op)
        Y = z3.Const('Y', A.Op)
        ci = lazy_classes[S.choose(len(lazy_classes))]
        side = S.choose(2)                      # the lazy inverse stands on the left / on the right
        other_is_operand = S.choose(2)          # its neighbour is / is not (necessarily) its own operand
        inv = S.new(ci.name, operator=X)
        nb = X if other_is_operand == 0 else Y
        left, right = (inv, nb) if side == 0 else (nb, inv)
        # chain typing (precondition of every binary rule: the pair stands in a well-typed chain)
        ci_, wi_, ii_, oi_ = A.den_of(S.I, inv)
        S.assume((ii_ == A.outs(nb)) if side == 0 else (A.ins(nb) == oi_))
        finding = 'C01-pseudo-inverse-shortcut' if ci.name == 'DiagonalInverseOperator' else None
        if ci.name in A.TRUE_INVERSES:
            S.assume(A.lem_inverse_cancels(A.denw(X), A.denc(X)))          # LA3 for true inverses only
        rule = Obj(P.cls('InverseBinaryRule'))
        chk = S.call(S.I.getattr(rule, 'check'), [left, right])
        if chk.raised('NoReduction'):
            return          # declining is always sound (completeness of the rewriting is C07's matter)
        if not chk.normal:
            S.oblige('exc', False, tag=f'{ci.name}:check-undeclared-{chk.value.name}', note=str(chk.where))
            return
        S.oblige('post', z_eq(nb, X), tag=f'{ci.name}:check-passes-only-for-own-operand')
        out = S.call(S.I.getattr(rule, 'apply'), [left, right])
        ok = out.normal and isinstance(out.value, B.PyList) and out.value.seq is None
        S.oblige('post', bool(ok), tag=f'{ci.name}:apply-returns-a-list')
        if not ok:
            return
        cl, wl, il, ol = A.den_of(S.I, left)
        cr, wr, ir, orr = A.den_of(S.I, right)
        if len(out.value.items) == 0:
            S.oblige('post', z3.And(z3.Concat(wl, wr) == A.EMPTY, cl * cr == 1, ol == ir),
                     tag=f'{ci.name}:empty-product-only-if-the-pair-is-the-identity', exact=False, finding=finding)
        else:
            S.oblige('post', False, tag=f'{ci.name}:unexpected-result')
    ck.explore(f'{RULES}.InverseBinaryRule.apply', inverse_rule, T, axioms=axioms)

    block_rules(ck, T, axioms)

    # ------------------------------------------------------------------ soundness of the remaining concrete rules
    # (element-level identities behind the rule contract; scenarios shared with the packs that own those classes)
    from props import C12, C13, C15
    from theories import indexing as IX
    C13.build3(ck, C13.theory(), rules_only=True)     # MoveAxisInverseRule, ReshapeInverseRule
    C12.build_rules(ck, IX.theory())                  # IndexTransposeRule, TransposeIndexRule, PackUnpackRule
    C15.build(ck)                                     # QURotationRule, QURotationHWPRule, LinearPolarizerHWPRule (+ the mv they rest on)

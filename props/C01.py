"""C01 — reduce() never changes the denoted map."""
from __future__ import annotations

from props import driver
from theories import alg as A


def build(ck):
    T = A.AlgTheory(ck.P)
    ck.trust('lemma:LA1 scalars are central (coefficient factored out of the word)',
             'lemma:W-fold (split/single/pair/empty/congruence of the product of a slice; induction)')
    driver.scan(ck, T, 'C01')
    driver.rules_scenarios(ck, T, 'C01')

"""C01 — reduce() never changes the denoted map."""
from __future__ import annotations

import z3

from props import driver
from pyvc import builtins_model as B
from pyvc.values import Obj, SSeq, fresh_int, to_z3, z_and, z_eq, z_not
from theories import alg as A

CORE = 'furax._base.core'
RULES = 'furax._base.rules'
ORACLE = {'name': 'reduce_family'}


def scan_contract(interp, fi, args, kwargs):
    """AlgebraicReductionRule.apply — proved by driver.scan (C01 part) for chains of length >= 1"""
    ops = B.as_seq(interp, args[-1])
    run = interp.run
    a0 = A.arr_of(run, ops)
    n0 = to_z3(ops.length)
    run.oblige(f'{interp.cur_name()}/pre:scan', z3.And(n0 >= 1, A.chain_ok(a0, n0)), kind='pre',
               meta=A.AlgTheory._meta(interp))
    r = A.op_seq('scanned')
    n = to_z3(r.length)
    run.assume(z3.And(n >= 0, A.Ww(r.arr, 0, n) == A.Ww(a0, 0, n0), A.Wc(r.arr, 0, n) == A.Wc(a0, 0, n0),
                      A.chain_ok(r.arr, n),
                      z3.Implies(n >= 1, z3.And(A.outs(r.arr[0]) == A.outs(a0[0]), A.ins(r.arr[n - 1]) == A.ins(a0[n0 - 1]))),
                      z3.Implies(n == 0, A.outs(a0[0]) == A.ins(a0[n0 - 1])),
                      A.lem_empty(r.arr, 0), A.lem_single(r.arr, 0)))
    return B.PyList(None, seq=r)


def build(ck):
    T = A.AlgTheory(ck.P)
    P = ck.P
    ck.trust('lemma:LA1 scalars are central (coefficient factored out of the word)',
             'lemma:W-fold (split/single/pair/empty/congruence of the product of a slice; induction)',
             'lemma:filter-preserves-product (dropping neutral square factors from a chain; induction)',
             'lemma:container-congruence (sum / block row / diagonal / column are functions of their blocks)')
    ck.assume_note('C01: operator containers (sum terms, blocks) are modelled as flat leaf sequences with an opaque '
                   'treedef; nested containers are not distinguished from flat ones')
    ck.assume_note('C01: termination of the rule scan is not proved (no variant); only partial correctness')
    driver.scan(ck, T, 'C01')
    driver.rules_scenarios(ck, T, 'C01')
    axioms = driver.size_axioms() + A.reduce_axioms()

    # ------------------------------------------------------------------ CompositionOperator.reduce
    def composition_reduce(S):
        S.oracle = ORACLE
        ops = S.seq('operands', kind='list', sort=A.Op)
        n0 = to_z3(ops.length)
        a0 = ops.arr
        S.assume(z3.And(n0 >= 1, A.chain_ok(a0, n0)))       # class invariant of a composition (C02 establishes it)
        o = S.new('CompositionOperator', operands=B.PyList(None, seq=ops))
        out = S.call(S.I.getattr(o, 'reduce'), [])
        if not out.normal:
            S.oblige('exc', False, tag=f'no-exception-{out.value.name}', note=str(out.where))
            return
        # the comprehension [operand.reduce() for operand in self.operands] has the words of the operands
        k = fresh_int('k')
        c, w, i_, o_ = A.den_of(S.I, out.value)
        S.oblige('post', z3.And(w == A.Ww(a0, 0, n0), c == A.Wc(a0, 0, n0)), tag='same-map', exact=False)
        S.oblige('post', z3.And(i_ == A.ins(a0[n0 - 1]), o_ == A.outs(a0[0])), tag='same-structures', exact=False)
    contracts = {f'{RULES}.AlgebraicReductionRule.apply': scan_contract}
    ck.explore(f'{CORE}.CompositionOperator.reduce', composition_reduce, T, contracts=contracts, axioms=axioms)

    # ------------------------------------------------------------------ AdditionOperator.reduce
    def addition_reduce(S):
        S.oracle = ORACLE
        ops = S.seq('operands', kind='list', sort=A.Op)
        n0 = to_z3(ops.length)
        a0 = ops.arr
        k = fresh_int('k')
        # class invariant of a sum: non-empty, all terms share the structures of the first
        S.assume(z3.And(n0 >= 1, z3.ForAll([k], z3.Implies(z3.And(k >= 0, k < n0), z3.And(
            A.ins(a0[k]) == A.ins(a0[0]), A.outs(a0[k]) == A.outs(a0[0]))))))
        S.assume(z3.Implies(n0 == 1, z3.And(A.Sw(a0, 1) == A.denw(a0[0]), A.Sc(a0, 1) == A.denc(a0[0]))))  # sum of one term
        o = S.new('AdditionOperator', operands=B.PyList(None, seq=ops))
        out = S.call(S.I.getattr(o, 'reduce'), [])
        if not out.normal:
            S.oblige('exc', False, tag=f'no-exception-{out.value.name}', note=str(out.where))
            return
        c, w, i_, o_ = A.den_of(S.I, out.value)
        S.oblige('post', z3.And(w == A.Sw(a0, n0), c == A.Sc(a0, n0)), tag='same-map', exact=False)
        S.oblige('post', z3.And(i_ == A.ins(a0[0]), o_ == A.outs(a0[0])), tag='same-structures', exact=False)
    ck.explore(f'{CORE}.AdditionOperator.reduce', addition_reduce, T, axioms=axioms)

    # ------------------------------------------------------------------ block operators' reduce
    BL = 'furax._base.blocks'
    for cname, kind in (('BlockRowOperator', 'Row'), ('BlockDiagonalOperator', 'Diag'), ('BlockColumnOperator', 'Col')):
        def block_reduce(S, cname=cname, kind=kind):
            S.oracle = ORACLE
            ops = S.seq('blocks', kind='list', sort=A.Op)
            n0 = to_z3(ops.length)
            a0 = ops.arr
            k = fresh_int('k')
            S.assume(n0 >= 1)
            # class invariant established by the constructor (C10): shared structures agree
            if kind == 'Row':
                S.assume(z3.ForAll([k], z3.Implies(z3.And(k >= 0, k < n0), A.outs(a0[k]) == A.outs(a0[0]))))
            if kind == 'Col':
                S.assume(z3.ForAll([k], z3.Implies(z3.And(k >= 0, k < n0), A.ins(a0[k]) == A.ins(a0[0]))))
            # LA4: a block diagonal of identities is the identity on the container structure
            S.assume(z3.Implies(z3.ForAll([k], z3.Implies(z3.And(k >= 0, k < n0), z3.And(A.denw(a0[k]) == A.EMPTY,
                                                                                      A.denc(a0[k]) == 1))),
                                A.BLKW['Diag'](a0, n0) == A.EMPTY))
            # the container's input and output structure trees coincide when every block is square (same leaves)
            S.assume(z3.Implies(z3.ForAll([k], z3.Implies(z3.And(k >= 0, k < n0), A.ins(a0[k]) == A.outs(a0[k]))),
                                A.BLKS['Diagin'](a0, n0) == A.BLKS['Diagout'](a0, n0)))
            o = S.new(cname, blocks=B.PyList(None, seq=ops))
            out = S.call(S.I.getattr(o, 'reduce'), [])
            if not out.normal:
                S.oblige('exc', False, tag=f'no-exception-{out.value.name}', note=str(out.where))
                return
            c, w, i_, o_ = A.den_of(S.I, out.value)
            S.oblige('post', z3.And(w == A.BLKW[kind](a0, n0), c == 1), tag='same-map', exact=False)
            S.oblige('post', z3.And(i_ == A.BLKS[kind + 'in'](a0, n0), o_ == A.BLKS[kind + 'out'](a0, n0)),
                     tag='same-structures', exact=False)
        ck.explore(f'{BL}.{cname}.reduce', block_reduce, T, axioms=axioms + A.block_struct_axioms(),
                   contracts=A.block_structure_contracts())

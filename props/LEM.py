from props import lemmas


def build(ck):
    lemmas.w_lemmas(ck)
    lemmas.prod_lemmas(ck)
    lemmas.selection_lemmas(ck)

"""C04 — application is linear and as_matrix() is its faithful dense form.

(a) LINEARITY of every mv in the repo, facet `lin` (theories/lin.py): the REAL body of every class that defines (or
    inherits while overriding a helper of) `mv` is executed with the input tagged Lin, the operator's fields tagged Const
    and literals Const / Zero; the dependency contracts of the array primitives propagate the tags (Const*Lin -> Lin,
    Lin+Lin -> Lin, Lin*Lin -> NonLin, Const+Lin -> NonLin, cos(Lin) -> NonLin, ...).  Obligation per mv and per path:
    every leaf of the result is Lin (or Zero) — never NonLin, never Const (a bias).  Operands of composite operators
    (composition, sum, blocks, lazy transpose, lazy inverse) are ARBITRARY LINEAR operators: the synthetic class
    OtherOperator whose mv has the contract "Lin in -> Lin out" — the induction hypothesis of the structural induction
    over expression trees.  jax.linear_transpose(f, s) is only the adjoint of a linear f: at every use f is run on a Lin
    input and must return Lin (obligation).  The scenario builders are C18's (props/C18.mv_makers), one per mv; a
    new mv without a builder is reported UNDECIDED.
    For the element-wise Stokes operators the identity mv(a x + b y) = a mv(x) + b mv(y) is additionally proved in the
    `point` facet (real bodies, free reals a, b and free Stokes components; cos/sin uninterpreted).
(b) the GENERIC AbstractLinearOperator.as_matrix, real body, abstract element model (theories/colmat.py): loop
    invariants over the outer `for` (LoopSpec) and over the lax.fori_loop carry; see `build_generic`.
(c) every as_matrix OVERRIDE returns the matrix of the same map, wiring level; see `build_overrides`.
"""
from __future__ import annotations

import ast

import z3

from pyvc import builtins_model as B
from pyvc.loops import LoopSpec
from pyvc.values import Obj, PyFunc, SSeq, Unsupported, concrete, fresh_int, to_z3, z_and, z_eq
from theories import lin as LN
from theories import point as PTF

from . import C18

CORE = 'furax._base.core'


# ====================================================================== (a) linearity, facet `lin`
class LinFacet:
    """value factories of the `lin` facet for C18.mv_makers: input leaves Lin, operator parameters Const"""

    def __init__(self, P):
        self.Other = C18.other_operator(P)

    def sds(self):
        return LN.SDS()

    def param(self, what, kind='num'):
        return LN.LArr(LN.CONST, kind, what=what)

    def x_leaf(self, name='x'):
        return LN.LArr(LN.LIN, what=name)

    def other(self, tag):
        return Obj(self.Other, tag=tag)


def other_contracts():
    """induction hypothesis for the operands of composite operators: an arbitrary LINEAR operator — its mv maps a Lin
    pytree to a Lin pytree (a linear map applied to Zero / Const / NonLin data gives Zero / Const / NonLin data); its
    structures are static"""
    def mv(interp, fi, args, kwargs):
        x = args[1]
        return LN.like(interp, x, LN.tree_tag(interp, x), what=f'{args[0]!r}.mv(..)')

    def struct(interp, fi, args, kwargs):
        o = args[0]
        return o.fields.setdefault('_struct_' + fi.name, LN.SDS())
    return {f'{CORE}.OtherOperator.mv': mv, f'{CORE}.OtherOperator.in_structure': struct,
            f'{CORE}.OtherOperator.out_structure': struct}


def self_reads(owner, name, seen=None):
    """names of the attributes of `self` that method `name` of class `owner` reads, transitively through the methods /
    properties they resolve to in owner's MRO (static over-approximation: every `self.<attr>` in the bodies)"""
    seen = seen if seen is not None else set()
    lk = owner.lookup(name)
    if lk is None or lk[1] != 'method':
        return seen
    for n in ast.walk(lk[2].node):
        if isinstance(n, ast.Attribute) and isinstance(n.value, ast.Name) and n.value.id == 'self' and n.attr not in seen:
            seen.add(n.attr)
            self_reads(owner, n.attr, seen)
    return seen


def build_linearity(ck):
    P = ck.P
    T = LN.theory()
    F = LinFacet(P)
    makers = C18.mv_makers(P, F)
    contracts = other_contracts()
    ck.assume_note('C04(a): operands of composite operators (CompositionOperator, AdditionOperator, Block*Operator, '
                   'TransposeOperator, InverseOperator) are arbitrary LINEAR operators — contract of the synthetic operand: '
                   'Lin in -> Lin out — this is the induction hypothesis of the structural induction over expression '
                   'trees; containers of operands / blocks are explored for the pytree shapes of C18.mv_makers (one '
                   'operand, a list of 2-3, a nested dict)')
    ck.assume_note('C04(a): class invariants of the constructors are assumed where a helper needs them '
                   '(SymmetricBandToeplitzOperator.method in METHODS — C09; RavelOperator axes within rank — C13)')
    ck.trust('assumed:lx.linear_solve(A, b).value is linear in the right-hand side b (A^-1 is a fixed linear map; '
             'convergence of the iterative solver is outside the property)',
             'assumed:jax.linear_transpose(f, s) is the adjoint of f, a fixed linear map, provided f is linear '
             '(linearity of f is an obligation at every use)',
             'assumed:the tag algebra of theories/lin.py (docstring) for the array primitives')

    # the Python loop of dense_symmetric_band_toeplitz carries the matrix being filled with band values: it stays a
    # parameter-only (Const / Zero) value
    def const_carry(*names):
        return LoopSpec(invariant=lambda L: all((not L.has(n)) or LN.tag_of_safe(L.var(n)) in (LN.CONST, LN.ZERO)
                                                for n in names),
                        havoc=lambda L: [L.set(n, LN.LArr(LN.CONST, what=f'{n} (loop carry)')) for n in names if L.has(n)])
    loop_specs = {('furax.operators.toeplitz.dense_symmetric_band_toeplitz', 0): const_carry('output')}

    base = P.cls(f'{CORE}.AbstractLinearOperator')
    ops = [c for c in P.classes.values() if base in c.mro and c is not base]

    def is_abstract_def(c):
        return any(ast.unparse(d).endswith('abstractmethod') for d in c.methods['mv'].decorators)
    defining = sorted(c.name for c in ops if 'mv' in c.methods and not is_abstract_def(c))
    inheriting = sorted(c.name for c in ops if 'mv' not in c.methods and not P.is_abstract(c))
    todo = []
    for name in defining:
        if name in makers:
            todo.append(name)
        else:
            ck._undecided(f'{name}.mv', 'linearity', 'no linearity scenario for this mv (new operator class?)')
    rechecked = {}
    for name in inheriting:
        c = P.cls(name)
        lk = c.lookup('mv')
        if lk is None or lk[1] != 'method':
            ck._undecided(f'{name}.mv', 'linearity', 'mv is not a plain method of the class table')
            continue
        owner = lk[0]
        if owner is base:
            continue
        between = c.mro[:c.mro.index(owner)]
        overridden = sorted({n for k in between for n in list(k.methods) + list(k.patched)} & self_reads(owner, 'mv'))
        if not overridden:
            continue
        if name in makers:
            rechecked[name] = overridden
            todo.append(name)
        else:
            ck._undecided(f'{name}.mv', 'linearity', f'inherits mv from {owner.name} but overrides {overridden}: no scenario')
    ck.samples.append({'mv_definitions_covered': [n for n in defining if n in makers], 'count': len(defining),
                       'inherited_mv_rechecked_because_a_helper_is_overridden': rechecked,
                       'classes_inheriting_a_covered_mv_unchanged': {
                           n: P.cls(n).lookup('mv')[0].name for n in inheriting
                           if n not in rechecked and P.cls(n).lookup('mv') and P.cls(n).lookup('mv')[0] is not base}})

    def run_scenario(name):
        def sc(S, name=name):
            S.oracle = {'name': 'linearity', 'cls': name}
            o, x = makers[name](S)
            out = S.call(S.I.getattr(o, 'mv'), [x])
            trail = '; '.join(S.run.ghost.get('lin_events', [])[:4])
            # the native oracle of this facet does not depend on the symbolic case (one instance per class): keep the case
            # in the note, so that all paths of a class share one native replay
            case = ', '.join(f'{k}={v}' for k, v in S.inputs.items() if isinstance(v, (str, int)))
            S.inputs.clear()
            if not out.normal:
                # a refusal (ValueError for unbroadcastable shapes, NotImplementedError for a foreign pytree) is not a
                # result: nothing to prove on this path
                S.oblige('lin', True, tag=f'path-raises-{out.value.name} (no result)')
                return
            ok, why = LN.is_linear_result(S.I, out.value)
            S.oblige('lin', ok, tag='mv(x)-is-a-linear-function-of-x (every leaf Lin or Zero)',
                     note=(f'[{case}] ' + why + ' | ' + trail) if not ok else None)
            inner = S.run.ghost.get('lin_failures', [])
            S.oblige('lin', not inner, tag='linearity-preconditions-of-the-primitives-hold-on-this-path',
                     note='; '.join(inner))
        ci = P.cls(name)
        ck.explore(f'{ci.fullname}.mv', sc, T, label='linear', contracts=contracts, loop_specs=loop_specs)
    for name in todo:
        run_scenario(name)

    # ---- compositions and sums of an UNBOUNDED number of operands (flat lists of symbolic length): loop invariants
    # "the running value is a linear function of the input"; operands return pytrees of unknown structure
    unb = dict(contracts)
    unb[f'{CORE}.OtherOperator.mv'] = lambda interp, fi, args, kwargs: LN.LTree(LN.tree_tag(interp, args[1]),
                                                                             what=f'{args[0]!r}.mv(..)')

    def linear_carry(name):
        return LoopSpec(invariant=lambda L: LN.is_linear_result(L.interp, L.var(name))[0],
                        havoc=lambda L: L.set(name, LN.LTree(LN.LIN, what=f'{name} (loop carry)')),
                        name=f'{name}-is-a-linear-function-of-the-input')

    def unbounded(clsname, carry):
        def sc(S):
            S.oracle = {'name': 'linearity', 'cls': clsname, 'expressions': True}
            n = S.int('n_operands')
            S.assume(n >= 0)
            ops = SSeq(n, lambda k: Obj(F.Other, tag=f'operand[{k}]'), 'list')
            o = S.new(clsname, operands=B.PyList(None, seq=ops))
            x = C18.x_tree(S, F)
            S.inputs.clear()
            out = S.call(S.I.getattr(o, 'mv'), [x])
            if not out.normal:
                S.oblige('lin', out.raised('IndexError'), tag=f'path-raises-{out.value.name} (a sum without terms; no result)')
                return
            ok, why = LN.is_linear_result(S.I, out.value)
            S.oblige('lin', ok, tag='mv(x)-is-a-linear-function-of-x (any number of operands)', note=why)
        ci = P.cls(clsname)
        ck.explore(f'{ci.fullname}.mv', sc, T, label='linear-any-number-of-operands', contracts=unb,
                   loop_specs={(f'{ci.fullname}.mv', 0): linear_carry(carry)})
    def carried(clsname, default):
        """the local carried by the loop of <clsname>.mv, read off the AST (the single name the loop body assigns): renaming
        it must not break the contract"""
        try:
            from pyvc.loops import assigned_names
            node = P.cls(clsname).methods['mv'].node
            loop = next(n for n in ast.walk(node) if isinstance(n, (ast.For, ast.While)))
            names = assigned_names(loop.body)
            return next(iter(names)) if len(names) == 1 else default
        except Exception:       # noqa: BLE001
            return default
    unbounded('CompositionOperator', carried('CompositionOperator', 'x'))
    unbounded('AdditionOperator', carried('AdditionOperator', 'y'))


# ====================================================================== (a') Stokes operators, facet `point`
def build_point_linearity(ck):
    T = PTF.theory()
    ops = {'HWPOperator': 'furax.operators.hwp.HWPOperator.mv',
           'QURotationOperator': 'furax.operators.qu_rotations.QURotationOperator.mv',
           'QURotationTransposeOperator': 'furax.operators.qu_rotations.QURotationTransposeOperator.mv',
           'LinearPolarizerOperator': 'furax.operators.polarizers.LinearPolarizerOperator.mv'}

    def scenario(opname, kind):
        def sc(S):
            S.oracle = {'name': 'linearity', 'cls': opname, 'stokes': kind}
            a, b, ang = S.real('a'), S.real('b'), S.real('angle')
            x = PTF.stokes_obj(S, kind, 'x')
            y = PTF.stokes_obj(S, kind, 'y')
            z = S.new(PTF.STOKES[kind][0])
            for c in x.fields:
                z.fields[c] = PTF.ArrV(a * PTF.comp(x, c) + b * PTF.comp(y, c))
            struct = PTF.stokes_struct(S, kind)
            if opname == 'QURotationOperator':
                op = S.new(opname, angles=PTF.ArrV(ang), _in_structure=struct)
            elif opname == 'QURotationTransposeOperator':
                op = S.new(opname, operator=S.new('QURotationOperator', angles=PTF.ArrV(ang), _in_structure=struct))
            else:
                op = S.new(opname, _in_structure=struct)
            outs = [S.call(S.I.getattr(op, 'mv'), [v]) for v in (x, y, z)]
            if not all(o.normal for o in outs):
                S.oblige('exc', False, tag='no-exception-in-mv')
                return
            fx, fy, fz = [o.value for o in outs]
            if all(isinstance(v, PTF.ArrV) for v in (fx, fy, fz)):
                S.oblige('post', fz.term == a * fx.term + b * fy.term, tag='mv(a x + b y) == a mv(x) + b mv(y)')
                return
            ok = all(isinstance(v, Obj) and v.cls is fx.cls and tuple(v.fields) == tuple(fx.fields) for v in (fx, fy, fz))
            S.oblige('post', bool(ok), tag='same-result-container-for-x-y-and-the-combination')
            if not ok:
                return
            for c in fx.fields:
                S.oblige('post', PTF.comp(fz, c) == a * PTF.comp(fx, c) + b * PTF.comp(fy, c),
                         tag=f'mv(a x + b y) == a mv(x) + b mv(y):component-{c}')
        return sc
    for opname, fn in ops.items():
        for kind in PTF.KINDS:
            ck.explore(fn, scenario(opname, kind), T, label=f'superposition-{kind}')


# ====================================================================== (b) the generic column-by-column builder
from theories import colmat as CM          # noqa: E402
from theories import structs as ST         # noqa: E402

LeafArr = z3.ArraySort(z3.IntSort(), ST.Leaf)
IL, NIN = z3.Const('in_leaves', LeafArr), z3.Int('n_in_leaves')          # leaves of self.in_structure(), pytree order
OL, NOUT = z3.Const('out_leaves', LeafArr), z3.Int('n_out_leaves')       # leaves of self.out_structure()
SZA = z3.Const('in_sizes', ST.IntArr)                                    # SZA[k] = size of input leaf k
OSZA = z3.Const('out_sizes', ST.IntArr)
MVout = z3.Function('mv_basis_out_leaf', z3.IntSort(), z3.IntSort(), z3.IntSort(), CM.Vec)
FlatRef = z3.Function('flat_mv_basis', z3.IntSort(), z3.IntSort(), CM.Vec)
leafof = z3.Function('leaf_of_column', z3.IntSort(), z3.IntSort())
posof = z3.Function('position_of_column', z3.IntSort(), z3.IntSort())
AS_MATRIX = f'{CORE}.AbstractLinearOperator.as_matrix'


def off(k):
    """offset(k) = sum of the sizes of the input leaves 0..k-1"""
    return CM.Psum(SZA, 0, to_z3(k))


def Ref(j):
    """the reference content of column j: flattened self.mv(e_{leaf, position}) for the (leaf, position) j decomposes into"""
    return FlatRef(leafof(j), posof(j))


def decomposition(k, j):
    """lemma instance (trusted, induction over the leaf index from sizes >= 0): the half-open intervals
    [offset(k), offset(k) + size_k) partition [0, in_size); leaf_of_column / position_of_column are the unique
    decomposition of a column index"""
    k, j = to_z3(k), to_z3(j)
    return z3.Implies(z3.And(0 <= k, k < NIN, off(k) <= j, j < off(k) + SZA[k]),
                      z3.And(leafof(j) == k, posof(j) == j - off(k)))


def columns_below(cols, bound):
    j = fresh_int('j')
    return z3.ForAll([j], z3.Implies(z3.And(0 <= j, j < bound), cols[j] == Ref(j)))


def build_generic(ck):
    P = ck.P
    Other = C18.other_operator(P)
    ck.trust('lemma:offset-decomposition — with sizes >= 0 the intervals [offset(k), offset(k)+size_k) partition the '
             'column range; (leaf, row-major position) <-> column index is a bijection (induction over the leaf index)',
             'lemma:Psum-fold (empty / step / split / non-negativity / congruence of a finite sum; its recursive definition)',
             'definition:flat_mv_basis(k, i) := the concatenation, over the output leaves in pytree order, of '
             'ravel(leaf m of self.mv(e_{k,i})); e_{k,i} := the input pytree of zeros with a 1 at row-major position i of '
             'leaf k')
    ck.assume_note('C04(b): the operator whose matrix is built is arbitrary (synthetic operand: mv / in_structure / '
                   'out_structure are uninterpreted; mv returns leaves with the sizes of out_structure() — its C05 '
                   'property); in/out structures are pytrees with a symbolic number of leaves of symbolic shapes')

    def scenario(nonempty):
        def sc(S):
            S.oracle = {'name': 'generic'} if nonempty else {'name': 'finding_empty_leaf'}
            run = S.run
            TI, TO = z3.Int('in_treedef'), z3.Int('out_treedef')
            DTO = z3.Const('out_promoted_dtype', ST.DType)
            S.inputs.update({'nleaves': NIN, 'nout': NOUT})
            k_ = fresh_int('k')
            if nonempty:
                run.assume(z3.And(NIN >= 0, NOUT >= 0))
                for arr, n, sizes in ((IL, NIN, SZA), (OL, NOUT, OSZA)):
                    run.assume(z3.ForAll([k_], z3.Implies(z3.And(0 <= k_, k_ < n), ST.LeafV(arr[k_]).wf())))
                    run.assume(z3.ForAll([k_], sizes[k_] == ST.f_size(arr[k_]), patterns=[sizes[k_]]))
                    CM.register_sum(run, sizes, n)
                run.assume(z3.ForAll([k_], z3.Implies(z3.And(0 <= k_, k_ < NIN), SZA[k_] >= 1)))
                in_leaves = SSeq(NIN, lambda k: ST.LeafV(IL[to_z3(k)]), 'list')
                out_leaves = SSeq(NOUT, lambda k: ST.LeafV(OL[to_z3(k)]), 'list')
            else:
                # the witness class of the finding: ONE input leaf, possibly without elements (ground hypotheses only)
                run.assume(z3.And(NIN == 1, NOUT == 1))
                for arr, sizes in ((IL, SZA), (OL, OSZA)):
                    run.assume(z3.And(ST.f_size(arr[0]) >= 0, ST.f_ndim(arr[0]) >= 0, sizes[0] == ST.f_size(arr[0])))
                    CM.register_sum(run, sizes, 1)
                in_leaves = SSeq.lift([ST.LeafV(IL[0])], 'list')
                out_leaves = SSeq.lift([ST.LeafV(OL[0])], 'list')
                S.inputs['leaf_size'] = SZA[0]
            ins, outs = ST.StructV(in_leaves, TI), ST.StructV(out_leaves, TO)
            o = Obj(Other, tag='op')
            calls = []

            def mv(interp, fi, args, kwargs):
                """contract of the operand's mv inside the builder: obligation — the argument is the basis pytree
                e_{k,i}; result — the pytree whose ravelled leaves are mv_basis_out_leaf(k, i, m)"""
                x = args[1]
                basis = interp.run.ghost.get('basis')
                if interp.run.ghost.get('fori_trace_only'):
                    basis = (fresh_int('k'), fresh_int('i'))
                if basis is None:
                    raise Unsupported('self.mv called outside the column loop')
                k, i = basis
                calls.append(basis)
                ok = isinstance(x, ST.StructV) and x.treedef is TI
                CM.ob(interp, 'pre', 'mv-is-applied-to-a-pytree-with-the-input-treedef', bool(ok))
                if not ok:
                    raise Unsupported('mv applied to something that is not a pytree of the input structure')
                CM.ob(interp, 'pre', 'basis-pytree-has-one-leaf-per-input-leaf', z_eq(x.leaves.length, NIN))
                m = fresh_int('m')
                e = x.leaves.get(m)
                if not isinstance(e, CM.AV):
                    CM.ob(interp, 'pre', 'basis-pytree-leaves-are-arrays', False)
                    raise Unsupported('basis leaf is not an array')
                rng = z3.And(0 <= m, m < NIN)
                zero = CM.fullv(SZA[m], z3.RealVal(0))
                CM.ob(interp, 'pre', 'basis-pytree-is-zero-except-a-one-at-row-major-position-index-of-leaf-ileaf',
                      z3.ForAll([m], z3.Implies(rng, e.data == z3.If(m == k, CM.setv(zero, i, z3.RealVal(1)), zero))))
                lf = ST.LeafV(IL[m])
                CM.ob(interp, 'pre', 'basis-pytree-leaves-have-the-declared-shapes-and-dtypes',
                      z3.ForAll([m], z3.Implies(rng, z3.And(zbool_(e.shape.eq(lf.shape)), e.dtype == ST.f_dtype(IL[m])))))
                return ST.StructV(SSeq(NOUT, lambda mm: CM.AV(ST.LeafV(OL[to_z3(mm)]).shape, MVout(k, i, to_z3(mm)),
                                                              ST.f_dtype(OL[to_z3(mm)]), ST.f_size(OL[to_z3(mm)])), 'list'), TO)
            S.I.contracts = {f'{CORE}.OtherOperator.mv': mv,
                             f'{CORE}.OtherOperator.in_structure': lambda *a: ins,
                             f'{CORE}.OtherOperator.out_structure': lambda *a: outs,
                             # jnp.result_type(*leaves) needs a concrete number of leaves: the promoted dtype is C05's
                             f'{CORE}.AbstractLinearOperator.out_promoted_dtype': lambda *a: DTO}

            def flat_definition(interp, Pc, n, seq):
                basis = interp.run.ghost.get('basis')
                if basis is None or interp.run.ghost.get('fori_trace_only'):
                    return []
                k, i = basis
                m = fresh_int('m')
                return [z3.Implies(z3.And(n == NOUT, z3.ForAll([m], z3.Implies(z3.And(0 <= m, m < NOUT),
                                                                                 Pc[m] == MVout(k, i, m)))),
                                   CM.Flat(Pc, n) == FlatRef(k, i))]
            S.I.theory.flat_lemmas[:] = [flat_definition]
            fid = None if nonempty else 'C04-generic-as_matrix-empty-leaf'
            if not nonempty:
                # input structures WITH zero-sized leaves: only "as_matrix returns a matrix" is stated here (isolated
                # under the listed finding); every other obligation is the one of scenario `generic`
                try:
                    out = S.call(S.func(AS_MATRIX), [o])
                finally:
                    del run.obligations[:]
                S.oblige('exc', out.normal, finding=fid, note=None if out.normal else f'raises {out.value.name}',
                         tag='as_matrix-returns-a-matrix-when-an-input-leaf-has-no-element')
                return
            out = S.call(S.func(AS_MATRIX), [o])
            if not out.normal:
                S.oblige('exc', False, tag=f'as_matrix-returns-a-matrix (raises {out.value.name})', finding=fid)
                return
            M = out.value
            ok = isinstance(M, CM.MatV)
            S.oblige('post', bool(ok), tag='returns-the-matrix-under-construction', finding=fid)
            if not ok:
                return
            S.oblige('post', z_eq(M.nrows, CM.Psum(OSZA, 0, NOUT)), tag='shape[0]==out_size==sum-of-output-leaf-sizes', finding=fid)
            S.oblige('post', z_eq(M.ncols, off(NIN)), tag='shape[1]==in_size==sum-of-input-leaf-sizes', finding=fid)
            S.oblige('post', M.dtype is DTO, tag='dtype-is-out_promoted_dtype', finding=fid)
            k0, i0 = z3.Int('leaf'), z3.Int('position')
            S.inputs.update({'leaf': k0, 'position': i0})
            run.assume(z3.And(0 <= k0, k0 < NIN, 0 <= i0, i0 < SZA[k0]))
            j0 = off(k0) + i0
            for lem in (decomposition(k0, j0), CM.psum_step(SZA, 0, k0), CM.psum_split(SZA, 0, k0 + 1, NIN),
                        CM.psum_nonneg(SZA, k0 + 1, NIN), CM.psum_nonneg(SZA, 0, k0)):
                run.assume(lem)
            S.oblige('post', z3.And(j0 >= 0, j0 < to_z3(M.ncols)), tag='column-offset(leaf)+position-exists', finding=fid)
            S.oblige('post', M.cols[j0] == FlatRef(k0, i0),
                     tag='column offset(leaf)+position == flattened mv(basis vector (leaf, position))', finding=fid)
        return sc

    # the locals of the generic builder by ROLE (AST of AbstractLinearOperator.as_matrix): the for loop is
    # `for <ileaf>, <leaf> in enumerate(...)`, its carried state is the pair assigned from `jax.lax.fori_loop(..., (<matrix>,
    # <jcounter>))`; the zero pytree built before the loop must not change
    RN = {'matrix': 'matrix', 'jcounter': 'jcounter', 'ileaf': 'ileaf', 'in_pytree': 'in_pytree'}
    try:
        fnode = P.func(f'{CORE}.AbstractLinearOperator.as_matrix').node
        loop = next(n for n in ast.walk(fnode) if isinstance(n, ast.For))
        if isinstance(loop.target, ast.Tuple) and isinstance(loop.target.elts[0], ast.Name):
            RN['ileaf'] = loop.target.elts[0].id
        for st in ast.walk(loop):
            if isinstance(st, ast.Assign) and isinstance(st.value, ast.Call) and ast.unparse(st.value.func).endswith('fori_loop') \
                    and isinstance(st.targets[0], ast.Tuple) and len(st.targets[0].elts) == 2 \
                    and all(isinstance(e, ast.Name) for e in st.targets[0].elts):
                RN['matrix'], RN['jcounter'] = (e.id for e in st.targets[0].elts)
        first = fnode.body[1] if isinstance(fnode.body[0], ast.Expr) else fnode.body[0]
        if isinstance(first, ast.Assign) and isinstance(first.targets[0], ast.Name):
            RN['in_pytree'] = first.targets[0].id
    except Exception:       # noqa: BLE001
        pass

    def outer_invariant(L):
        M, jc = L.var(RN['matrix']), L.var(RN['jcounter'])
        if not isinstance(M, CM.MatV) or not B.is_intlike(jc):
            return False
        k = to_z3(L.k)
        return z3.And(to_z3(jc) == off(k), columns_below(M.cols, off(k)))

    def outer_havoc(L):
        M = L.var(RN['matrix'])
        L.set(RN['matrix'], M.like(z3.Const(CM.fresh_name('cols'), CM.VecArr)) if isinstance(M, CM.MatV) else M)
        L.set(RN['jcounter'], fresh_int('jcounter'))
        if L.k is not None:
            L.run.assume(CM.psum_step(SZA, 0, L.k))
    outer = LoopSpec(outer_invariant, outer_havoc, name='columns-of-the-leaves-before-ileaf-are-written',
                     unchanged=(RN['in_pytree'],))

    def inner_invariant(ctx, i, carry):
        if not (isinstance(carry, tuple) and len(carry) == 2 and isinstance(carry[0], CM.MatV) and B.is_intlike(carry[1])):
            return False
        M, jc = carry
        M0 = ctx.init[0]
        if not (M.nrows is M0.nrows and M.ncols is M0.ncols and M.dtype is M0.dtype):
            return False
        k = to_z3(ctx.var(RN['ileaf']))
        return z3.And(to_z3(jc) == off(k) + to_z3(i), columns_below(M.cols, off(k) + to_z3(i)))

    def inner_havoc(ctx, init):
        return (init[0].like(z3.Const(CM.fresh_name('cols'), CM.VecArr)), fresh_int('jcounter'))

    def inner_lemmas(ctx, i, carry):
        k = to_z3(ctx.var(RN['ileaf']))
        ctx.run.ghost['basis'] = (k, to_z3(i))
        return [decomposition(k, off(k) + to_z3(i)), CM.psum_step(SZA, 0, k), CM.psum_nonneg(SZA, 0, k),
                CM.psum_split(SZA, 0, k + 1, NIN), CM.psum_nonneg(SZA, k + 1, NIN)]

    for nonempty in (True, False):
        T = CM.theory()
        T.fori_specs[AS_MATRIX] = CM.ForiSpec(inner_invariant, inner_havoc, inner_lemmas)
        ck.explore(AS_MATRIX, scenario(nonempty), T, label='generic' if nonempty else 'generic-with-empty-leaves',
                   loop_specs={(AS_MATRIX, 0): outer} if nonempty else {})


def zbool_(v):
    return z3.BoolVal(v) if isinstance(v, bool) else v


# ====================================================================== (c) the overrides, wiring level
from pyvc.theory import Theory                 # noqa: E402
from pyvc.values import NOT_IMPLEMENTED, Value  # noqa: E402
from theories import pytree as PYT             # noqa: E402
from theories import trees as TR               # noqa: E402


class DenseV(Value):
    """a dense matrix as the expression that produced it: ('of', operator) — the operator's own as_matrix() (callee
    contract: Mat(den(operator)), this property for the operand) — ('identity', n, dtype), ('add', A, B), ('inv', A),
    ('scale', value, A)"""

    def __init__(self, op, *args):
        self.op, self.args = op, args

    def __repr__(self):
        return f'<dense {self.op} {self.args}>'

    def sym_eq(self, other):
        if not isinstance(other, DenseV) or other.op != self.op or len(other.args) != len(self.args):
            return False
        return z_and(*[(a is b) if isinstance(a, Obj) or isinstance(b, Obj) else z_eq(a, b)
                       for a, b in zip(self.args, other.args)])

    def py_binop(self, interp, op, other, refl):
        if op == 'Mult' and not isinstance(other, (Obj, DenseV)):
            return DenseV('scale', other, self)
        if op == 'Add' and isinstance(other, DenseV):
            a, b = (other, self) if refl else (self, other)
            return DenseV('add', a, b)
        return NOT_IMPLEMENTED


def install_dense(T):
    T.externals['jax.numpy.identity'] = lambda interp, n, dtype=None: DenseV('identity', n, dtype)
    T.externals['jax.numpy.eye'] = lambda interp, n, M=None, k=0, dtype=None: (
        DenseV('identity', n, dtype) if M is None and k == 0 else DenseV('eye', n, M, k, dtype))
    T.externals['jax.numpy.add'] = lambda interp, a, b: DenseV('add', a, b)

    def multiply(interp, a, b):         # functional spelling of a scalar times a dense matrix (either order)
        if isinstance(b, DenseV) and not isinstance(a, (Obj, DenseV)):
            return DenseV('scale', a, b)
        if isinstance(a, DenseV) and not isinstance(b, (Obj, DenseV)):
            return DenseV('scale', b, a)
        raise Unsupported('jnp.multiply outside the modelled form scalar x matrix')
    T.externals['jax.numpy.multiply'] = multiply
    T.externals['jax.numpy.subtract'] = lambda interp, a, b: DenseV('sub', a, b)
    T.externals['jax.numpy.linalg.inv'] = lambda interp, a: DenseV('inv', a)
    T.externals['jax.numpy.result_type'] = lambda interp, *xs: ('result_type',) + tuple(
        interp.getattr(x, 'dtype') for x in xs)
    return T


def build_overrides(ck):
    from theories import synth
    P = ck.P
    Other = synth.concrete_subclass(P, P.cls(f'{CORE}.AbstractLinearOperator'), 'OtherOperator',
                                    extra_methods=('mv', 'in_structure', 'out_structure', 'as_matrix'))
    ck.trust('lemma:LA9 Mat is a homomorphism: Mat(sum of maps) = sum of the matrices, Mat(inverse) = inverse of the matrix, '
             'Mat(k * identity) = k * identity matrix',
             'lemma:LA6 reshape / ravel are the identity in flattened row-major coordinates (C13 proves that the real mv '
             'keeps the row-major content and the number of elements of every leaf)')
    ck.assume_note('C04(c): the operands\' own as_matrix() are their faithful dense forms (this property for the operands: '
                   'induction hypothesis); DiagonalOperator.as_matrix is proved in C11, SymmetricBandToeplitzOperator.as_matrix '
                   'in C09, BlockRow/BlockDiagonal/BlockColumn.as_matrix (hstack / block_diag / vstack) belong to C10')

    def other(tag):
        return Obj(Other, tag=tag)
    dense_contract = {f'{CORE}.OtherOperator.as_matrix': lambda interp, fi, args, kwargs: DenseV('of', args[0])}
    # ------------------------------------------------------------------ AdditionOperator / lazy inverse (generic pytrees)
    T1 = install_dense(PYT.install(Theory()))

    def addition(S):
        S.oracle = {'name': 'overrides', 'cls': 'AdditionOperator'}
        k = S.choose(4)
        a, b, c = other('A'), other('B'), other('C')
        ops, order = [(B.PyList([a]), [a]), (B.PyList([a, b]), [a, b]), (B.PyList([a, b, c]), [a, b, c]),
                      ({'a': a, 'b': B.PyList([b, c])}, [a, b, c])][k]
        S.inputs['operands'] = ['[A]', '[A, B]', '[A, B, C]', "{'a': A, 'b': [B, C]}"][k]
        o = S.new('AdditionOperator', operands=ops)
        out = S.call(S.I.getattr(o, 'as_matrix'), [])
        if not out.normal:
            S.oblige('exc', False, tag=f'no-exception-{out.value.name}')
            return
        expect = DenseV('of', order[0])
        for t in order[1:]:
            expect = DenseV('add', expect, DenseV('of', t))
        S.oblige('post', z_eq(out.value, expect), tag='as_matrix==sum-over-operand_leaves-of-their-as_matrix (pytree order)')
    ck.explore(f'{CORE}.AdditionOperator.as_matrix', addition, T1, contracts=dense_contract)

    def lazy_inverse(S):
        S.oracle = {'name': 'overrides', 'cls': 'InverseOperator'}
        a = other('A')
        which = S.choose(2)
        o = S.new(['InverseOperator', 'AbstractLazyInverseOrthogonalOperator'][which], operator=a)
        out = S.call(S.I.getattr(o, 'as_matrix'), [])
        if not out.normal:
            S.oblige('exc', False, tag=f'no-exception-{out.value.name}')
            return
        S.oblige('post', z_eq(out.value, DenseV('inv', DenseV('of', a))), tag='as_matrix==inv(operator.as_matrix())')
    ck.explore(f'{CORE}.AbstractLazyInverseOperator.as_matrix', lazy_inverse, T1, contracts=dense_contract)

    # ------------------------------------------------------------------ identity / scalar / reshape-like (struct facet)
    T2 = install_dense(TR.install(ST.install(Theory())))

    def small_tree(S, min_dim=0):
        k = S.choose(3)
        S.inputs['tree'] = ['leaf', 'list of 2', 'dict of 3'][k]
        leaves = [ST.LeafV(z3.Const(f'in{i}', ST.Leaf)) for i in range(k + 1)]
        for lf in leaves:
            S.assume(lf.wf(min_dim))
        return (leaves[0] if k == 0 else ST.StructV(SSeq.lift(leaves, 'list'))), leaves

    def sizes_and_dtype(S, o, leaves, tagp):
        """real bodies of in_size / out_size / the promoted dtypes against the definitions"""
        total = sum((ST.f_size(lf.term) for lf in leaves[1:]), ST.f_size(leaves[0].term))
        rt = ('result_type',) + tuple(ST.f_dtype(lf.term) for lf in leaves)
        n_in, n_out = S.call(S.I.getattr(o, 'in_size'), []), S.call(S.I.getattr(o, 'out_size'), [])
        d_in, d_out = S.call(S.func(f'{CORE}.AbstractLinearOperator.in_promoted_dtype'), [o]), \
            S.call(S.func(f'{CORE}.AbstractLinearOperator.out_promoted_dtype'), [o])
        ok = all(x.normal for x in (n_in, n_out, d_in, d_out))
        S.oblige('exc', ok, tag=f'{tagp}:sizes-and-promoted-dtypes-are-computed')
        if not ok:
            return None
        S.oblige('post', z_eq(n_in.value, total), tag=f'{tagp}:in_size==sum-of-the-input-leaf-sizes')
        S.oblige('post', z_eq(d_in.value, rt), tag=f'{tagp}:in_promoted_dtype==result_type(input leaves)')
        return n_in.value, n_out.value, d_in.value, d_out.value

    def square_dense(clsname):
        def sc(S):
            S.oracle = {'name': 'overrides', 'cls': clsname}
            tree, leaves = small_tree(S)
            value = z3.Real('value')
            o = S.new(clsname, _in_structure=tree)
            if clsname == 'HomothetyOperator':
                o.fields['value'] = value
            r = sizes_and_dtype(S, o, leaves, clsname)
            if r is None:
                return
            n_in, n_out, d_in, d_out = r
            S.oblige('post', z_eq(n_out, n_in), tag='square:out_size==in_size')
            S.oblige('post', z_eq(d_out, d_in), tag='square:out_promoted_dtype==in_promoted_dtype')
            out = S.call(S.I.getattr(o, 'as_matrix'), [])
            if not out.normal:
                S.oblige('exc', False, tag=f'no-exception-{out.value.name}')
                return
            ident = DenseV('identity', n_in, d_out)
            expect = ident if clsname == 'IdentityOperator' else DenseV('scale', value, ident)
            S.oblige('post', z_eq(out.value, expect),
                     tag='as_matrix==identity(in_size, out_promoted_dtype)' if clsname == 'IdentityOperator'
                     else 'as_matrix==value*identity(in_size, out_promoted_dtype)')
        return sc
    for clsname in ('IdentityOperator', 'HomothetyOperator'):
        ck.explore(f'{CORE}.{clsname}.as_matrix', square_dense(clsname), T2)

    AX = 'furax._base.axes'

    def keeps_leaves(interp, fi, args, kwargs):
        """callee contract of RavelOperator.mv / ReshapeOperator.mv (proved in C13, scenarios ravel_mv / reshape_mv, for
        every leaf accepted by the constructor): leaf by leaf, same tree, same number of elements, same dtype, same
        row-major content"""
        x = args[1]

        def one(lf):
            r = ST.LeafV.fresh('relabelled')
            interp.run.assume(z3.And(ST.f_size(r.term) == ST.f_size(lf.term), ST.f_dtype(r.term) == ST.f_dtype(lf.term),
                                     ST.f_data(r.term) == ST.f_data(lf.term), ST.f_ndim(r.term) >= 0))
            return r
        if isinstance(x, ST.LeafV):
            return one(x)
        return ST.StructV(SSeq.lift([one(lf) for lf in x.leaves.py_items()], 'list'), x.treedef, x.single)

    def reshape_like(which):
        def sc(S):
            S.oracle = {'name': 'overrides', 'cls': which}
            tree, leaves = small_tree(S)
            if which == 'RavelOperator':
                o = S.new(which, first_axis=S.int('first_axis'), last_axis=S.int('last_axis'), _in_structure=tree)
            else:
                o = S.new(which, shape=S.seq('shape'), _in_structure=tree)
            r = sizes_and_dtype(S, o, leaves, which)
            if r is None:
                return
            n_in, n_out, d_in, d_out = r
            S.oblige('post', z_eq(n_out, n_in), tag='out_size==in_size (every leaf keeps its number of elements)')
            S.oblige('post', z_eq(d_out, d_in), tag='out_promoted_dtype==in_promoted_dtype (every leaf keeps its dtype)')
            out = S.call(S.I.getattr(o, 'as_matrix'), [])
            if not out.normal:
                S.oblige('exc', False, tag=f'no-exception-{out.value.name}')
                return
            S.oblige('post', z_eq(out.value, DenseV('identity', n_in, d_out)),
                     tag='as_matrix==identity(in_size, out_promoted_dtype) (LA6)')
        return sc
    relabel = {f'{AX}.RavelOperator.mv': keeps_leaves, f'{AX}.ReshapeOperator.mv': keeps_leaves}
    for which in ('RavelOperator', 'ReshapeOperator'):
        ck.explore(f'{AX}.AbstractRavelOrReshapeOperator.as_matrix', reshape_like(which), T2, label=which, contracts=relabel)

    # ------------------------------------------------------------------ which classes override as_matrix at all
    base = P.cls(f'{CORE}.AbstractLinearOperator')
    covered_here = {'AdditionOperator', 'IdentityOperator', 'HomothetyOperator', 'AbstractLazyInverseOperator',
                    'AbstractRavelOrReshapeOperator'}
    elsewhere = {'DiagonalOperator': 'C11', 'SymmetricBandToeplitzOperator': 'C09', 'BlockRowOperator': 'C10',
                 'BlockDiagonalOperator': 'C10', 'BlockColumnOperator': 'C10'}
    table = {}
    for c in sorted(P.classes.values(), key=lambda c: c.name):
        if base in c.mro and c is not base and ('as_matrix' in c.methods or 'as_matrix' in c.patched):
            where = 'C04(c)' if c.name in covered_here else elsewhere.get(c.name)
            table[c.name] = where or 'NOT COVERED'
            if where is None:
                ck._undecided(f'{c.name}.as_matrix', 'overrides', 'as_matrix override without a scenario (new override?)')
    ck.samples.append({'as_matrix_overrides': table})


def build_overrides_elsewhere(ck):
    """the as_matrix overrides whose contracts live in the packs owning those classes (diagonal C11, block operators C10,
    Toeplitz C09): the same scenarios are run here by reference, so that the dense form of every override is an
    obligation of this check as well"""
    from props import C09, C10, C11
    for prop, pack in (('C11', C11), ('C10', C10), ('C09', C09)):
        ck.include(pack.build, prop, lambda fn: fn.endswith('.as_matrix'))


def build(ck):
    from props import C08
    C08.patch_class_table(ck.P)        # the decorators' rewiring (square / symmetric / orthogonal), real bodies
    build_linearity(ck)
    build_point_linearity(ck)
    build_generic(ck)
    build_overrides(ck)
    build_overrides_elsewhere(ck)

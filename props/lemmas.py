"""Inductive proofs of the fold lemmas the packs instantiate (DESIGN §3.2): obligations `lemma-base` / `lemma-step`.

Definitions (right unfolding; these are the meaning of the ghost functions, not assumptions about furax):
    Ww(a, lo, hi) = ε                         if hi <= lo          Wc(a, lo, hi) = 1
    Ww(a, lo, h+1) = Ww(a, lo, h) · denw(a[h])  if h >= lo         Wc(a, lo, h+1) = Wc(a, lo, h) * denc(a[h])
    Pprod(a, lo, hi) = 1 if hi <= lo;  Pprod(a, lo, h+1) = Pprod(a, lo, h) * a[h] if h >= lo
Each lemma L(hi) is proved by induction on hi: base case at the smallest hi, step L(h) => L(h+1), with every other
variable universally quantified (free constants).  The induction principle over the integers >= base is the only
meta-level step.  Proved here: split, single, pair, congruence under index shift (W and Pprod), positivity (Pprod), and
the selection lemmas of a filtering comprehension (theories/alg.py filter_comprehension, lem_filter_prefix/suffix):
a strictly increasing selection idx of n out of n0 positions, onto the kept positions, satisfies
k <= idx(k) <= n0 - n + k, fixes a prefix of kept positions and maps the tail onto a suffix of kept positions."""
from __future__ import annotations

import z3

from theories import alg as A
from theories import structs as ST


def _w_defs(a):
    lo, h = z3.Ints('lo!d h!d')
    return [z3.ForAll([lo, h], z3.Implies(h <= lo, z3.And(A.Ww(a, lo, h) == A.EMPTY, A.Wc(a, lo, h) == 1)),
                      patterns=[A.Ww(a, lo, h), A.Wc(a, lo, h)]),
            z3.ForAll([lo, h], z3.Implies(h >= lo, z3.And(A.Ww(a, lo, h + 1) == z3.Concat(A.Ww(a, lo, h), A.denw(a[h])),
                                                          A.Wc(a, lo, h + 1) == A.Wc(a, lo, h) * A.denc(a[h]))),
                      patterns=[A.Ww(a, lo, h + 1), A.Wc(a, lo, h + 1)])]


def _p_defs(a):
    lo, h = z3.Ints('lo!p h!p')
    return [z3.ForAll([lo, h], z3.Implies(h <= lo, ST.Pprod(a, lo, h) == 1), patterns=[ST.Pprod(a, lo, h)]),
            z3.ForAll([lo, h], z3.Implies(h >= lo, ST.Pprod(a, lo, h + 1) == ST.Pprod(a, lo, h) * a[h]),
                      patterns=[ST.Pprod(a, lo, h + 1)])]


def w_lemmas(ck, T=None):
    from pyvc.theory import Theory
    T = T or Theory()

    def body(S):
        a = z3.Const('a', A.OpArr)
        b = z3.Const('b', A.OpArr)
        lo, m, h, d, i = z3.Ints('lo m h d i')
        for ax in _w_defs(a) + _w_defs(b):
            S.assume(ax)

        def split(hh):
            return z3.And(A.Ww(a, lo, hh) == z3.Concat(A.Ww(a, lo, m), A.Ww(a, m, hh)),
                          A.Wc(a, lo, hh) == A.Wc(a, lo, m) * A.Wc(a, m, hh))
        S.oblige('lemma-base', z3.Implies(lo <= m, split(m)), tag='W-split')
        S.oblige('lemma-step', z3.Implies(z3.And(lo <= m, m <= h, split(h)), split(h + 1)), tag='W-split')
        S.oblige('lemma', z3.And(A.Ww(a, i, i + 1) == A.denw(a[i]), A.Wc(a, i, i + 1) == A.denc(a[i])), tag='W-single')
        S.oblige('lemma', z3.And(A.Ww(a, i, i + 2) == z3.Concat(A.denw(a[i]), A.denw(a[i + 1])),
                                 A.Wc(a, i, i + 2) == A.denc(a[i]) * A.denc(a[i + 1])), tag='W-pair')
        k = z3.Int('k')
        same = z3.ForAll([k], z3.Implies(z3.And(k >= lo, k < h + 1), a[k] == b[k + d]))

        def cong(hh):
            return z3.And(A.Ww(a, lo, hh) == A.Ww(b, lo + d, hh + d), A.Wc(a, lo, hh) == A.Wc(b, lo + d, hh + d))
        # ground instances of the definition of W at the shifted bounds (matching modulo arithmetic is not automatic)
        inst = z3.Implies(h + d >= lo + d, z3.And(
            A.Ww(b, lo + d, h + 1 + d) == z3.Concat(A.Ww(b, lo + d, h + d), A.denw(b[h + d])),
            A.Wc(b, lo + d, h + 1 + d) == A.Wc(b, lo + d, h + d) * A.denc(b[h + d])))
        # (inst is the definition's second clause instantiated at lo := lo + d, h := h + d: forall-elimination)
        S.oblige('lemma-base', cong(lo), tag='W-congruence-under-shift')
        S.oblige('lemma-step', z3.Implies(z3.And(lo <= h, same, cong(h), inst), cong(h + 1)), tag='W-congruence-under-shift')
        # element-wise equal denotations => equal products
        samed = z3.ForAll([k], z3.Implies(z3.And(k >= lo, k < h + 1), z3.And(A.denw(a[k]) == A.denw(b[k]),
                                                                           A.denc(a[k]) == A.denc(b[k]))))

        def dcong(hh):
            return z3.And(A.Ww(a, lo, hh) == A.Ww(b, lo, hh), A.Wc(a, lo, hh) == A.Wc(b, lo, hh))
        S.oblige('lemma-base', dcong(lo), tag='W-congruence-under-equal-denotations')
        S.oblige('lemma-step', z3.Implies(z3.And(lo <= h, samed, dcong(h)), dcong(h + 1)),
                 tag='W-congruence-under-equal-denotations')
    ck.explore('lemmas.W-fold', body, T, label='induction')


def prod_lemmas(ck, T=None):
    from pyvc.theory import Theory
    T = T or Theory()

    def body(S):
        a = z3.Const('a', ST.IntArr)
        b = z3.Const('b', ST.IntArr)
        lo, m, h, d, i = z3.Ints('lo m h d i')
        for ax in _p_defs(a) + _p_defs(b):
            S.assume(ax)
        P = ST.Pprod
        S.oblige('lemma-base', z3.Implies(lo <= m, P(a, lo, m) == P(a, lo, m) * P(a, m, m)), tag='Pprod-split')
        S.oblige('lemma-step', z3.Implies(z3.And(lo <= m, m <= h, P(a, lo, h) == P(a, lo, m) * P(a, m, h)),
                                          P(a, lo, h + 1) == P(a, lo, m) * P(a, m, h + 1)), tag='Pprod-split')
        S.oblige('lemma', P(a, i, i + 1) == a[i], tag='Pprod-single')
        S.oblige('lemma', P(a, i, i) == 1, tag='Pprod-empty')
        k = z3.Int('k')
        same = z3.ForAll([k], z3.Implies(z3.And(k >= lo, k < h + 1), a[k] == b[k + d]))
        S.oblige('lemma-base', P(a, lo, lo) == P(b, lo + d, lo + d), tag='Pprod-congruence-under-shift')
        S.oblige('lemma-step', z3.Implies(z3.And(lo <= h, same, P(a, lo, h) == P(b, lo + d, h + d)),
                                          P(a, lo, h + 1) == P(b, lo + d, h + 1 + d)), tag='Pprod-congruence-under-shift')
        pos = z3.ForAll([k], z3.Implies(z3.And(k >= lo, k < h + 1), a[k] >= 1))
        S.oblige('lemma-base', P(a, lo, lo) >= 1, tag='Pprod-positive')
        S.oblige('lemma-step', z3.Implies(z3.And(lo <= h, pos, P(a, lo, h) >= 1), P(a, lo, h + 1) >= 1), tag='Pprod-positive')
        nn = z3.ForAll([k], z3.Implies(z3.And(k >= lo, k < h + 1), a[k] >= 0))
        S.oblige('lemma-base', P(a, lo, lo) >= 0, tag='Pprod-non-negative')
        S.oblige('lemma-step', z3.Implies(z3.And(lo <= h, nn, P(a, lo, h) >= 0), P(a, lo, h + 1) >= 0), tag='Pprod-non-negative')
    ck.explore('lemmas.Pprod-fold', body, T, label='induction')


def selection_lemmas(ck, T=None):
    from pyvc.theory import Theory
    T = T or Theory()

    def body(S):
        idx = z3.Function('idx', z3.IntSort(), z3.IntSort())
        inv = z3.Function('inv', z3.IntSort(), z3.IntSort())
        K = z3.Function('kept', z3.IntSort(), z3.BoolSort())
        n, n0, k, k2, j, m, t = z3.Ints('n n0 k k2 j m t')
        # definition of the filtered list (as assumed by filter_comprehension)
        S.assume(z3.And(n >= 0, n <= n0))
        S.assume(z3.ForAll([k], z3.Implies(z3.And(k >= 0, k < n), z3.And(idx(k) >= 0, idx(k) < n0, K(idx(k)))), patterns=[idx(k)]))
        S.assume(z3.ForAll([k, k2], z3.Implies(z3.And(k >= 0, k < k2, k2 < n), idx(k) < idx(k2))))
        S.assume(z3.ForAll([j], z3.Implies(z3.And(j >= 0, j < n0, K(j)), z3.And(inv(j) >= 0, inv(j) < n, idx(inv(j)) == j)),
                           patterns=[inv(j)]))
        # L1: idx(k) >= k            (induction on k)
        L1 = lambda kk: z3.Implies(z3.And(0 <= kk, kk < n), idx(kk) >= kk)       # noqa: E731
        S.oblige('lemma-base', L1(z3.IntVal(0)), tag='selection-lower-bound')
        S.oblige('lemma-step', z3.Implies(z3.And(k >= 0, L1(k)), L1(k + 1)), tag='selection-lower-bound')
        # L2: idx(k) <= n0 - n + k   (downward induction from k = n - 1)
        L2 = lambda kk: z3.Implies(z3.And(0 <= kk, kk < n), idx(kk) <= n0 - n + kk)       # noqa: E731
        S.oblige('lemma-base', L2(n - 1), tag='selection-upper-bound')
        S.oblige('lemma-step', z3.Implies(z3.And(k >= 0, L2(k + 1)), L2(k)), tag='selection-upper-bound')
        # from here on L1 and L2 are available for every k
        S.assume(z3.ForAll([k], L1(k), patterns=[idx(k)]))
        S.assume(z3.ForAll([k], L2(k), patterns=[idx(k)]))

        def L3(mm):          # a prefix of mm kept positions stays in place
            return z3.Implies(z3.And(0 <= mm, mm <= n0, z3.ForAll([j], z3.Implies(z3.And(0 <= j, j < mm), K(j)))),
                              z3.And(mm <= n, z3.ForAll([j], z3.Implies(z3.And(0 <= j, j < mm), idx(j) == j))))
        S.oblige('lemma-base', L3(z3.IntVal(0)), tag='selection-fixes-a-kept-prefix')
        S.oblige('lemma-step', z3.Implies(z3.And(m >= 0, L3(m)), L3(m + 1)), tag='selection-fixes-a-kept-prefix')

        def L4(mm):          # a suffix [mm, n0) of kept positions is the image of the tail
            d = n - (n0 - mm)
            return z3.Implies(z3.And(0 <= mm, mm <= n0, z3.ForAll([j], z3.Implies(z3.And(mm <= j, j < n0), K(j)))),
                              z3.And(d >= 0, z3.ForAll([t], z3.Implies(z3.And(0 <= t, t < n0 - mm), idx(d + t) == mm + t))))
        S.oblige('lemma-base', L4(n0), tag='selection-maps-the-tail-onto-a-kept-suffix')
        S.oblige('lemma-step', z3.Implies(z3.And(m >= 0, m < n0, L4(m + 1)), L4(m)), tag='selection-maps-the-tail-onto-a-kept-suffix')
    ck.explore('lemmas.selection', body, T, label='induction')

"""C02 — operator arithmetic is matrix arithmetic, whatever the grouping."""
from __future__ import annotations

import z3

from props import driver
from pyvc import builtins_model as B
from pyvc.values import Obj, SSeq, fresh_int, to_z3, z_and, z_eq, z_not, concrete
from theories import alg as A

CORE = 'furax._base.core'
ORACLE = {'name': 'arithmetic_family'}
KINDS = ('plain', 'composition', 'addition', 'identity', 'homothety', 'lazy_inverse', 'own_inverse')


def mk(S, kind, tag, partner=None):
    """an operand of the given kind; returns (value, flat list of its factors, flat list of its terms)"""
    if kind == 'plain':
        o = A.plain_operator(S, 'PackOperator', f'{tag}')
        return o
    if kind == 'composition':
        ops = S.seq(f'{tag}_operands', kind='list', sort=A.Op)
        S.assume(z3.And(to_z3(ops.length) >= 2, A.chain_ok(ops.arr, to_z3(ops.length))))
        return S.new('CompositionOperator', operands=B.PyList(None, seq=ops))
    if kind == 'addition':
        ops = S.seq(f'{tag}_terms', kind='list', sort=A.Op)
        k = fresh_int('k')
        n = to_z3(ops.length)
        S.assume(z3.And(n >= 2, z3.ForAll([k], z3.Implies(z3.And(k >= 0, k < n), z3.And(
            A.ins(ops.arr[k]) == A.ins(ops.arr[0]), A.outs(ops.arr[k]) == A.outs(ops.arr[0]))))))
        return S.new('AdditionOperator', operands=B.PyList(None, seq=ops))
    if kind == 'identity':
        return S.new('IdentityOperator', _in_structure=z3.Const(f'{tag}_struct', A.Struct))
    if kind == 'homothety':
        return S.new('HomothetyOperator', value=S.real(f'{tag}_value'), _in_structure=z3.Const(f'{tag}_struct', A.Struct))
    if kind == 'lazy_inverse':
        x = z3.Const(f'{tag}_inverted', A.Op)
        S.assume(A.ins(x) == A.outs(x))
        S.assume(A.lem_inverse_cancels(A.denw(x), A.denc(x)))      # LA3 (the inverted operator is invertible)
        return S.new('InverseOperator', operator=x)
    if kind == 'own_inverse':          # the lazy inverse of the partner operand itself
        S.assume(A.den_of(S.I, partner)[2] == A.den_of(S.I, partner)[3])
        return S.new('InverseOperator', operator=partner if not isinstance(partner, Obj) else partner)
    raise AssertionError(kind)


def flat_factors(S, v):
    if isinstance(v, Obj) and v.cls.name == 'CompositionOperator':
        return B.as_seq(S.I, v.fields['operands']).map(lambda e: A.to_op(S.I, e))
    return SSeq.lift([A.to_op(S.I, v)], 'list')


def build(ck):
    T = A.AlgTheory(ck.P, core_as_terms=False)
    P = ck.P
    ck.trust('lemma:LA1 scalars are central', 'lemma:W-fold', 'lemma:LA3 inv f ∘ f = id = f ∘ inv f',
             'lemma:container-congruence')
    ck.assume_note('C02: operands are well-formed instances (compositions of >= 2 well-typed factors, sums of >= 2 terms '
                   'sharing their structures, lazy inverses of square operators) — the invariants their constructors '
                   'and this arithmetic establish')
    axioms = driver.size_axioms() + A.reduce_axioms() + T.class_axioms()

    # ------------------------------------------------------------------ a @ b through the dispatch protocol
    def matmul(S, lk, rk):
        S.oracle = ORACLE
        if lk == 'own_inverse':
            b = mk(S, rk, 'b')
            a = mk(S, 'own_inverse', 'a', partner=b)
        else:
            a = mk(S, lk, 'a')
            b = mk(S, rk, 'b', partner=a) if rk == 'own_inverse' else mk(S, rk, 'b')
        ca, wa, ia, oa = A.den_of(S.I, a)
        cb, wb, ib, ob = A.den_of(S.I, b)
        if 'own_inverse' in (lk, rk):
            x = b if lk == 'own_inverse' else a
            cx, wx, _, _ = A.den_of(S.I, x)
            S.assume(A.lem_inverse_cancels(wx, cx))
        snap = S.snapshot(a, b)
        out = S.call(B.PyFunc(lambda interp: interp.binop('MatMult', a, b), 'a @ b'), [])
        S.oblige('frame', S.unchanged(snap), tag=f'{lk}@{rk}:operands-not-modified')
        match = ia == ob
        if out.raised('ValueError'):
            S.oblige('exc', z3.Not(match), tag=f'{lk}@{rk}:ValueError-only-if-structures-differ')
            return
        if not out.normal:
            S.oblige('exc', False, tag=f'{lk}@{rk}:undeclared-{out.value.name}', note=str(out.where))
            return
        S.oblige('exc', match, tag=f'{lk}@{rk}:mismatching-structures-are-rejected',
                 finding='C02-identity-homothety-matmul-unchecked' if lk in ('identity', 'homothety') else None)
        S.assume(match)
        c, w, i_, o_ = A.den_of(S.I, out.value)
        S.oblige('post', z3.And(w == z3.Concat(wa, wb), c == ca * cb), tag=f'{lk}@{rk}:denotes-the-product', exact=False)
        S.oblige('post', z3.And(i_ == ib, o_ == oa), tag=f'{lk}@{rk}:structures-of-the-ends', exact=False)
        r = out.value
        absorbing = {'identity', 'homothety', 'own_inverse'}
        if isinstance(r, Obj) and r.cls.name == 'CompositionOperator' and not ({lk, rk} & absorbing):
            got = B.as_seq(S.I, r.fields['operands']).map(lambda e: A.to_op(S.I, e))
            want = flat_factors(S, a).concat(flat_factors(S, b))
            S.oblige('post', got.eq(SSeq(want.length, want.get, got.kind)), tag=f'{lk}@{rk}:factors-flattened-in-order')
    for lk in KINDS:
        for rk in KINDS:
            if lk == 'own_inverse' and rk == 'own_inverse':
                continue
            if 'own_inverse' in (lk, rk) and {lk, rk} & {'composition', 'addition', 'lazy_inverse'}:
                continue       # A.I is built on the reduced operand; the shortcut is about `is`-identical operands
            ck.explore(f'{CORE}.AbstractLinearOperator.__matmul__', (lambda lk, rk: lambda S: matmul(S, lk, rk))(lk, rk), T,
                       label=f'{lk}@{rk}', axioms=axioms, call_hook=A.plain_call_hook, contracts=A.size_contracts())


def flat_terms(S, v):
    if isinstance(v, Obj) and v.cls.name == 'AdditionOperator':
        return B.as_seq(S.I, v.fields['operands']).map(lambda e: A.to_op(S.I, e))
    return SSeq.lift([A.to_op(S.I, v)], 'list')


_build_matmul = build


def build(ck):          # noqa: F811
    _build_matmul(ck)
    T = A.AlgTheory(ck.P, core_as_terms=False)
    axioms = driver.size_axioms() + A.reduce_axioms() + T.class_axioms() + A.scale_axioms()
    SUMK = ('plain', 'composition', 'addition', 'identity', 'homothety', 'lazy_inverse')

    # ------------------------------------------------------------------ a + b, a - b
    def add(S, lk, rk, sub):
        S.oracle = ORACLE
        a, b = mk(S, lk, 'a'), mk(S, rk, 'b')
        ca, wa, ia, oa = A.den_of(S.I, a)
        cb, wb, ib, ob = A.den_of(S.I, b)
        opn = 'Sub' if sub else 'Add'
        snap = S.snapshot(a, b)
        out = S.call(B.PyFunc(lambda interp: interp.binop(opn, a, b), 'a +/- b'), [])
        S.oblige('frame', S.unchanged(snap), tag=f'{lk}{"-" if sub else "+"}{rk}:operands-not-modified')
        match = z3.And(ia == ib, oa == ob)
        nm = f'{lk}{"-" if sub else "+"}{rk}'
        if out.raised('ValueError'):
            S.oblige('exc', z3.Not(match), tag=f'{nm}:ValueError-only-if-structures-differ')
            return
        if not out.normal:
            S.oblige('exc', False, tag=f'{nm}:undeclared-{out.value.name}', note=str(out.where))
            return
        S.oblige('exc', match, tag=f'{nm}:mismatching-structures-are-rejected')
        S.assume(match)
        r = out.value
        ok = isinstance(r, Obj) and r.cls.name == 'AdditionOperator'
        S.oblige('post', bool(ok), tag=f'{nm}:result-is-a-sum')
        if not ok:
            return
        got = B.as_seq(S.I, r.fields['operands']).map(lambda e: A.to_op(S.I, e))
        ta, tb = flat_terms(S, a), flat_terms(S, b)
        na, nb = to_z3(ta.length), to_z3(tb.length)
        S.oblige('post', to_z3(got.length) == na + nb, tag=f'{nm}:number-of-terms')
        # a sum does not depend on the order of its terms: the result lists a's terms and b's terms (negated for `-`),
        # each block in its own order, in either order of the two blocks
        def rel(e, t):
            if not sub:
                return z_eq(e, t)
            return z_and(A.denw(e) == A.denw(t), A.denc(e) == -A.denc(t), A.ins(e) == A.ins(t), A.outs(e) == A.outs(t))
        n = to_z3(got.length)
        a_then_b = z_and(got.forall(lambda k, e: z_eq(e, ta.get(k)), 0, ta.length),
                         got.forall(lambda k, e: rel(e, tb.get(to_z3(k) - na)), ta.length, got.length))
        b_then_a = z_and(got.forall(lambda k, e: rel(e, tb.get(k)), 0, tb.length),
                         got.forall(lambda k, e: z_eq(e, ta.get(to_z3(k) - nb)), tb.length, got.length))
        from pyvc.values import z_or
        S.oblige('post', z_or(a_then_b, b_then_a), tag=f'{nm}:terms-of-both-operands' + ('-right-ones-negated' if sub else ''),
                 exact=False)
    for lk in SUMK:
        for rk in SUMK:
            for sub in (False, True):
                ck.explore(f'{CORE}.AbstractLinearOperator.__add__' if not sub else f'{CORE}.AbstractLinearOperator.__sub__',
                           (lambda lk, rk, sub: lambda S: add(S, lk, rk, sub))(lk, rk, sub), T,
                           label=f'{lk}{"-" if sub else "+"}{rk}', axioms=axioms, call_hook=A.plain_call_hook, contracts=A.size_contracts())

    # ------------------------------------------------------------------ k * a, a * k, a / k, -a, +a
    def scalar(S, kind, form):
        S.oracle = ORACLE
        a = mk(S, kind, 'a')
        ca, wa, ia, oa = A.den_of(S.I, a)
        k = S.real('k')
        nm = f'{form}:{kind}'
        snap0 = S.snapshot(a)
        if form == 'k*a':
            out = S.call(B.PyFunc(lambda interp: interp.binop('Mult', k, a), nm), [])
            want = k * ca
        elif form == 'a*k':
            out = S.call(B.PyFunc(lambda interp: interp.binop('Mult', a, k), nm), [])
            want = k * ca
        elif form == 'a/k':
            S.assume(k != 0)
            out = S.call(B.PyFunc(lambda interp: interp.binop('Div', a, k), nm), [])
            want = ca / k
        elif form == '-a':
            out = S.call(B.PyFunc(lambda interp: interp.unop(__import__('ast').USub(), a), nm), [])
            want = -ca
        elif form == '+a':
            out = S.call(B.PyFunc(lambda interp: interp.unop(__import__('ast').UAdd(), a), nm), [])
            want = ca
        elif form == 'vec*a':
            vec = A.ScalarArr(k, (S.int('dim'),))
            out = S.call(B.PyFunc(lambda interp: interp.binop('Mult', vec, a), nm), [])
            S.oblige('exc', out.raised('ValueError'), tag=f'{nm}:non-scalar-factor-rejected')
            return
        elif form == 'a/vec':
            vec = A.ScalarArr(k, (S.int('dim'),))
            out = S.call(B.PyFunc(lambda interp: interp.binop('Div', a, vec), nm), [])
            S.oblige('exc', out.raised('ValueError'), tag=f'{nm}:non-scalar-divisor-rejected')
            return
        if not out.normal:
            S.oblige('exc', False, tag=f'{nm}:undeclared-{out.value.name}', note=str(out.where))
            return
        S.oblige('frame', S.unchanged(snap0), tag=f'{nm}:operand-not-modified')
        r = out.value
        if kind == 'addition' and form == '-a':
            # -(sum) negates every term
            ok = isinstance(r, Obj) and r.cls.name == 'AdditionOperator'
            S.oblige('post', bool(ok), tag=f'{nm}:result-is-a-sum')
            if ok:
                got = B.as_seq(S.I, r.fields['operands']).map(lambda e: A.to_op(S.I, e))
                ta = flat_terms(S, a)
                S.oblige('post', z_eq(got.length, ta.length), tag=f'{nm}:same-number-of-terms')
                S.oblige('post', got.forall(lambda kk, e: z_and(A.denw(e) == A.denw(ta.get(kk)), A.denc(e) == -A.denc(ta.get(kk)),
                                                               A.ins(e) == A.ins(ta.get(kk)), A.outs(e) == A.outs(ta.get(kk)))),
                         tag=f'{nm}:every-term-negated', exact=False)
            return
        c, w, i_, o_ = A.den_of(S.I, r)
        S.oblige('post', z3.And(w == wa, c == want), tag=f'{nm}:denotes-the-scalar-multiple', exact=False)
        S.oblige('post', z3.And(i_ == ia, o_ == oa), tag=f'{nm}:structures-kept', exact=False)
    for kind in SUMK:
        for form in ('k*a', 'a*k', 'a/k', '-a', '+a', 'vec*a', 'a/vec'):
            ck.explore(f'{CORE}.AbstractLinearOperator.__rmul__', (lambda kind, form: lambda S: scalar(S, kind, form))(kind, form),
                       T, label=f'{form}:{kind}', axioms=axioms, call_hook=A.plain_call_hook, contracts=A.size_contracts())

"""./vf check Cxx [--tier quick|thorough] | ./vf replay <path> | ./vf selfcheck | ./vf list"""
from __future__ import annotations

import argparse
import importlib
import json
import os
import sys
import traceback

VERIF = os.path.dirname(os.path.dirname(os.path.abspath(__file__)))
sys.path.insert(0, VERIF)
sys.setrecursionlimit(20000)


def cmd_check(args):
    from pyvc.harness import Check
    tier = os.environ.get('VERIF_TIER') or args.tier
    seed = int(os.environ.get('VERIF_SEED', '0') or 0)
    try:
        mod = importlib.import_module(f'props.{args.prop}')
    except ModuleNotFoundError:
        print(f'no pack for {args.prop}')
        return 3
    ck = Check(args.prop, tier=tier, seed=seed)
    ck.no_evidence = args.no_evidence
    try:
        mod.build(ck)
    except Exception:                      # noqa: BLE001
        traceback.print_exc()
        ck.errors.append('pack crashed: ' + traceback.format_exc().splitlines()[-1])
    ck.only, ck.show = args.only, args.show
    ck.partial = bool(args.only)
    if args.job:
        ck.partial = True
        ck.jobs = [j for j in ck.jobs if args.job in (j['func_name'] + '#' + j['label'])]
    rc = ck.finish()
    if args.verbose:
        for o in ck.obligations:
            print(f'  {o.status:8s} {o.time_s:6.2f}s {o.backend:10s} {o.name}')
    return rc


def cmd_replay(args):
    from pyvc.harness import run_native
    data = json.load(open(args.path))
    prop = data['property']
    spec = data.get('native_spec') or data.get('oracle')
    if spec is None and isinstance(data.get('native'), dict) and 'oracle' in data['native']:
        spec = data['native']
    if not spec:
        print(f'replay file carries no native oracle (obligation {data.get("obligation")}): verifier output only')
        print(json.dumps({k: data.get(k) for k in ('obligation', 'witness', 'backend')}, indent=1, default=str))
        return 1
    spec = dict(spec)
    spec.setdefault('witness', data.get('witness'))
    res = run_native(spec.get("prop") or prop, spec)
    print(res.get('output', ''))
    print('replay:', res['status'])
    return 1 if res['status'] == 'fails' else (0 if res['status'] == 'holds' else 3)


def cmd_selfcheck(args):
    import z3
    from pyvc.source import Program
    P = Program()
    print('z3', z3.get_version_string(), '| modules', len(P.modules), '| classes', len(P.classes), '| tree',
          P.tree_sha())
    for tool in ('/usr/bin/cvc5', '/usr/bin/z3', '/venv/bin/python'):
        print(tool, 'present' if os.path.exists(tool) else 'MISSING')
    man = json.load(open(os.path.join(VERIF, 'MANIFEST.json')))
    for c in man['checks']:
        p = c['property_id']
        if not os.path.exists(os.path.join(VERIF, 'props', f'{p}.py')):
            print('missing pack', p)
            return 3
    os.makedirs(os.path.join(VERIF, 'evidence'), exist_ok=True)
    os.makedirs(os.path.join(VERIF, 'replay'), exist_ok=True)
    return 0


def cmd_selftest(args):
    """engine self-test: every seeded change under /verif/seeded/<id>/ is applied to a scratch copy of /repo/src and the
    checks of the properties it breaks must report a VIOLATION (exit 1); the pristine copy must exit 0"""
    import shutil
    import subprocess
    import tempfile
    ids = args.ids or sorted(os.listdir(os.path.join(VERIF, 'seeded')))

    def one(sid):
        lines, bad = [], 0
        sd = os.path.join(VERIF, 'seeded', sid)
        if not os.path.exists(os.path.join(sd, 'patch.diff')):
            return lines, bad
        meta = json.load(open(os.path.join(sd, 'meta.json'))) if os.path.exists(os.path.join(sd, 'meta.json')) else {}
        props = [meta.get('property', sid)] + list(meta.get('also_detected_by', []))
        tmp = tempfile.mkdtemp(prefix='vf-selftest-', dir=os.path.expanduser('~/.cache') if os.path.isdir(os.path.expanduser('~/.cache')) else None)
        try:
            shutil.copytree(os.path.join(os.environ.get('VF_REPO', '/repo'), 'src'), os.path.join(tmp, 'src'))
            r = subprocess.run(['patch', '-p1', '-s', '-i', os.path.join(sd, 'patch.diff')], cwd=tmp, capture_output=True, text=True)
            if r.returncode != 0:
                return [f'{sid}: patch does not apply: {r.stdout[-200:]}{r.stderr[-200:]}'], 1
            for p in props:
                env = dict(os.environ, VF_REPO=tmp, VF_SELFTEST='1')
                import time
                t0 = time.time()
                r = subprocess.run([sys.executable, '-m', 'pyvc.cli', 'check', p, '--no-evidence'], cwd=VERIF, env=env,
                                   capture_output=True, text=True)
                verdict = 'detected' if r.returncode == 1 and 'VIOLATION' in r.stdout else f'NOT DETECTED (exit {r.returncode})'
                lines.append(f'seed {sid} against {p}: {verdict} ({time.time() - t0:.0f}s)')
                bad += verdict != 'detected'
        finally:
            shutil.rmtree(tmp, ignore_errors=True)
        return lines, bad
    from concurrent.futures import ThreadPoolExecutor
    bad = 0
    with ThreadPoolExecutor(max_workers=max(1, args.jobs)) as ex:
        for lines, b in ex.map(one, ids):
            for ln in lines:
                print(ln, flush=True)
            bad += b
    return 1 if bad else 0


def cmd_reftest(args):
    """robustness self-test: every behaviour-preserving refactoring under /verif/refactors/refactor_<prop>_<k>.diff is
    applied to a scratch copy of /repo/src; the check of <prop> (or the checks given with --props) must NOT report a
    violation: exit 0 expected, exit 2 (undecided) is reported but tolerated, exit 1 is a false alarm"""
    import re
    import shutil
    import subprocess
    import tempfile
    import time
    rd = os.path.join(VERIF, 'refactors')
    files = sorted(f for f in os.listdir(rd) if f.endswith('.diff') and (not args.ids or any(i in f for i in args.ids)))

    def one(f):
        m = re.match(r'refactor_(C\d+)_', f)
        props = args.props.split(',') if args.props else ([m.group(1)] if m else [])
        tmp = tempfile.mkdtemp(prefix='vf-reftest-', dir=os.path.expanduser('~/.cache') if os.path.isdir(os.path.expanduser('~/.cache')) else None)
        lines, bad = [], 0
        try:
            shutil.copytree(os.path.join(os.environ.get('VF_REPO', '/repo'), 'src'), os.path.join(tmp, 'src'))
            r = subprocess.run(['patch', '-p1', '-s', '-i', os.path.join(rd, f)], cwd=tmp, capture_output=True, text=True)
            if r.returncode != 0:
                return [f'{f}: patch does not apply (the repository moved on)'], 0
            for p in props:
                t0 = time.time()
                r = subprocess.run([sys.executable, '-m', 'pyvc.cli', 'check', p, '--no-evidence'], cwd=VERIF,
                                   env=dict(os.environ, VF_REPO=tmp), capture_output=True, text=True)
                verdict = {0: 'ok', 2: 'undecided (tolerated)'}.get(r.returncode, f'FALSE ALARM (exit {r.returncode})')
                lines.append(f'{f} against {p}: {verdict} ({time.time() - t0:.0f}s)')
                bad += r.returncode not in (0, 2)
        finally:
            shutil.rmtree(tmp, ignore_errors=True)
        return lines, bad
    from concurrent.futures import ThreadPoolExecutor
    bad = 0
    with ThreadPoolExecutor(max_workers=max(1, args.jobs)) as ex:
        for lines, b in ex.map(one, files):
            for ln in lines:
                print(ln, flush=True)
            bad += b
    return 1 if bad else 0


def main():
    ap = argparse.ArgumentParser(prog='vf')
    sub = ap.add_subparsers(dest='cmd', required=True)
    c = sub.add_parser('check')
    c.add_argument('prop')
    c.add_argument('--tier', default='quick', choices=['quick', 'thorough'])
    c.add_argument('--only', default=None)
    c.add_argument('--list', action='store_true')
    c.add_argument('--show', default=None)
    c.add_argument('--job', default=None, help='run only the scenarios whose name#label contains this')
    c.add_argument('-v', '--verbose', action='store_true')
    c.add_argument('--no-evidence', action='store_true', help='do not rewrite evidence/replay files (self-test runs)')
    r = sub.add_parser('replay')
    r.add_argument('path')
    sub.add_parser('selfcheck')
    st = sub.add_parser('selftest')
    st.add_argument('-j', '--jobs', type=int, default=1)
    st.add_argument('ids', nargs='*')
    rt = sub.add_parser('reftest')
    rt.add_argument('-j', '--jobs', type=int, default=1)
    rt.add_argument('--props', default='')
    rt.add_argument('ids', nargs='*')
    a = ap.parse_args()
    rc = {'check': cmd_check, 'replay': cmd_replay, 'selfcheck': cmd_selfcheck, 'selftest': cmd_selftest,
          'reftest': cmd_reftest}[a.cmd](a)
    sys.exit(rc)


if __name__ == '__main__':
    main()

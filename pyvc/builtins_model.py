"""Models of Python builtins and of the methods of builtin types, over concrete and symbolic values."""
from __future__ import annotations

from fractions import Fraction

import z3

from .values import fresh_name as fresh_name_
from .values import (NOT_IMPLEMENTED, BoundMethod, ClassRef, ExcVal, Ext, FuncRef, Obj, Partial, PyFunc, SSeq,
                     Unsupported, Value, concrete, fresh_int, is_boollike, is_intlike, is_numlike, is_sym_bool,
                     is_sym_int, is_z3, to_real, to_z3, z_and, z_eq, z_implies, z_ite, z_not, z_or, zbool)


class OpaqueStr(Value):
    """an f-string / message: content is irrelevant"""

    def py_getattr(self, interp, name):
        return PyFunc(lambda interp, *a, **k: OpaqueStr(), 'str.' + name)

    def py_binop(self, interp, op, other, refl):
        return OpaqueStr()


class SymDict(Value):
    """a dict literal whose keys are symbolic scalars: lookups are if-then-else chains (a later equal key wins)"""

    def __init__(self, pairs):
        self.pairs = list(pairs)

    def lookup(self, interp, key, default=None, has_default=False):
        hit = z_or(*[z_eq(key, k) for k, _ in self.pairs])
        if not has_default:
            if not interp.run.branch(hit):
                interp.raise_('KeyError', key)
            res = self.pairs[-1][1]
            rest = self.pairs[:-1]
        else:
            res = default
            rest = self.pairs
        for k, v in rest if has_default else rest:
            res = z_ite(z_eq(key, k), v, res) if not isinstance(z_eq(key, k), bool) else (v if z_eq(key, k) else res)
        if not has_default:
            # the last pair was the base case: re-apply it on top (a later equal key wins)
            k, v = self.pairs[-1]
            res = z_ite(z_eq(key, k), v, res) if not isinstance(z_eq(key, k), bool) else (v if z_eq(key, k) else res)
        return res

    def py_getitem(self, interp, key):
        return self.lookup(interp, key)

    def py_getattr(self, interp, name):
        if name == 'get':
            return PyFunc(lambda interp, k, d=None: self.lookup(interp, k, d, True), 'dict.get')
        raise Unsupported(f'dict.{name} on a dict with symbolic keys')


class GenV(Value):
    """result of a generator expression: a list of values or an SSeq"""

    def __init__(self, r):
        self.r = r

    def items(self, interp):
        if isinstance(self.r, SSeq):
            return self.r.py_items()
        return list(self.r)


class StarArgs(Value):
    """`*xs` at a call site where xs has symbolic length (the only positional argument of the call)"""

    def __init__(self, seq):
        self.seq = seq


class SuperV(Value):
    def __init__(self, self_val, defcls):
        self.self_val, self.defcls = self_val, defcls

    def py_getattr(self, interp, name):
        o = self.self_val
        cls = o.cls if isinstance(o, Obj) else o.info
        mro = cls.mro
        i = mro.index(self.defcls)
        for c in mro[i + 1:]:
            if name in c.patched:
                return interp.bind_patched(c.patched[name], o, c)
            if name in c.methods:
                fi = c.methods[name]
                if fi.kind == 'staticmethod':
                    return FuncRef(fi, None)
                return BoundMethod(FuncRef(fi, None), o if fi.kind != 'classmethod' else ClassRef(cls), c)
        if interp.theory is not None:
            r = interp.theory.super_missing(interp, o, self.defcls, name)
            if r is not None:
                return r
        if name in ('__init__', '__init_subclass__'):
            return PyFunc(lambda interp, *a, **k: None, 'object.' + name)
        interp.raise_('AttributeError', name)


class PyList(Value):
    """mutable list with aliasing (shared Python object); symbolic contents live in .seq"""

    def __init__(self, items=None, seq=None):
        self.items = list(items) if items is not None else None
        self.seq = seq          # SSeq when length symbolic
        if self.items is None and seq is not None and seq.is_concrete_len() and False:
            self.items = seq.py_items()

    def __repr__(self):
        return f'<list {self.items if self.seq is None else self.seq}>'

    def as_seq(self) -> SSeq:
        if self.seq is not None:
            s = SSeq(self.seq.length, self.seq.get, 'list')
            if hasattr(self.seq, 'arr'):
                s.arr = self.seq.arr
            return s
        return SSeq.lift(list(self.items), 'list')

    def length(self):
        return self.seq.length if self.seq is not None else len(self.items)

    def truth(self, interp):
        n = self.length()
        return (n > 0) if isinstance(n, int) else to_z3(n) > 0

    def py_iter(self, interp, expect=None):
        if self.seq is not None:
            return self.seq.py_items()
        return list(self.items)

    def py_getitem(self, interp, idx):
        if self.seq is None and not isinstance(idx, slice) and concrete(idx) is not None:
            i = concrete(idx)
            try:
                return self.items[i]
            except IndexError:
                interp.raise_('IndexError')
        r = getitem(interp, self.as_seq(), idx)
        if isinstance(r, SSeq):
            if r.is_concrete_len() and self.seq is None:
                return PyList(r.py_items())
            return PyList(None, seq=r)
        return r

    def setitem(self, interp, idx, v):
        if isinstance(idx, slice):
            if idx.step is not None:
                raise Unsupported('extended slice assignment')
            new = as_seq(interp, v)
            cur = self.as_seq()
            if interp.theory is not None:
                interp.theory.on_list_surgery(interp, self, cur, idx, new)
            lo = 0 if idx.start is None else idx.start
            hi = cur.length if idx.stop is None else idx.stop
            if self.seq is None and concrete(lo) is not None and concrete(hi) is not None and new.is_concrete_len():
                self.items[concrete(lo):concrete(hi)] = new.py_items()
                return
            # python clamps slice bounds; the anchored code never relies on clamping, so in-range is an obligation
            zl, zh, zn = to_z3(lo), to_z3(hi), to_z3(cur.length)
            interp.run.oblige(f'{interp.cur_name()}/bounds', z3.And(zl >= 0, zl <= zh, zh <= zn), kind='bounds')
            res = cur.slice(None, lo).concat(new).concat(cur.slice(hi, None))
            self.items, self.seq = None, SSeq(z3.simplify(to_z3(res.length)), res.get, 'list')
            if interp.theory is not None:
                interp.theory.after_list_surgery(interp, self, cur, lo, hi, new)
            return
        if self.seq is None and concrete(idx) is not None:
            try:
                self.items[concrete(idx)] = v
            except IndexError:
                interp.raise_('IndexError')
            return
        cur = self.as_seq()
        zi = to_z3(idx)
        zi = z3.If(zi < 0, zi + to_z3(cur.length), zi)
        if not interp.run.branch(z3.And(zi >= 0, zi < to_z3(cur.length))):
            interp.raise_('IndexError')
        self.items, self.seq = None, SSeq(cur.length, lambda k: z_ite(to_z3(k) == zi, v, cur.get(k)), 'list')

    def extend(self, interp, v):
        new = as_seq(interp, v)
        if self.seq is None and new.is_concrete_len():
            self.items.extend(new.py_items())
        elif self.seq is None and not self.items:
            self.items, self.seq = None, new          # [] extended by a sequence IS that sequence (no concatenation term)
        else:
            r = self.as_seq().concat(new)
            self.items, self.seq = None, r

    def py_binop(self, interp, op, other, refl):
        if op == 'Add' and isinstance(other, PyList):
            a, b = (other, self) if refl else (self, other)
            if a.seq is None and b.seq is None:
                return PyList(a.items + b.items)
            sa, sb = a.as_seq(), b.as_seq()
            res = PyList(None, seq=sa.concat(sb))
            if interp.theory is not None:
                interp.theory.after_list_concat(interp, res, sa, sb)
            return res
        if op == 'Mult' and is_intlike(other):
            if self.seq is None and concrete(other) is not None:
                return PyList(self.items * concrete(other))
            return PyList(None, seq=self.as_seq().repeat(other))
        return NOT_IMPLEMENTED

    def py_getattr(self, interp, name):
        if name == 'append':
            def append(interp, x):
                if self.seq is None:
                    self.items.append(x)
                else:
                    cur = self.as_seq()
                    self.seq = cur.concat(SSeq.lift([x], 'list'))
                    if interp.theory is not None:
                        interp.theory.after_list_append(interp, self, cur, x)
            return PyFunc(append, 'list.append')
        if name == 'copy':
            return PyFunc(lambda interp: PyList(list(self.items)) if self.seq is None else PyList(None, seq=self.seq),
                          'list.copy')
        if name == 'index':
            return PyFunc(lambda interp, x: seq_index(interp, self.as_seq(), x), 'list.index')
        if name == 'pop':
            def pop(interp, i=-1):
                if self.seq is None:
                    try:
                        return self.items.pop(concrete(i))
                    except IndexError:
                        interp.raise_('IndexError')
                raise Unsupported('pop on symbolic list')
            return PyFunc(pop, 'list.pop')
        if name == 'extend':
            return PyFunc(lambda interp, v: self.extend(interp, v), 'list.extend')
        if name == 'insert':
            def insert(interp, i, x):
                if self.seq is None and concrete(i) is not None:
                    self.items.insert(concrete(i), x)
                    return None
                raise Unsupported('list.insert on a symbolic list / at a symbolic position')
            return PyFunc(insert, 'list.insert')
        raise Unsupported(f'list.{name}')


class SetV(Value):
    """finite set of scalars given by a membership predicate (symbolic) or a python set (concrete)"""

    def __init__(self, member, universe_hint=None, items=None):
        self.member = member           # callable: term -> Bool
        self.items = items             # python list of distinct concrete items, if known

    def truth(self, interp):
        return set_len_cmp(interp, self, 'Gt', 0)

    def py_binop(self, interp, op, other, refl):
        if not isinstance(other, SetV):
            return NOT_IMPLEMENTED
        a, b = (other, self) if refl else (self, other)
        if a.items is not None and b.items is not None and all(concrete(x) is not None for x in a.items + b.items):
            sa, sb = set(a.items), set(b.items)
            r = {'BitAnd': sa & sb, 'BitOr': sa | sb, 'Sub': sa - sb}.get(op)
            if r is None:
                return NOT_IMPLEMENTED
            return make_set(interp, sorted(r, key=repr))
        if op == 'BitAnd':
            return SetV(lambda x: z_and(a.member(x), b.member(x)))
        if op == 'BitOr':
            return SetV(lambda x: z_or(a.member(x), b.member(x)))
        if op == 'Sub':
            return SetV(lambda x: z_and(a.member(x), z_not(b.member(x))))
        return NOT_IMPLEMENTED

    def py_getattr(self, interp, name):
        if name == 'pop':
            def pop(interp):
                if self.items is not None:
                    if not self.items:
                        interp.raise_('KeyError')
                    x = self.items.pop()
                    old = self.member
                    self.member = lambda y: z_and(old(y), z_not(z_eq(y, x)))
                    return x
                if not interp.run.branch(set_len_cmp(interp, self, 'Gt', 0)):
                    interp.raise_('KeyError')
                c = fresh_int('pop')
                interp.run.assume(self.member(c))
                old = self.member
                self.member = lambda y: z_and(old(y), z_not(z_eq(y, c)))
                return c
            return PyFunc(pop, 'set.pop')
        if name == 'add':
            def add(interp, x):
                # s.add(x) on a set given by an explicit list of members (in place)
                if isinstance(self, ItemSet):
                    self.cands = self.cands + [x]
                    cands = self.cands
                    self.member = lambda y: z_or(*[z_eq(y, c) for c in cands])
                    return None
                if self.items is None:
                    raise Unsupported('set.add on a symbolic set')
                if isinstance(x, SSeq) or (isinstance(x, tuple) and any(is_z3(e) for e in x)):
                    if self.items:
                        raise Unsupported('set.add of a symbolic sequence to a set of scalars')
                    self.__class__ = ItemSet            # {seq, ...}: members compared symbolically from now on
                    self.cands, self.items = [x], None
                    cands = self.cands
                    self.member = lambda y: z_or(*[z_eq(y, c) for c in cands])
                    return None
                if not any(concrete(z_eq(x, y)) is True for y in self.items):
                    self.items = self.items + [x]
                items = self.items
                self.member = lambda y: z_or(*[z_eq(y, c) for c in items])
                return None
            return PyFunc(add, 'set.add')
        raise Unsupported(f'set.{name}')

    def py_iter(self, interp, expect=None):
        if self.items is not None:
            return list(self.items)
        raise Unsupported('iteration over a symbolic set')


class ItemSet(SetV):
    """set of non-scalar values (tuples / sequences) given by a concrete list of candidate members whose pairwise
    equality may be symbolic: {leaf.shape for leaf in leaves}"""

    def __init__(self, cands):
        self.cands = list(cands)
        super().__init__(lambda x: z_or(*[z_eq(x, y) for y in self.cands]))

    def len_at_least(self, k):
        import itertools
        if k <= 0:
            return True
        alts = []
        for sub in itertools.combinations(range(len(self.cands)), k):
            alts.append(z_and(*[z_not(z_eq(self.cands[i], self.cands[j])) for i in sub for j in sub if i < j]))
        return z_or(*alts)

    def py_getattr(self, interp, name):
        if name == 'pop':
            def pop(interp):
                if not self.cands:
                    interp.raise_('KeyError')
                i = interp.run.decide(len(self.cands))      # an arbitrary member
                x = self.cands[i]
                rest = [y for y in self.cands if z_eq(x, y) is not True]
                self.cands = rest
                self.member = lambda y: z_and(z_or(*[z_eq(y, c) for c in rest]), z_not(z_eq(y, x)))
                return x
            return PyFunc(pop, 'set.pop')
        return super().py_getattr(interp, name)

    def py_iter(self, interp, expect=None):
        raise Unsupported('iteration over a set of symbolic sequences')


def set_len_cmp(interp, s: SetV, op, n):
    """len(s) <op> n for small constant n, as a term"""
    if s.items is not None and all(concrete(x) is not None for x in s.items):
        ln = len(set(s.items))
        return {'Eq': ln == n, 'NotEq': ln != n, 'Gt': ln > n, 'GtE': ln >= n, 'Lt': ln < n, 'LtE': ln <= n}[op]

    def at_least(k):
        if hasattr(s, 'len_at_least'):
            return s.len_at_least(k)
        if k <= 0:
            return True
        xs = [fresh_int('c') for _ in range(k)]
        body = z3.And(*[zbool(s.member(x)) for x in xs],
                      *[xs[i] != xs[j] for i in range(k) for j in range(i + 1, k)]) if k > 1 else zbool(s.member(xs[0]))
        return z3.Exists(xs, body)
    if not isinstance(n, int):
        raise Unsupported('len(set) compared with a symbolic value')
    ge = at_least
    if op == 'GtE':
        return ge(n)
    if op == 'Gt':
        return ge(n + 1)
    if op == 'Lt':
        return z_not(ge(n))
    if op == 'LtE':
        return z_not(ge(n + 1))
    if op == 'Eq':
        return z_and(ge(n), z_not(ge(n + 1)))
    if op == 'NotEq':
        return z_not(z_and(ge(n), z_not(ge(n + 1))))
    raise Unsupported(op)


class SetLen(Value):
    """len(set) kept symbolic until it is compared with a constant"""

    def __init__(self, s):
        self.s = s

    def _against_own_length(self, other):
        """len(set(xs)) compared with len(xs): returns the term 'xs has no duplicate' or None"""
        src = getattr(self.s, 'source_seq', None)
        if src is None or concrete(other) is not None or not is_z3(other):
            return None
        import z3 as _z3
        if not _z3.eq(_z3.simplify(to_z3(other)), _z3.simplify(to_z3(src.length))):
            return None
        i, j = fresh_int('i'), fresh_int('j')
        n = to_z3(src.length)
        return _z3.ForAll([i, j], _z3.Implies(_z3.And(0 <= i, i < j, j < n), _z3.Not(zbool(z_eq(src.get(i), src.get(j))))))

    def py_compare(self, interp, op, other, refl):
        if refl:
            op = {'Gt': 'Lt', 'Lt': 'Gt', 'GtE': 'LtE', 'LtE': 'GtE'}.get(op, op)
        d = self._against_own_length(other)
        if d is not None:       # len(set(xs)) <= len(xs) always; equality iff no duplicate
            return {'Eq': d, 'NotEq': z_not(d), 'Lt': z_not(d), 'LtE': True, 'Gt': False, 'GtE': d}[op]
        return set_len_cmp(interp, self.s, op, concrete(other))

    def py_eq(self, interp, other):
        d = self._against_own_length(other)
        if d is not None:
            return d
        return set_len_cmp(interp, self.s, 'Eq', concrete(other))


def make_set(interp, items):
    if isinstance(items, SSeq):
        seq = items
        if seq.is_concrete_len():
            return make_set(interp, seq.py_items())
        r = SetV(lambda x: seq.exists(lambda k, e: z_eq(e, x)))
        r.source_seq = seq              # len(set(xs)) against len(xs): "xs has no duplicate"
        return r
    if isinstance(items, GenV):
        return make_set(interp, items.r)
    if isinstance(items, PyList):
        return make_set(interp, items.as_seq() if items.seq is not None else items.items)
    if isinstance(items, str):
        items = [ord(c) for c in items]
    items = list(items)
    if items and all(isinstance(x, SSeq) or (isinstance(x, tuple) and any(is_z3(e) for e in x)) for x in items):
        return ItemSet(items)
    if all(concrete(x) is not None or x is None or isinstance(x, (str, tuple)) for x in items):
        uniq = []
        for x in items:
            if not any(x == y for y in uniq):
                uniq.append(x)
        return SetV(lambda x, uniq=uniq: z_or(*[z_eq(x, y) for y in uniq]), items=uniq)
    return SetV(lambda x: z_or(*[z_eq(x, y) for y in items]))


# ------------------------------------------------------------------------------------------ sequences
def as_seq_or_none(interp, v):
    if isinstance(v, SSeq):
        return v
    if isinstance(v, PyList):
        return v.as_seq()
    if isinstance(v, (tuple, list, str, range)):
        return SSeq.lift(v)
    if isinstance(v, GenV) and isinstance(v.r, SSeq):
        return v.r
    if isinstance(v, GenV):
        return SSeq.lift(list(v.r))
    if hasattr(v, 'as_sseq'):
        return v.as_sseq(interp)
    return None


def as_seq(interp, v) -> SSeq:
    s = as_seq_or_none(interp, v)
    if s is None:
        raise Unsupported(f'not a sequence: {v!r}')
    return s


def seq_index(interp, seq: SSeq, x):
    """s.index(x): first position, or ValueError"""
    if seq.is_concrete_len() and all(concrete(z_eq(e, x)) is not None for e in seq.py_items()):
        for i, e in enumerate(seq.py_items()):
            if concrete(z_eq(e, x)):
                return i
        interp.raise_('ValueError', 'not in sequence')
    present = seq.exists(lambda k, e: z_eq(e, x))
    if not interp.run.branch(present):
        interp.raise_('ValueError', 'not in sequence')
    p = fresh_int('idx')
    interp.run.assume(z_and(p >= 0, p < to_z3(seq.length), z_eq(seq.get(p), x),
                            seq.forall(lambda k, e: z_not(z_eq(e, x)), 0, p)))
    return p


def contains(interp, container, x):
    if isinstance(container, SetV):
        return container.member(x)
    if isinstance(container, dict):
        return x in container
    if hasattr(container, 'py_contains'):
        return container.py_contains(interp, x)
    if isinstance(container, str) and isinstance(x, str):
        return x in container
    if isinstance(container, (tuple, list)) and all(not is_z3(e) and not isinstance(e, SSeq) for e in container) \
            and not is_z3(x) and not isinstance(x, SSeq):
        return any(concrete(z_eq(e, x)) is True or interp.identical(e, x) is True for e in container)
    seq = as_seq_or_none(interp, container)
    if seq is None:
        raise Unsupported(f'`in` on {container!r}')
    if seq.kind == 'str' and isinstance(x, (str, SSeq)):
        sub = SSeq.lift(x)
        m = concrete(sub.length)
        if m is None:
            raise Unsupported('substring test with a pattern of symbolic length on a symbolic string')
        if m == 0:
            return True
        if m > 1:
            # pattern occurs at some offset k: 0 <= k, k + m <= len, seq[k + j] == pattern[j] for every j < m
            import z3 as _z3
            k = fresh_int('sub')
            n = to_z3(seq.length)
            body = [zbool(z_eq(seq.get(k + j), sub.get(j))) for j in range(m)]
            return _z3.Exists([k], _z3.And(k >= 0, k + m <= n, *body))
        x = sub.get(0)
    return seq.exists(lambda k, e: z_eq(e, x))


def getitem(interp, v, idx):
    if isinstance(v, dict):
        if idx in v:
            return v[idx]
        interp.raise_('KeyError', idx)
    if isinstance(v, str) and (isinstance(idx, slice) or concrete(idx) is not None) and not (
            isinstance(idx, slice) and any(is_z3(x) for x in (idx.start, idx.stop, idx.step))):
        try:
            return v[idx if isinstance(idx, slice) else concrete(idx)]
        except IndexError:
            interp.raise_('IndexError')
    if isinstance(v, (tuple, list)) and not isinstance(idx, slice) and concrete(idx) is not None:
        try:
            return v[concrete(idx)]
        except IndexError:
            interp.raise_('IndexError')
    if isinstance(v, (tuple, list)) and isinstance(idx, slice) and all(
            x is None or concrete(x) is not None for x in (idx.start, idx.stop, idx.step)):
        return v[slice(*(None if x is None else concrete(x) for x in (idx.start, idx.stop, idx.step)))]
    seq = as_seq_or_none(interp, v)
    if seq is None:
        raise Unsupported(f'subscript on {v!r}')
    if isinstance(idx, slice):
        step = concrete(idx.step) if idx.step is not None else None
        if idx.step is not None and step is None:
            raise Unsupported('symbolic slice step')
        if step in (None, 1):
            return seq.slice(idx.start, idx.stop)
        if step == -1:
            return seq.reversed_slice(idx.start, idx.stop)
        raise Unsupported(f'slice step {step}')
    if not is_intlike(idx):
        interp.raise_('TypeError', 'sequence index must be int')
    ci, cl = concrete(idx), concrete(seq.length)
    if ci is not None and cl is not None:
        j = ci + cl if ci < 0 else ci
        if not 0 <= j < cl:
            interp.raise_('IndexError')
        return seq.get(j)
    zi, zl = to_z3(idx), to_z3(seq.length)
    if ci is not None:
        j = zl + ci if ci < 0 else zi
    else:
        j = z3.If(zi < 0, zi + zl, zi)
    if not interp.run.branch(z3.And(j >= 0, j < zl)):
        interp.raise_('IndexError')
    return seq.get(z3.simplify(j) if is_z3(j) else j)


def str_methods(interp, s, name):
    """methods of concrete python strings and of symbolic strings (SSeq kind 'str')"""
    if isinstance(s, str):
        if name in ('startswith', 'endswith', 'lower', 'upper', 'split', 'replace', 'index', 'strip', 'join'):
            def call(interp, *a):
                if name == 'join':
                    sq = as_seq_or_none(interp, a[0]) if s == '' and isinstance(a[0], Value) else None
                    if sq is not None and not sq.is_concrete_len():
                        # ''.join(list of single characters) of symbolic length: same codes, kind 'str'
                        return sq.retag('str') if hasattr(sq, 'retag') else SSeq(sq.length, sq.get, 'str')
                    sq_any = as_seq_or_none(interp, a[0]) if isinstance(a[0], Value) else None
                    if sq_any is not None and not sq_any.is_concrete_len():
                        return OpaqueStr()      # text of a message assembled from a symbolic number of parts: dropped
                    parts = interp.iter_concrete(a[0])
                    if all(isinstance(p, str) for p in parts):
                        return s.join(parts)
                    if s == '' and all(isinstance(p, str) or is_intlike(p) for p in parts):
                        # ''.join(list of chars), chars possibly symbolic codes
                        return SSeq.lift([ord(p) if isinstance(p, str) else p for p in parts], 'str')
                    if any(isinstance(p, OpaqueStr) for p in parts):
                        return OpaqueStr()
                    raise Unsupported('str.join of symbolic parts')
                if any(isinstance(x, SSeq) for x in a):
                    return str_methods(interp, SSeq.lift(s), name).fn(interp, *a)
                try:
                    return getattr(s, name)(*a)
                except ValueError:
                    interp.raise_('ValueError')
            return PyFunc(call, 'str.' + name)
        raise Unsupported(f'str.{name}')
    raise Unsupported(f'symbolic str.{name} (handled by the string theory)')


def builtin_getattr(interp, v, name):
    if is_numlike(v) and interp.theory is not None and getattr(interp.theory, 'number_attr', None) is not None:
        r = interp.theory.number_attr(interp, v, name)      # facets in which a number stands for an array element
        if r is not None:
            return r
    if isinstance(v, str):
        return str_methods(interp, v, name)
    if isinstance(v, SSeq):
        if v.kind == 'str' and interp.theory is not None:
            r = interp.theory.str_method(interp, v, name)
            if r is not None:
                return r
        if name == 'index':
            return PyFunc(lambda interp, x: seq_index(interp, v, x), 'seq.index')
        if name == 'count':
            def count(interp, x):
                # s.count(x) for a sequence of symbolic length: a fresh integer characterised for the values 0, 1, >= 2
                if v.kind == 'str' and isinstance(x, (str, SSeq)):
                    sub = SSeq.lift(x)
                    if concrete(sub.length) != 1:
                        raise Unsupported('str.count of a multi-character pattern')
                    x = sub.get(0)
                n = to_z3(v.length)
                c = fresh_int('count')
                p, q = fresh_int('p'), fresh_int('q')
                one = z3.Exists([p], z3.And(0 <= p, p < n, zbool(z_eq(v.get(p), x))))
                two = z3.Exists([p, q], z3.And(0 <= p, p < q, q < n, zbool(z_eq(v.get(p), x)), zbool(z_eq(v.get(q), x))))
                interp.run.assume(z3.And(c >= 0, c <= n, (c >= 1) == one, (c >= 2) == two))
                return c
            return PyFunc(count, 'seq.count')
    if isinstance(v, (tuple, list)):
        if name == 'index':
            return PyFunc(lambda interp, x: seq_index(interp, SSeq.lift(v), x), 'tuple.index')
    if isinstance(v, dict):
        if name == 'get':
            return PyFunc(lambda interp, k, d=None: v.get(k, d), 'dict.get')
        if name == 'copy':
            return PyFunc(lambda interp: dict(v), 'dict.copy')
        if name == 'items':
            return PyFunc(lambda interp: [(k, x) for k, x in v.items()], 'dict.items')
        if name == 'keys':
            return PyFunc(lambda interp: list(v.keys()), 'dict.keys')
        if name == 'values':
            return PyFunc(lambda interp: list(v.values()), 'dict.values')
        if name == 'pop':
            def pop(interp, k, *d):
                if k in v:
                    return v.pop(k)
                if d:
                    return d[0]
                interp.raise_('KeyError', k)
            return PyFunc(pop, 'dict.pop')
        if name == 'update':
            return PyFunc(lambda interp, *a, **k: v.update(*a, **k), 'dict.update')
        if name == 'setdefault':
            return PyFunc(lambda interp, k, d=None: v.setdefault(k, d), 'dict.setdefault')
    if isinstance(v, slice):
        return {'start': v.start, 'stop': v.stop, 'step': v.step}[name]
    if isinstance(v, ExcVal):
        if name == 'args':
            return v.args
    raise Unsupported(f'attribute {name!r} of {v!r}')


# ------------------------------------------------------------------------------------------ scalars
def _floor_div(interp, a, b):
    cb = concrete(b)
    if cb is not None and cb == 0:
        interp.raise_('ZeroDivisionError')
    if concrete(a) is not None and cb is not None:
        return concrete(a) // cb
    if is_intlike(a) and is_intlike(b):
        za, zb = to_z3(a), to_z3(b)
        if cb is None:
            if not interp.run.branch(zb != 0):
                interp.raise_('ZeroDivisionError')
            # python floors; z3's div rounds so that the remainder is non-negative
            return z3.If(zb > 0, za / zb, (-za) / (-zb))
        return za / zb if cb > 0 else (-za) / (-zb)
    raise Unsupported('floor division of non-integers')


def _mod(interp, a, b):
    cb = concrete(b)
    if cb is not None and cb == 0:
        interp.raise_('ZeroDivisionError')
    if concrete(a) is not None and cb is not None:
        return concrete(a) % cb
    if is_intlike(a) and is_intlike(b):
        za, zb = to_z3(a), to_z3(b)
        if cb is None:
            if not interp.run.branch(zb != 0):
                interp.raise_('ZeroDivisionError')
            return z3.If(zb > 0, za % zb, -((-za) % (-zb)))
        return za % zb if cb > 0 else -((-za) % (-zb))
    raise Unsupported('modulo of non-integers')


class UnionV(Value):
    """`X | Y` on classes / types (types.UnionType): only usable as an annotation or in isinstance"""

    def __init__(self, members):
        self.members = tuple(members)

    def py_binop(self, interp, op, other, refl):
        if op == 'BitOr' and _is_typeish(other):
            mine, theirs = self.members, (other.members if isinstance(other, UnionV) else (other,))
            return UnionV(theirs + mine if refl else mine + theirs)
        return NOT_IMPLEMENTED


def _is_typeish(v):
    return v is None or isinstance(v, (ClassRef, Ext, UnionV)) or (
        isinstance(v, PyFunc) and v.name in ('int', 'float', 'bool', 'str', 'tuple', 'list', 'dict', 'set', 'type',
                                             'slice', 'bytes'))


def scalar_binop(interp, op, a, b):
    if op == 'BitOr' and _is_typeish(a) and _is_typeish(b) and not (a is None and b is None):
        return UnionV((a,) + ((b,) if not isinstance(b, UnionV) else b.members))
    # sequences
    if op == 'Add' and (isinstance(a, (tuple, str, SSeq)) or isinstance(b, (tuple, str, SSeq))):
        if isinstance(a, tuple) and isinstance(b, tuple):
            return a + b
        if isinstance(a, str) and isinstance(b, str):
            return a + b
        if isinstance(a, OpaqueStr) or isinstance(b, OpaqueStr):
            return OpaqueStr()
        sa, sb = as_seq_or_none(interp, a), as_seq_or_none(interp, b)
        if sa is None or sb is None:
            interp.raise_('TypeError', 'can only concatenate sequences')
        if sa.kind != sb.kind:
            interp.raise_('TypeError', 'can only concatenate sequences of the same type')
        return sa.concat(sb)
    if op == 'Mult' and (isinstance(a, (tuple, SSeq, str)) or isinstance(b, (tuple, SSeq, str))):
        s, n = (a, b) if isinstance(a, (tuple, SSeq, str)) else (b, a)
        if not is_intlike(n):
            interp.raise_('TypeError')
        if isinstance(s, (tuple, str)) and concrete(n) is not None:
            return s * concrete(n)
        return SSeq.lift(s).repeat(n)
    if isinstance(a, SetV) or isinstance(b, SetV):
        raise Unsupported('set operator with a non-set')
    if a is None or b is None:
        interp.raise_('TypeError', f'unsupported operand None for {op}')
    if isinstance(a, bool):
        a = int(a)
    if isinstance(b, bool):
        b = int(b)
    if not (is_numlike(a) and is_numlike(b)):
        if is_sym_bool(a) or is_sym_bool(b):
            if op == 'BitAnd':
                return z_and(a, b)
            if op == 'BitOr':
                return z_or(a, b)
        interp.raise_('TypeError', f'unsupported operands for {op}: {a!r}, {b!r}')
    if op == 'Add':
        return a + b
    if op == 'Sub':
        return a - b
    if op == 'Mult':
        return a * b
    if op == 'Div':
        cb = concrete(b)
        if cb is not None:
            if cb == 0:
                interp.raise_('ZeroDivisionError')
            if concrete(a) is not None:
                return Fraction(concrete(a)) / Fraction(cb)
            return to_real(a) / to_real(b)
        if not interp.run.branch(to_z3(b) != 0):
            interp.raise_('ZeroDivisionError')
        return to_real(a) / to_real(b)
    if op == 'FloorDiv':
        return _floor_div(interp, a, b)
    if op == 'Mod':
        return _mod(interp, a, b)
    if op == 'Pow':
        ca, cb = concrete(a), concrete(b)
        if ca is not None and cb is not None:
            return ca ** cb
        if cb is not None and isinstance(cb, int) and 0 <= cb <= 4:
            r = 1
            for _ in range(cb):
                r = r * a
            return r
        if interp.theory is not None:
            r = interp.theory.power(interp, a, b)
            if r is not None:
                return r
        raise Unsupported('symbolic power')
    raise Unsupported(f'binary operator {op}')


def scalar_compare(interp, op, a, b):
    if isinstance(a, SetLen) or isinstance(b, SetLen):
        raise Unsupported('SetLen compare')
    if isinstance(a, bool):
        a = int(a)
    if isinstance(b, bool):
        b = int(b)
    if not (is_numlike(a) and is_numlike(b)):
        if isinstance(a, tuple) and isinstance(b, tuple) and all(concrete(x) is not None for x in a + b):
            return {'Lt': a < b, 'LtE': a <= b, 'Gt': a > b, 'GtE': a >= b}[op]
        interp.raise_('TypeError', f'ordering comparison of {a!r} and {b!r}')
    if is_z3(a) or is_z3(b):
        za, zb = to_z3(a), to_z3(b)
        if za.sort() != zb.sort():
            za, zb = to_real(za), to_real(zb)
        r = {'Lt': za < zb, 'LtE': za <= zb, 'Gt': za > zb, 'GtE': za >= zb}[op]
        c = concrete(r)
        return r if c is None else c
    return {'Lt': a < b, 'LtE': a <= b, 'Gt': a > b, 'GtE': a >= b}[op]


# ------------------------------------------------------------------------------------------ builtins
def _len(interp, v):
    if isinstance(v, (tuple, list, str, dict, set, range)):
        return len(v)
    if isinstance(v, PyList):
        return v.length()
    if isinstance(v, SSeq):
        return v.length
    if isinstance(v, SetV):
        if v.items is not None and all(concrete(x) is not None for x in v.items):
            return len(v.items)
        return SetLen(v)
    if isinstance(v, GenV):
        return as_seq(interp, v).length
    if isinstance(v, Obj):
        return interp.call_method(v, '__len__', [], {})
    if hasattr(v, 'py_len'):
        return v.py_len(interp)
    if is_z3(v) and interp.theory is not None:
        r = interp.theory.sort_len(interp, v)
        if r is not None:
            return r
    interp.raise_('TypeError', 'object has no len()')


def _isinstance(interp, v, c):
    if isinstance(c, tuple):
        return z_or(*[_isinstance(interp, v, x) for x in c])
    if isinstance(c, UnionV):
        return z_or(*[(v is None) if x is None else _isinstance(interp, v, x) for x in c.members])
    if interp.theory is not None:
        r = interp.theory.isinstance_(interp, v, c)
        if r is not None:
            return r
    if isinstance(c, ClassRef):
        if isinstance(v, Obj):
            return c.info in v.cls.mro
        return False
    if isinstance(c, PyFunc):
        n = c.name
        if n == 'int':
            return is_intlike(v) or isinstance(v, bool)
        if n == 'tuple':
            return isinstance(v, tuple) or (isinstance(v, SSeq) and v.kind == 'tuple')
        if n == 'list':
            return isinstance(v, PyList) or (isinstance(v, SSeq) and v.kind == 'list')
        if n == 'str':
            return isinstance(v, (str, OpaqueStr)) or (isinstance(v, SSeq) and v.kind == 'str')
        if n == 'bool':
            return is_boollike(v)
        if n == 'float':
            return isinstance(v, (float, Fraction)) or (isinstance(v, z3.ArithRef) and v.is_real())
        if n == 'slice':
            return isinstance(v, slice)
        if n == 'dict':
            return isinstance(v, dict)
        if n == 'bytes':
            return False
        if n == 'type':
            return isinstance(v, ClassRef)
    if isinstance(c, Ext):
        if c.path in ('types.EllipsisType',):
            return v is Ellipsis
        if isinstance(v, Obj):
            return v.cls.has_ext_base(c.path) or any(b.rsplit('.', 1)[-1] == c.path.rsplit('.', 1)[-1]
                                                     for b in v.cls.ext_bases)
        if isinstance(v, (int, float, Fraction, str, tuple, bool, PyList, SSeq, dict, slice)) or v is None or \
                v is Ellipsis or isinstance(v, (z3.ArithRef, z3.BoolRef)):
            return False
    raise Unsupported(f'isinstance({v!r}, {c!r})')


def _issubclass(interp, a, b):
    if isinstance(b, tuple):
        return any(_issubclass(interp, a, x) for x in b)
    if isinstance(a, ClassRef) and isinstance(b, ClassRef):
        return b.info in a.info.mro
    if isinstance(a, ClassRef) and isinstance(b, Ext):
        return a.info.has_ext_base(b.path) or any(x.rsplit('.', 1)[-1] == b.path.rsplit('.', 1)[-1]
                                                  for x in a.info.ext_bases)
    if isinstance(a, Ext) and isinstance(b, ClassRef):
        return False
    if isinstance(a, Ext) and isinstance(b, Ext):
        if a.path == b.path:
            return True
        if interp.theory is not None:
            r = interp.theory.ext_issubclass(interp, a, b)
            if r is not None:
                return r
    raise Unsupported(f'issubclass({a!r}, {b!r})')


def _tuple(interp, v=()):
    if isinstance(v, tuple):
        return v
    if isinstance(v, SSeq):
        if v.is_concrete_len():
            return tuple(v.py_items())
        s = SSeq(v.length, v.get, 'tuple')
        return s
    if isinstance(v, PyList) and v.seq is not None:
        return _tuple(interp, v.seq)
    if isinstance(v, GenV) and isinstance(v.r, SSeq):
        return _tuple(interp, v.r)
    if isinstance(v, RangeV):
        return _tuple(interp, v.as_sseq(interp))
    return tuple(interp.iter_concrete(v))


def _list(interp, v=()):
    if isinstance(v, SSeq):
        if v.is_concrete_len():
            return PyList(v.py_items())
        return PyList(None, seq=SSeq(v.length, v.get, 'list'))
    if isinstance(v, PyList) and v.seq is not None:
        return PyList(None, seq=v.seq)
    if isinstance(v, GenV) and isinstance(v.r, SSeq):
        return _list(interp, v.r)
    if isinstance(v, str):
        return PyList([ord(c) for c in v]) if interp.theory is not None and interp.theory.chars_as_codes else PyList(list(v))
    return PyList(interp.iter_concrete(v))


class RangeV(Value):
    def __init__(self, lo, hi):
        self.lo, self.hi = lo, hi

    def as_sseq(self, interp):
        d = to_z3(self.hi) - to_z3(self.lo)
        n = z3.simplify(z3.If(d < 0, 0, d))
        c = concrete(n)
        lo = self.lo
        return SSeq(c if c is not None else n, lambda k: lo + k, 'tuple')

    def py_len(self, interp):
        return self.as_sseq(interp).length

    def py_iter(self, interp, expect=None):
        return self.as_sseq(interp).py_items()


def _range(interp, *a):
    if all(concrete(x) is not None for x in a):
        return range(*[concrete(x) for x in a])
    if len(a) == 1:
        return RangeV(0, a[0])
    if len(a) == 2:
        return RangeV(a[0], a[1])
    raise Unsupported('symbolic range with step')


def _enumerate(interp, v, start=0):
    seq = as_seq_or_none(interp, v)
    if seq is not None and not seq.is_concrete_len():
        return SSeq(seq.length, lambda k: (start + k, seq.get(k)), 'tuple')
    return [(start + i, x) for i, x in enumerate(interp.iter_concrete(v))]


def _map(interp, f, *vs):
    """map(f, xs[, ys...]): f applied position by position (a sequence: consumed once by the callers modelled here)"""
    if len(vs) == 1:
        seq = as_seq_or_none(interp, vs[0])
        if seq is not None and not seq.is_concrete_len():
            return seq.map(lambda x: interp.call(f, [x], {}), 'tuple')
        return [interp.call(f, [x], {}) for x in interp.iter_concrete(vs[0])]
    rows = _zip(interp, *vs)
    if isinstance(rows, SSeq):
        return rows.map(lambda t: interp.call(f, list(t), {}), 'tuple')
    return [interp.call(f, list(t), {}) for t in rows]


def _zip(interp, *vs):
    seqs = [as_seq_or_none(interp, v) for v in vs]
    if all(s is not None for s in seqs) and any(not s.is_concrete_len() for s in seqs):
        n = seqs[0].length
        for s in seqs[1:]:
            n = z_ite(to_z3(s.length) < to_z3(n), s.length, n)
        return SSeq(n, lambda k: tuple(s.get(k) for s in seqs), 'tuple')
    return list(zip(*[interp.iter_concrete(v) for v in vs]))


def _reversed(interp, v):
    seq = as_seq_or_none(interp, v)
    if seq is not None and not seq.is_concrete_len():
        return seq.reversed_slice(None, None)
    return list(reversed(interp.iter_concrete(v)))


def _quant(interp, v, is_all):
    seq = None
    if isinstance(v, GenV) and isinstance(v.r, SSeq):
        seq = v.r
    elif isinstance(v, (SSeq, PyList)):
        seq = as_seq(interp, v)
    if seq is not None and not seq.is_concrete_len():
        if is_all:
            return seq.forall(lambda k, e: interp.truth_term(e))
        return seq.exists(lambda k, e: interp.truth_term(e))
    items = interp.iter_concrete(v)
    ts = [interp.truth_term(x) for x in items]
    return z_and(*ts) if is_all else z_or(*ts)


def _sum(interp, v, start=0):
    seq = as_seq_or_none(interp, v)
    if seq is not None and not seq.is_concrete_len():
        r = interp.theory.seq_sum(interp, seq, start) if interp.theory is not None else None
        if r is None:
            raise Unsupported('sum over a symbolic-length sequence')
        return r
    items = interp.iter_concrete(v)
    acc = start
    for x in items:
        if isinstance(x, bool):
            x = int(x)
        elif is_sym_bool(x):
            x = z3.If(x, 1, 0)
        acc = interp.binop('Add', acc, x)
    return acc


def _minmax(interp, is_min, *a, **kw):
    if len(a) == 1:
        seq = as_seq_or_none(interp, a[0])
        if seq is not None and not seq.is_concrete_len():
            if not interp.run.branch(to_z3(seq.length) > 0):
                interp.raise_('ValueError', 'min/max of empty sequence')
            m = fresh_int('min' if is_min else 'max')
            interp.run.assume(z_and(seq.exists(lambda k, e: z_eq(e, m)),
                                    seq.forall(lambda k, e: (m <= to_z3(e)) if is_min else (m >= to_z3(e)))))
            return m
        items = interp.iter_concrete(a[0])
        if not items:
            interp.raise_('ValueError', 'min/max of empty sequence')
    else:
        items = list(a)
    acc = items[0]
    for x in items[1:]:
        c = scalar_compare(interp, 'Lt' if is_min else 'Gt', x, acc)
        acc = z_ite(c, x, acc)
    return acc


def _abs(interp, v):
    if isinstance(v, Obj):
        return interp.call_method(v, '__abs__', [], {})
    if hasattr(v, 'py_unop'):
        return v.py_unop(interp, 'Abs')
    if concrete(v) is not None:
        return abs(concrete(v))
    return z3.If(to_z3(v) >= 0, to_z3(v), -to_z3(v))


def _int(interp, v=0):
    c = concrete(v)
    if c is not None and not isinstance(c, str):
        return int(c)
    if is_sym_int(v):
        return v
    if isinstance(v, z3.ArithRef):
        # truncation toward zero
        return z3.If(v >= 0, z3.ToInt(v), -z3.ToInt(-v))
    if hasattr(v, 'py_int'):
        return v.py_int(interp)
    raise Unsupported(f'int({v!r})')


def _getattr(interp, o, name, *default):
    if not isinstance(name, str):
        raise Unsupported('getattr with a symbolic name')
    return interp.getattr(o, name)


def _type(interp, v):
    if isinstance(v, Obj):
        return ClassRef(v.cls)
    if interp.theory is not None:
        r = interp.theory.type_of(interp, v)
        if r is not None:
            return r
    raise Unsupported(f'type({v!r})')


def _sorted(interp, v):
    seq = as_seq_or_none(interp, v)
    if seq is not None and not seq.is_concrete_len():
        # sorted(s) for a sequence of symbolic length: a non-decreasing rearrangement of s (bijection of positions)
        n = to_z3(seq.length)
        R = SSeq.fresh('sorted', z3.IntSort(), None, 'list', seq.length)
        perm = z3.Function(fresh_name_('perm'), z3.IntSort(), z3.IntSort())
        inv = z3.Function(fresh_name_('pinv'), z3.IntSort(), z3.IntSort())
        i, j = fresh_int('i'), fresh_int('j')
        interp.run.assume(z3.And(
            z3.ForAll([i, j], z3.Implies(z3.And(0 <= i, i <= j, j < n), R.arr[i] <= R.arr[j])),
            z3.ForAll([i], z3.Implies(z3.And(0 <= i, i < n), z3.And(0 <= perm(i), perm(i) < n, inv(perm(i)) == i,
                                                                   R.arr[i] == to_z3(seq.get(perm(i))))),
                      patterns=[perm(i)]),
            z3.ForAll([j], z3.Implies(z3.And(0 <= j, j < n), z3.And(0 <= inv(j), inv(j) < n, perm(inv(j)) == j)),
                      patterns=[inv(j)])))
        return PyList(None, seq=R)
    items = interp.iter_concrete(v)
    if all(isinstance(x, str) for x in items):
        return PyList(sorted(items))
    if all(concrete(x) is not None for x in items):
        return PyList(sorted(concrete(x) for x in items))
    raise Unsupported('sorted() of symbolic items')


def _set(interp, v=()):
    return make_set(interp, v)


def _prod(interp, v, start=1):
    seq = as_seq_or_none(interp, v)
    if seq is not None and not seq.is_concrete_len():
        if interp.theory is not None:
            r = interp.theory.seq_prod(interp, seq)
            if r is not None:
                return r
        raise Unsupported('prod of a symbolic-length sequence')
    acc = start
    for x in interp.iter_concrete(v):
        acc = interp.binop('Mult', acc, x)
    return acc


def _str(interp, v=''):
    if isinstance(v, str):
        return v
    return OpaqueStr()


def _callable_type(name):
    return PyFunc(lambda interp, *a, **k: (_ for _ in ()).throw(Unsupported(f'call of type {name}')), name)


BUILTINS = {
    'len': PyFunc(_len, 'len'),
    'isinstance': PyFunc(_isinstance, 'isinstance'),
    'issubclass': PyFunc(_issubclass, 'issubclass'),
    'tuple': PyFunc(_tuple, 'tuple'),
    'list': PyFunc(_list, 'list'),
    'range': PyFunc(_range, 'range'),
    'enumerate': PyFunc(_enumerate, 'enumerate'),
    'zip': PyFunc(_zip, 'zip'),
    'map': PyFunc(_map, 'map'),
    '__vf_prod__': PyFunc(lambda interp, v: _prod(interp, v, 1), 'math.prod'),      # used by the accumulation-loop rule
    'reversed': PyFunc(_reversed, 'reversed'),
    'any': PyFunc(lambda interp, v: _quant(interp, v, False), 'any'),
    'all': PyFunc(lambda interp, v: _quant(interp, v, True), 'all'),
    'sum': PyFunc(_sum, 'sum'),
    'min': PyFunc(lambda interp, *a, **k: _minmax(interp, True, *a, **k), 'min'),
    'max': PyFunc(lambda interp, *a, **k: _minmax(interp, False, *a, **k), 'max'),
    'abs': PyFunc(_abs, 'abs'),
    'int': PyFunc(_int, 'int'),
    'getattr': PyFunc(_getattr, 'getattr'),
    'type': PyFunc(_type, 'type'),
    'sorted': PyFunc(_sorted, 'sorted'),
    'set': PyFunc(_set, 'set'),
    'str': PyFunc(_str, 'str'),
    'bool': PyFunc(lambda interp, v=False: interp.truth_term(v), 'bool'),
    'float': PyFunc(lambda interp, v=0: to_real(v) if is_z3(v) else Fraction(v), 'float'),
    'slice': PyFunc(lambda interp, *a: slice(*a), 'slice'),
    'dict': PyFunc(lambda interp, *a, **k: dict(*a, **k), 'dict'),
    'print': PyFunc(lambda interp, *a, **k: None, 'print'),
    'NotImplemented': NOT_IMPLEMENTED,
    'Ellipsis': Ellipsis,
    'object': Ext('builtins.object'),
    'iter': PyFunc(lambda interp, v: v, 'iter'),
    'hash': PyFunc(lambda interp, v: interp.theory.hash_(interp, v), 'hash'),
    'staticmethod': PyFunc(lambda interp, f: f, 'staticmethod'),
    'classmethod': PyFunc(lambda interp, f: f, 'classmethod'),
    'property': PyFunc(lambda interp, f: f, 'property'),
    'bytes': PyFunc(lambda interp, *a: (_ for _ in ()).throw(Unsupported('bytes()')), 'bytes'),
    'complex': _callable_type('complex'),
}

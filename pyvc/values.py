"""Value domain of the symbolic executor.

Scalars: Python ``int/bool/float/str/None/Ellipsis`` when concrete, raw z3 expressions of sort Int /
Real / Bool when symbolic.  Terms of uninterpreted sorts (operators of unknown class, structures,
leaves, ...) are raw z3 constants too; what their attributes mean is said by the active theory.
Everything else is one of the wrapper classes below.
"""
from __future__ import annotations

import itertools
from fractions import Fraction

import z3


class Unsupported(Exception):
    """construct outside the accepted subset: every obligation depending on it is UNDECIDED"""


class PathEnd(Exception):
    """the current path stops here (infeasible, or end of a loop-body iteration under an invariant)"""


class Value:
    pass


class NotImplementedV(Value):
    def __repr__(self):
        return 'NotImplemented'


NOT_IMPLEMENTED = NotImplementedV()


class Ext(Value):
    """reference to something outside /repo/src/furax (module, function, class, constant)"""

    def __init__(self, path: str):
        self.path = path

    def __repr__(self):
        return f'<ext {self.path}>'

    def __eq__(self, o):
        return isinstance(o, Ext) and o.path == self.path

    def __hash__(self):
        return hash(('ext', self.path))


class ClassRef(Value):
    def __init__(self, info):
        self.info = info

    def __repr__(self):
        return f'<classref {self.info.name}>'

    def __eq__(self, o):
        return isinstance(o, ClassRef) and o.info == self.info

    def __hash__(self):
        return hash(('cls', self.info.fullname))


class FuncRef(Value):
    """a def/lambda together with its defining frame (closure)"""

    def __init__(self, info, frame=None, name=None):
        self.info = info
        self.frame = frame
        self.name = name or info.qualname

    def __repr__(self):
        return f'<func {self.info.fullname}>'


class BoundMethod(Value):
    def __init__(self, func, self_val, defcls=None):
        self.func = func          # FuncRef | PyFunc
        self.self_val = self_val
        self.defcls = defcls

    def __repr__(self):
        return f'<bound {self.func!r} of {self.self_val!r}>'


class PyFunc(Value):
    """a callable implemented by the verifier (builtin model or dependency contract)"""

    def __init__(self, fn, name='<pyfunc>'):
        self.fn = fn
        self.name = name

    def __repr__(self):
        return f'<pyfunc {self.name}>'


class Partial(Value):
    def __init__(self, func, args, kwargs):
        self.func, self.args, self.kwargs = func, list(args), dict(kwargs)


class Obj(Value):
    """instance of a class defined under /repo/src/furax, concrete class, fields possibly symbolic"""
    _ids = itertools.count(1)
    _live: list = []          # instances created on the current path (reset by run.explore)

    def __init__(self, cls, tag=None):
        Obj._live.append(self)
        self.cls = cls
        self.fields: dict = {}
        self.id = next(Obj._ids)
        self.tag = tag
        self.frozen_after_init = False

    def __repr__(self):
        return f'<{self.cls.name}#{self.tag or self.id}>'


class ExcVal(Value):
    """an exception instance: class name (builtin) or ClassInfo (repo), constructor arguments dropped"""

    def __init__(self, cls, args=()):
        self.cls = cls
        self.args = tuple(args)

    @property
    def name(self):
        return self.cls if isinstance(self.cls, str) else self.cls.name

    def __repr__(self):
        return f'<exc {self.name}>'


class PyRaise(Exception):
    def __init__(self, exc: ExcVal, where=None):
        super().__init__(exc.name)
        self.exc = exc
        self.where = where


class Cell:
    """mutable list value with Python aliasing semantics (symbolic length allowed through .seq)"""


# ----------------------------------------------------------------------------------- z3 helpers
_fresh = itertools.count()


def reset_fresh():
    global _fresh
    _fresh = itertools.count()


def fresh_name(base: str) -> str:
    return f'{base}!{next(_fresh)}'


def fresh_int(base='i'):
    return z3.Int(fresh_name(base))


def fresh_real(base='r'):
    return z3.Real(fresh_name(base))


def fresh_bool(base='b'):
    return z3.Bool(fresh_name(base))


def fresh_const(base, sort):
    return z3.Const(fresh_name(base), sort)


OBJ_TO_TERM = None    # set by a theory that can turn instances of repo classes into terms (alg facet)
ORACLE = None     # set per path by run.explore: callable(cond) -> True | False | None (what the path condition implies)


def known(cond):
    if isinstance(cond, bool):
        return cond
    c = concrete(cond) if isinstance(cond, z3.ExprRef) else None
    if c is not None:
        return bool(c)
    if ORACLE is None:
        return None
    return ORACLE(cond)


def is_z3(v) -> bool:
    return isinstance(v, z3.ExprRef)


def is_sym_int(v) -> bool:
    return isinstance(v, z3.ArithRef) and v.is_int()


def is_sym_real(v) -> bool:
    return isinstance(v, z3.ArithRef) and v.is_real()


def is_sym_bool(v) -> bool:
    return isinstance(v, z3.BoolRef)


def is_intlike(v) -> bool:
    return (isinstance(v, int) and not isinstance(v, bool)) or is_sym_int(v)


def is_numlike(v) -> bool:
    return isinstance(v, (int, float, Fraction)) and not isinstance(v, bool) or isinstance(v, z3.ArithRef)


def is_boollike(v) -> bool:
    return isinstance(v, bool) or is_sym_bool(v)


def concrete(v):
    """python value of a z3 numeral / boolean constant, else None"""
    if isinstance(v, (bool, int, float, Fraction, str)) or v is None:
        return v
    if is_z3(v):
        v = z3.simplify(v)
        if z3.is_int_value(v):
            return v.as_long()
        if z3.is_rational_value(v):
            return Fraction(v.numerator_as_long(), v.denominator_as_long())
        if z3.is_true(v):
            return True
        if z3.is_false(v):
            return False
    return None


def to_z3(v):
    if is_z3(v):
        return v
    if isinstance(v, bool):
        return z3.BoolVal(v)
    if isinstance(v, int):
        return z3.IntVal(v)
    if isinstance(v, Fraction):
        return z3.RealVal(v)
    if isinstance(v, float):
        return z3.RealVal(Fraction(v))
    raise Unsupported(f'cannot turn {v!r} into a term')


def to_real(v):
    v = to_z3(v)
    if isinstance(v, z3.ArithRef) and v.is_int():
        return z3.ToReal(v)
    return v


def zbool(v):
    if isinstance(v, bool):
        return z3.BoolVal(v)
    if is_sym_bool(v):
        return v
    raise Unsupported(f'not a boolean term: {v!r}')


def z_and(*xs):
    xs = [x for x in xs if x is not True]
    if any(x is False for x in xs):
        return False
    if not xs:
        return True
    return z3.And(*[zbool(x) for x in xs]) if len(xs) > 1 else xs[0]


def z_or(*xs):
    xs = [x for x in xs if x is not False]
    if any(x is True for x in xs):
        return True
    if not xs:
        return False
    return z3.Or(*[zbool(x) for x in xs]) if len(xs) > 1 else xs[0]


def z_not(x):
    if isinstance(x, bool):
        return not x
    return z3.Not(x)


def z_implies(a, b):
    if a is True:
        return b
    if a is False or b is True:
        return True
    return z3.Implies(zbool(a), zbool(b))


def z_ite(c, a, b):
    """value-level if-then-else on scalars"""
    if isinstance(c, bool):
        return a if c else b
    if a is b:
        return a
    if isinstance(a, (bool, int, float, Fraction)) and isinstance(b, (bool, int, float, Fraction)) and a == b \
            and type(a) is type(b):
        return a
    if isinstance(a, SSeq) or isinstance(b, SSeq):
        a, b = SSeq.lift(a), SSeq.lift(b)
        return SSeq(z_ite(c, a.length, b.length), lambda k: z_ite(c, a.get(k), b.get(k)), a.kind)
    if OBJ_TO_TERM is not None and (isinstance(a, Obj) or isinstance(b, Obj)):
        a = OBJ_TO_TERM(a) if isinstance(a, Obj) else a
        b = OBJ_TO_TERM(b) if isinstance(b, Obj) else b
    if hasattr(a, 'ite_merge'):
        return a.ite_merge(c, b, True)
    if hasattr(b, 'ite_merge'):
        return b.ite_merge(c, a, False)
    za, zb = to_z3(a), to_z3(b)
    if za.sort() != zb.sort():
        if isinstance(za, z3.ArithRef) and isinstance(zb, z3.ArithRef):
            za, zb = to_real(za), to_real(zb)
        else:
            raise Unsupported(f'ite of different sorts {za.sort()} / {zb.sort()}')
    return z3.If(c, za, zb)


def z_eq(a, b):
    """value-level equality as a Bool term / python bool (scalars and sequences)"""
    if a is b and not is_z3(a):
        return True
    if isinstance(a, SSeq) or isinstance(b, SSeq):
        if not isinstance(a, (SSeq, tuple, list, str)) or not isinstance(b, (SSeq, tuple, list, str)):
            return False
        return SSeq.lift(a).eq(SSeq.lift(b))
    if isinstance(a, (tuple, list)) and isinstance(b, (tuple, list)):
        if type(a) is not type(b) or len(a) != len(b):
            return False
        return z_and(*[z_eq(x, y) for x, y in zip(a, b)])
    if hasattr(a, 'sym_eq'):
        return a.sym_eq(b)
    if hasattr(b, 'sym_eq'):
        return b.sym_eq(a)
    if is_z3(a) or is_z3(b):
        if (a is None) or (b is None) or isinstance(a, (str, Value)) or isinstance(b, (str, Value)):
            return False
        if isinstance(a, (tuple, list, dict, set, slice)) or isinstance(b, (tuple, list, dict, set, slice)):
            return False
        za, zb = to_z3(a), to_z3(b)
        if za.sort() != zb.sort():
            if isinstance(za, z3.ArithRef) and isinstance(zb, z3.ArithRef):
                za, zb = to_real(za), to_real(zb)
            else:
                return False
        r = z3.simplify(za == zb)
        c = concrete(r)
        return r if c is None else c
    if isinstance(a, Value) or isinstance(b, Value):
        return a is b if not (hasattr(a, '__eq__') and type(a) is type(b)) else a == b
    try:
        return a == b
    except Exception:
        return False


class SSeq(Value):
    """immutable sequence (tuple / list snapshot / str) of possibly symbolic length.

    ``get(k)`` builds the term of element ``k`` (k: int or z3 Int).  Derived sequences (slices,
    concatenations, maps) are closures over their sources, so no defining axiom is ever needed; only
    base sequences are z3 arrays.
    """

    def __init__(self, length, get, kind='tuple'):
        self.length = length
        self.get = get
        self.kind = kind

    def __repr__(self):
        return f'<sseq {self.kind} len={self.length}>'

    @staticmethod
    def fresh(base, elem_sort=None, wrap=None, kind='tuple', length=None):
        arr = z3.Const(fresh_name(base + '_a'), z3.ArraySort(z3.IntSort(), elem_sort if elem_sort is not None else z3.IntSort()))
        ln = z3.Int(fresh_name(base + '_n')) if length is None else length
        w = wrap or (lambda e: e)
        s = SSeq(ln, lambda k: w(arr[to_z3(k)]), kind)
        s.arr = arr
        s.segs = [('src', arr, 0, ln)]
        return s

    @staticmethod
    def lift(v, kind=None):
        if isinstance(v, SSeq):
            return v
        if isinstance(v, str):
            items = [ord(c) for c in v]
            kind = 'str'
        elif isinstance(v, (tuple, list)):
            items = list(v)
            kind = kind or ('tuple' if isinstance(v, tuple) else 'list')
        elif isinstance(v, range):
            items = list(v)
            kind = 'tuple'
        else:
            raise Unsupported(f'not a sequence: {v!r}')

        def get(k, items=items):
            ck = concrete(k)
            if ck is not None:
                if 0 <= ck < len(items):
                    return items[ck]
                raise Unsupported('concrete index out of range in lifted sequence')
            if not items:
                return 0
            out = items[-1]
            for j in range(len(items) - 2, -1, -1):
                out = z_ite(k == j, items[j], out)
            return out

        s = SSeq(len(items), get, kind)
        s.items = items
        s.segs = [('item', x) for x in items]
        return s

    def is_concrete_len(self):
        return concrete(self.length) is not None

    def py_items(self):
        n = concrete(self.length)
        if n is None:
            raise Unsupported('sequence of symbolic length used where a concrete one is needed')
        return [self.get(i) for i in range(n)]

    # quantified helpers -----------------------------------------------------------------------
    def forall(self, pred, lo=0, hi=None):
        hi = self.length if hi is None else hi
        base = getattr(self, 'base', None)
        if base is not None and concrete(self.length) is None:
            src, a = base          # quantify in the coordinates of the sequence this one is a slice of
            return src.forall(lambda k, e: pred(k - a, e), a + lo, a + hi)
        n, l0 = concrete(hi), concrete(lo)
        if n is not None and l0 is not None:
            return z_and(*[pred(i, self.get(i)) for i in range(l0, n)])
        k = fresh_int('k')
        body = pred(k, self.get(k))
        if body is True:
            return True
        return z3.ForAll([k], z3.Implies(z3.And(to_z3(lo) <= k, k < to_z3(hi)), zbool(body)))

    def exists(self, pred, lo=0, hi=None):
        hi = self.length if hi is None else hi
        base = getattr(self, 'base', None)
        if base is not None and concrete(self.length) is None:
            src, a = base
            return src.exists(lambda k, e: pred(k - a, e), a + lo, a + hi)
        n, l0 = concrete(hi), concrete(lo)
        if n is not None and l0 is not None:
            return z_or(*[pred(i, self.get(i)) for i in range(l0, n)])
        k = fresh_int('k')
        body = pred(k, self.get(k))
        if body is False:
            return False
        return z3.Exists([k], z3.And(to_z3(lo) <= k, k < to_z3(hi), zbool(body)))

    def eq(self, other: 'SSeq'):
        if self.kind != other.kind and not {self.kind, other.kind} <= {'tuple', 'range'}:
            return False
        n, m = concrete(self.length), concrete(other.length)
        if n is not None and m is not None and n != m:
            return False
        le = z_eq(self.length, other.length)
        return z_and(le, self.forall(lambda k, e: z_eq(e, other.get(k))))

    # construction -----------------------------------------------------------------------------
    def concat(self, other: 'SSeq') -> 'SSeq':
        a, b = self, other
        n = concrete(a.length)
        m = concrete(b.length)
        if n is not None and m is not None and hasattr(a, 'items') and hasattr(b, 'items'):
            return SSeq.lift(list(a.items) + list(b.items), a.kind)

        def get(k):
            ck = concrete(k)
            if ck is not None and n is not None:
                return a.get(ck) if ck < n else b.get(ck - n)
            return z_ite(to_z3(k) < to_z3(a.length), a.get(k), b.get(k - a.length))

        out = SSeq(a.length + b.length, get, a.kind)
        sa, sb = getattr(a, 'segs', None), getattr(b, 'segs', None)
        if sa is not None and sb is not None:
            out.segs = list(sa) + list(sb)
        return out

    def slice(self, lo, hi):
        """s[lo:hi] with Python clamping; lo/hi may be None, negative or symbolic"""
        ln = self.length

        def norm(i, default):
            if i is None:
                return default
            ci, cl = concrete(i), concrete(ln)
            if ci is not None and cl is not None:
                j = ci + cl if ci < 0 else ci
                return max(0, min(cl, j))
            zi, zl = to_z3(i), to_z3(ln)
            neg = known(zi < 0)
            if neg is True:
                j = zi + zl
            elif neg is False:
                j = zi
            else:
                j = z3.If(zi < 0, zi + zl, zi)
            j = z3.simplify(j)
            low = known(j < 0)
            high = known(j > zl)
            if low is False and high is False:
                c = concrete(j)
                return c if c is not None else j
            if low is True:
                return 0
            if high is True:
                return ln
            inner = j if high is False else z3.If(j > zl, zl, j)
            return inner if low is False else z3.If(j < 0, 0, inner)

        a, b = norm(lo, 0), norm(hi, ln)
        ca, cb = concrete(a), concrete(b)
        if ca is not None and cb is not None:
            length = max(0, cb - ca)
        else:
            d = z3.simplify(to_z3(b) - to_z3(a))
            kn = known(d < 0)
            length = d if kn is False else (0 if kn is True else z3.If(d < 0, 0, d))
            length = z3.simplify(to_z3(length))
            cl = concrete(length)
            if cl is not None:
                length = cl
        if ca == 0:
            out = SSeq(length, self.get, self.kind)
        else:
            out = SSeq(length, lambda k: self.get(k + a), self.kind)
            out.base = (self, a)
        if hasattr(self, 'items') and ca is not None and cb is not None:
            out = SSeq.lift(self.items[ca:cb], self.kind)
        else:
            segs = getattr(self, 'segs', None)
            if segs is not None and len(segs) == 1 and segs[0][0] == 'src':
                _, arr, slo, _n = segs[0]
                out.segs = [('src', arr, slo + a, length)]
        return out

    def reversed_slice(self, lo, hi):
        """s[lo:hi:-1]"""
        ln = self.length
        cl = concrete(ln)
        if cl is not None and (lo is None or concrete(lo) is not None) and (hi is None or concrete(hi) is not None):
            idx = list(range(cl))[slice(concrete(lo) if lo is not None else None,
                                        concrete(hi) if hi is not None else None, -1)]
            return SSeq.lift([self.get(i) for i in idx], self.kind)
        zl = to_z3(ln)
        # python semantics for step -1: start default len-1, clamp to [-1, len-1]; stop default -1 (before 0)
        if lo is None:
            start = zl - 1
        else:
            zi = to_z3(lo)
            j = z3.If(zi < 0, zi + zl, zi)
            start = z3.If(j < 0, -1, z3.If(j >= zl, zl - 1, j))
        if hi is None:
            stop = z3.IntVal(-1)
        else:
            zi = to_z3(hi)
            j = z3.If(zi < 0, zi + zl, zi)
            stop = z3.If(j < 0, -1, z3.If(j >= zl, zl - 1, j))
        d = start - stop
        length = z3.simplify(z3.If(d < 0, 0, d))
        return SSeq(length, lambda k: self.get(start - to_z3(k)), self.kind)

    def map(self, f, kind=None) -> 'SSeq':
        if hasattr(self, 'items'):
            return SSeq.lift([f(x) for x in self.items], kind or self.kind)
        return SSeq(self.length, lambda k: f(self.get(k)), kind or self.kind)

    def repeat(self, n) -> 'SSeq':
        cl = concrete(self.length)
        cn = concrete(n)
        if cl is not None and cn is not None and hasattr(self, 'items'):
            return SSeq.lift(list(self.items) * max(cn, 0), self.kind)
        if cl == 1:
            e = self.get(0)
            zn = to_z3(n)
            return SSeq(z3.If(zn < 0, 0, zn), lambda k: e, self.kind)
        raise Unsupported('repeat of a symbolic-length sequence')

    def to_array(self, sort=None, unwrap=None):
        """materialise as a z3 array with a defining axiom (pattern on the defined array only)"""
        if hasattr(self, 'arr'):
            return self.arr, []
        sort = sort if sort is not None else z3.IntSort()
        arr = z3.Const(fresh_name('mat_a'), z3.ArraySort(z3.IntSort(), sort))
        if concrete(self.length) == 0:
            self.arr = arr
            return arr, []
        if hasattr(self, 'items'):
            u = unwrap or (lambda x: to_z3(x))
            self.arr = arr
            return arr, [arr[i] == u(x) for i, x in enumerate(self.items)]
        k = fresh_int('k')
        u = unwrap or (lambda x: to_z3(x))
        ax = z3.ForAll([k], arr[k] == u(self.get(k)), patterns=[arr[k]])
        self.arr = arr
        return arr, [ax]

"""Path exploration by re-execution with decision replay, path conditions, and obligations."""
from __future__ import annotations

import time
from dataclasses import dataclass, field

import z3

from . import values
from .values import PathEnd, PyRaise, Unsupported, concrete, reset_fresh, zbool

FEAS_TIMEOUT_MS = int(__import__("os").environ.get("VF_FEAS_MS", "400"))


@dataclass
class Obligation:
    name: str                 # <prop>/<function>/<kind>[#n]
    hyps: list                # z3 Bool terms
    goal: object              # z3 Bool term
    kind: str = 'post'
    exact: bool = True        # False: mentions ghost functions constrained only by lemma instances
    path: tuple = ()
    meta: dict = field(default_factory=dict)
    status: str = 'open'      # proved | refuted | unknown | error
    backend: str = ''
    time_s: float = 0.0
    model: object = None
    note: str = ''


class Run:
    """one execution path"""

    def __init__(self, prefix, axioms=()):
        self.prefix = list(prefix)
        self.decisions: list = []
        self.alternatives: list = []
        self.pc: list = []
        self.axioms = list(axioms)       # background axioms (quantified lemmas), kept out of pc prints
        self.obligations: list[Obligation] = []
        self.events: list = []           # trace of semantic events (calls of contracts, ghost updates)
        self.ghost: dict = {}
        self.nfeas = 0
        self.tfeas = 0.0
        self._solver = None
        self._solver_len = 0
        self._known = {}

    # -------------------------------------------------------------- path condition
    def assume(self, cond):
        if cond is True:
            return
        if cond is False:
            raise PathEnd('assumed False')
        cond = zbool(cond)
        c = concrete(cond)
        if c is True:
            return
        if c is False:
            raise PathEnd('assumed False')
        self.pc.append(cond)

    def add_axiom(self, ax):
        self.axioms.append(ax)

    def feasible(self, cond) -> bool:
        t0 = time.time()
        s = z3.Solver()
        s.set('timeout', FEAS_TIMEOUT_MS)
        s.set('rlimit', 3000000)
        for a in self.axioms:
            s.add(a)
        for p in self.pc:
            s.add(p)
        s.add(cond)
        r = s.check()
        self.nfeas += 1
        self.tfeas += time.time() - t0
        return r != z3.unsat

    def known(self, cond):
        """True / False if the path condition decides cond, else None (short timeout; None when unsure)"""
        key = cond.get_id()
        hit = self._known.get((key, len(self.pc)))
        if hit is not None:
            return hit[0]
        res = None
        s = z3.Solver()
        s.set('timeout', 800)
        s.set('rlimit', 3000000)
        for a in self.axioms:
            s.add(a)
        for p in self.pc:
            s.add(p)
        s.push()
        s.add(z3.Not(cond))
        if s.check() == z3.unsat:
            res = True
        else:
            s.pop()
            s.add(cond)
            if s.check() == z3.unsat:
                res = False
        self._known[(key, len(self.pc))] = (res,)
        return res

    def decide(self, n: int, conds=None) -> int:
        """choose one of n alternatives; on first visit all feasible others are queued"""
        pos = len(self.decisions)
        if pos < len(self.prefix):
            i = self.prefix[pos]
            self.decisions.append(i)
            return i
        feas = []
        for i in range(n):
            if conds is None or conds[i] is True:
                feas.append(i)
            elif conds[i] is False:
                continue
            elif self.feasible(conds[i]):
                feas.append(i)
        if not feas:
            raise PathEnd('no feasible alternative')
        first = feas[0]
        for j in feas[1:]:
            self.alternatives.append(self.decisions + [j])
        self.decisions.append(first)
        return first

    def branch(self, cond) -> bool:
        """truth of a condition; forks when both outcomes are feasible"""
        if isinstance(cond, bool):
            return cond
        cond = zbool(cond)
        c = concrete(cond)
        if c is not None:
            return bool(c)
        i = self.decide(2, [cond, z3.Not(cond)])
        if i == 0:
            self.pc.append(cond)
            return True
        self.pc.append(z3.Not(cond))
        return False

    # -------------------------------------------------------------- obligations
    def oblige(self, name, goal, kind='post', exact=True, extra_hyps=(), meta=None, split=True):
        """record a proof obligation under the current path condition; a top-level conjunction is split"""
        if goal is True:
            goal = z3.BoolVal(True)
        elif goal is False:
            goal = z3.BoolVal(False)
        goal = zbool(goal)
        goals = list(goal.children()) if split and z3.is_and(goal) and goal.num_args() > 1 else [goal]
        out = []
        for i, g in enumerate(goals):
            m = dict(meta or {})
            self._nob = getattr(self, '_nob', 0) + 1
            m.setdefault('ordinal', self._nob)
            ob = Obligation(name=name + (f'.{i + 1}' if len(goals) > 1 else ''),
                            hyps=list(self.axioms) + list(self.pc) + list(extra_hyps), goal=g,
                            kind=kind, exact=exact, path=tuple(self.decisions), meta=m)
            self.obligations.append(ob)
            out.append(ob)
        return out[0] if len(out) == 1 else out


class ReturnLeak(Exception):
    pass


@dataclass
class PathResult:
    decisions: tuple
    pc: list
    axioms: list
    outcome: tuple            # ('return', value) | ('raise', ExcVal) | ('end', reason) | ('unsupported', msg)
    obligations: list
    events: list
    ghost: dict
    run: Run = None


def explore(thunk, axioms=(), max_paths=4000, nested=False):
    """thunk(run) executes the code under analysis once along run's decisions and returns its value"""
    work = [[]]
    results: list[PathResult] = []
    while work:
        prefix = work.pop()
        if not nested:           # a nested exploration must not restart the fresh-name counter of the enclosing path
            reset_fresh()
            values.Obj._live = []
        saved_oracle = values.ORACLE
        run = Run(prefix, axioms)
        values.ORACLE = run.known
        try:
            v = thunk(run)
            outcome = ('return', v)
        except PyRaise as e:
            outcome = ('raise', e.exc)
        except PathEnd as e:
            outcome = ('end', str(e))
        except Unsupported as e:
            if __import__('os').environ.get('VF_DEBUG'):
                import traceback
                traceback.print_exc()
            outcome = ('unsupported', str(e))
        except (ReturnLeak, RecursionError, z3.Z3Exception, TypeError, AttributeError, KeyError, IndexError,
                ValueError, AssertionError) as e:      # engine-level failure on this path: undecided, never a verdict
            import traceback
            if __import__('os').environ.get('VF_DEBUG'):
                traceback.print_exc()
            tb = traceback.extract_tb(e.__traceback__)[-1]
            outcome = ('unsupported', f'engine error {type(e).__name__}: {e} at {tb.filename.rsplit("/", 1)[-1]}:{tb.lineno}')
        values.ORACLE = saved_oracle if nested else values.ORACLE
        work.extend(run.alternatives)
        results.append(PathResult(tuple(run.decisions), list(run.pc), list(run.axioms), outcome,
                                  run.obligations, run.events, run.ghost, run))
        if len(results) > max_paths:
            raise Unsupported(f'more than {max_paths} paths')
    return results

"""Discharging obligations: z3 (Python API) first, cvc5 / z3-4.8 CLI on the SMT-LIB dump for unknowns.

Verdicts: proved (unsat), refuted (sat, model kept), unknown (timeout / incomplete).  Never maps
unknown or an error to refuted."""
from __future__ import annotations

import multiprocessing as mp
import os
import subprocess
import tempfile
import time

import z3

from .run import Obligation

_OBS: list = []
_CFG: dict = {}


def _rlimit(timeout_ms):
    """deterministic resource limit going with a wall-clock timeout (z3's timeout is checked at coarse points only and is
    load-dependent; the resource counter is neither): about 3x what the timeout allows on an idle core"""
    return int(max(1, timeout_ms)) * 25000


def _model_to_dict(m: z3.ModelRef, limit=400):
    out = {}
    for d in m.decls()[:limit]:
        try:
            v = m[d]
            out[d.name()] = str(v) if not isinstance(v, z3.FuncInterp) else str(v)[:300]
        except Exception:
            pass
    return out


def _to_smt2(ob: Obligation) -> str:
    s = z3.Solver()
    for h in ob.hyps:
        s.add(h)
    s.add(z3.Not(ob.goal))
    return s.to_smt2()


def _run_cli(cmd, text, timeout_s):
    with tempfile.NamedTemporaryFile('w', suffix='.smt2', delete=False, dir=_CFG.get('tmpdir')) as f:
        f.write(text)
        path = f.name
    try:
        r = subprocess.run(cmd + [path], capture_output=True, text=True, timeout=timeout_s + 5)
        out = (r.stdout or '').strip().splitlines()
        return out[0].strip() if out else 'unknown'
    except subprocess.TimeoutExpired:
        return 'unknown'
    finally:
        os.unlink(path)


def _conjuncts(e, out):
    if z3.is_and(e):
        for c in e.children():
            _conjuncts(c, out)
    else:
        out.append(e)
    return out


def _contains_quantifier(e, seen):
    if e.get_id() in seen:
        return seen[e.get_id()]
    r = z3.is_quantifier(e) or any(_contains_quantifier(c, seen) for c in e.children())
    seen[e.get_id()] = r
    return r


def _ground_slice(ob: Obligation):
    """the quantifier-free conjuncts of the hypotheses (dropping hypotheses is sound for a proof); None if nothing is dropped"""
    seen, keep, dropped = {}, [], 0
    for h in ob.hyps:
        for c in _conjuncts(h, []):
            if _contains_quantifier(c, seen):
                dropped += 1
            else:
                keep.append(c)
    return keep if dropped else None


def _is_array_definition(c):
    """ForAll k. a[k] == t  (how list surgery / concatenation results are defined)"""
    if not (z3.is_quantifier(c) and c.is_forall()):
        return False
    b = c.body()
    return z3.is_eq(b) and z3.is_select(b.arg(0))


def _lemma_slice(ob: Obligation):
    """ground conjuncts + array definitions + lemma instances (implications): the invariant-like universally
    quantified hypotheses are dropped"""
    seen, keep, dropped = {}, [], 0
    for h in ob.hyps:
        for c in _conjuncts(h, []):
            if not _contains_quantifier(c, seen):
                keep.append(c)
            elif _is_array_definition(c) or z3.is_implies(c):
                keep.append(c)
            else:
                dropped += 1
    return keep if dropped else None


def _try_slice(hyps, goal, timeout_ms):
    s0 = z3.Solver()
    s0.set('timeout', timeout_ms)
    s0.set('rlimit', _rlimit(timeout_ms))
    for h in hyps:
        s0.add(h)
    s0.add(z3.Not(goal))
    try:
        return s0.check() == z3.unsat
    except z3.Z3Exception:
        return False


_SK = [0]


def _intros(goal, extra, out, depth=0):
    """goal-directed introduction: A -> B becomes hypothesis A and goal B, a universal goal is instantiated with fresh
    constants, a conjunction gives several goals; out collects (extra hypotheses, quantifier-free-at-top goal)"""
    if depth > 12:
        out.append((extra, goal))
    elif z3.is_implies(goal):
        _intros(goal.arg(1), extra + [goal.arg(0)], out, depth + 1)
    elif z3.is_quantifier(goal) and goal.is_forall():
        fresh = []
        for i in range(goal.num_vars()):
            _SK[0] += 1
            fresh.append(z3.Const(f'sk!{goal.var_name(i)}!{_SK[0]}', goal.var_sort(i)))
        _intros(z3.substitute_vars(goal.body(), *reversed(fresh)), extra, out, depth + 1)
    elif z3.is_and(goal):
        for c in goal.children():
            _intros(c, extra, out, depth + 1)
    else:
        out.append((extra, goal))
    return out


def _plain(ob, timeout_ms, seed, fresh=False):
    if fresh:
        # a fresh context: same query, fresh term ids (see _case_split) — the retry is not a repetition
        ctx = z3.Context()
        s = z3.Solver(ctx=ctx)
        s.set('timeout', timeout_ms)
        s.set('rlimit', _rlimit(timeout_ms))
        s.set('random_seed', seed)
        for h in ob.hyps:
            s.add(h.translate(ctx) if isinstance(h, z3.ExprRef) else h)
        s.add(z3.Not(ob.goal.translate(ctx)))
    else:
        s = z3.Solver()
        s.set('timeout', timeout_ms)
        s.set('rlimit', _rlimit(timeout_ms))
        s.set('random_seed', seed)
        for h in ob.hyps:
            s.add(h)
        s.add(z3.Not(ob.goal))
    try:
        r = s.check()
    except z3.Z3Exception as e:
        return 'unknown', None, f'z3 exception: {e}'
    if r == z3.unsat:
        return 'proved', None, ''
    if r == z3.sat:
        try:
            model = _model_to_dict(s.model())
        except Exception:
            model = {}
        return 'refuted', model, ''
    return 'unknown', None, s.reason_unknown()


def _sliced(ob, timeout_ms):
    """only `unsat` is used from this attempt (dropping hypotheses and proving an introduced goal are sound): the lemma
    slice of the hypotheses against every goal obtained by introduction"""
    try:
        goals = _intros(ob.goal, [], [])
        if not goals or len(goals) > 6 or any(_contains_quantifier(g, {}) for _, g in goals):
            return False
        ls = _lemma_slice(ob)
        for extra, g in goals:
            if ls is None and not extra:
                return False        # nothing dropped, nothing introduced: same query as the plain attempt
            if not _try_slice((ls if ls is not None else list(ob.hyps)) + extra, g, min(2000, timeout_ms)):
                return False
        return True
    except Exception:       # noqa: BLE001  (an optimisation only)
        return False


def _ite_conditions(exprs, limit=3):
    """conditions of if-then-else terms occurring in the formulas (closed ones, outside quantifiers), most frequent first"""
    count, seen = {}, set()

    def walk(e, depth):
        if e.get_id() in seen or depth > 60:
            return
        seen.add(e.get_id())
        if z3.is_quantifier(e):
            return
        if z3.is_app_of(e, z3.Z3_OP_ITE) and not z3.is_bool(e):
            c = e.arg(0)
            count[c.get_id()] = (count.get(c.get_id(), (0, c))[0] + 1, c)
        for ch in e.children():
            walk(ch, depth + 1)
    for e in exprs:
        if isinstance(e, z3.ExprRef):
            walk(e, 0)
    return [c for _, c in sorted(count.values(), key=lambda t: -t[0])[:limit]]


def _case_split(ob: Obligation, timeout_ms):
    """case analysis on the conditions of if-then-else terms (code such as `a if j >= 0 else b` puts both cases of a former
    two-branch statement into ONE verification condition): the goal is proved if it is proved under every assignment of the
    conditions.  Sound (the cases are exhaustive); only `unsat` of every case is used."""
    try:
        conds = _ite_conditions(list(ob.hyps[-30:]) + [ob.goal], 4)
        if os.environ.get('VF_DEBUG'):
            print('case split conditions:', conds, 'for', ob.name)
        if not conds:
            return False
        import itertools
        # a FRESH z3 context per attempt: in a long-lived context the same query is answered in 10 ms or left unknown
        # depending on what was solved before (term ids drive the search order of the nonlinear solver)
        ctx = z3.Context()
        hyps = [h.translate(ctx) for h in ob.hyps if isinstance(h, z3.ExprRef)]
        goal = ob.goal.translate(ctx)
        conds = [c.translate(ctx) for c in conds]
        for signs in itertools.product((True, False), repeat=len(conds)):
            s = z3.Solver(ctx=ctx)
            s.set('timeout', timeout_ms)
            s.set('rlimit', _rlimit(timeout_ms))
            for h in hyps:
                s.add(h)
            for c, sg in zip(conds, signs):
                s.add(c if sg else z3.Not(c))
            s.add(z3.Not(goal))
            r = s.check()
            if r != z3.unsat:
                if os.environ.get('VF_DEBUG'):
                    print('case', signs, r)
                return False
        return True
    except Exception as e:       # noqa: BLE001
        if os.environ.get('VF_DEBUG'):
            print('case split failed:', repr(e))
        return False


def solve_one(ob: Obligation, timeout_ms: int, portfolio=True, seed=0, cheap=False):
    """plain z3 with a short budget -> lemma slice -> bounded refutation (a counter-model with the integer inputs in a
    small box is a genuine counter-model) -> plain z3 with the full budget -> other back ends on the SMT-LIB dump (a fresh
    z3 5.1 process, cvc5, z3 4.8).  Slow queries are the unstable ones: diversity instead of one long attempt.
    cheap=True stops after the bounded refutation (used once a scenario has already produced several undecided VCs)."""
    t0 = time.time()
    zv = 'z3-' + z3.get_version_string()
    short = min(timeout_ms, 4000)
    st, model, reason = _plain(ob, short, seed)
    if st != 'unknown':
        return st, zv, time.time() - t0, model, reason
    if _sliced(ob, timeout_ms):
        return 'proved', zv + ' (lemma slice)', time.time() - t0, None, ''
    if bounded_refute(ob, 3, 4000):
        return 'refuted', zv, time.time() - t0, ob.model, 'counter-model found with integer inputs confined to [-3, 3]'
    if _case_split(ob, min(timeout_ms, 2500)):
        return 'proved', zv + ' (case split on if-then-else conditions)', time.time() - t0, None, ''
    if cheap:
        return 'unknown', zv, time.time() - t0, None, reason + ' (cheap mode: full-budget attempts skipped)'
    if timeout_ms > short:
        st, model, reason = _plain(ob, timeout_ms, seed + 1, fresh=True)
        if st != 'unknown':
            return st, zv, time.time() - t0, model, reason
    if portfolio:
        text = None
        try:
            text = _to_smt2(ob)
        except Exception as e:
            reason += f'; smt2 dump failed: {e}'
        if text is not None and os.environ.get('VF_DUMP_UNKNOWN'):
            import hashlib
            os.makedirs(os.environ['VF_DUMP_UNKNOWN'], exist_ok=True)
            with open(os.path.join(os.environ['VF_DUMP_UNKNOWN'], hashlib.sha1(ob.name.encode()).hexdigest()[:8] + '.smt2'), 'w') as f:
                f.write(f'; {ob.name} path={ob.path}\n' + text)
        if text is not None:
            tsec = max(2, timeout_ms // 1000)
            for name, cmd in (('z3-5.1.0 (cli)', ['/opt/veriftools/pyvenv/bin/z3', '-T:%d' % tsec]),
                              ('cvc5-1.0.3', ['/usr/bin/cvc5', '--tlimit=%d' % (tsec * 1000)]),
                              ('z3-4.8.12', ['/usr/bin/z3', '-T:%d' % tsec])):
                if not os.path.exists(cmd[0]):
                    continue
                ans = _run_cli(cmd, text, tsec)
                if ans == 'unsat':
                    return 'proved', name, time.time() - t0, None, ''
                if ans == 'sat' and not _has_quantifier(ob):
                    return 'refuted', name, time.time() - t0, {}, 'model not extracted (CLI back end)'
    return 'unknown', zv, time.time() - t0, None, reason


def _has_quantifier(ob):
    def has(e, seen):
        if e.get_id() in seen:
            return False
        seen.add(e.get_id())
        if z3.is_quantifier(e):
            return True
        return any(has(c, seen) for c in e.children())
    seen = set()
    return any(has(h, seen) for h in ob.hyps) or has(ob.goal, seen)


def _worker(i):
    ob = _OBS[i]
    try:
        return (i,) + solve_one(ob, _CFG['timeout_ms'], _CFG.get('portfolio', True))
    except Exception as e:          # noqa: BLE001
        return i, 'error', 'n/a', 0.0, None, repr(e)


def discharge(obligations: list, timeout_ms=10000, jobs=None, portfolio=True, tmpdir=None):
    """solve every obligation; fills status/backend/time/model in place"""
    global _OBS, _CFG
    _OBS = obligations
    _CFG = {'timeout_ms': timeout_ms, 'portfolio': portfolio, 'tmpdir': tmpdir}
    jobs = jobs or min(16, os.cpu_count() or 4)
    n = len(obligations)
    if n == 0:
        return
    if jobs > 1 and n > 8:
        ctx = mp.get_context('fork')
        with ctx.Pool(jobs) as pool:
            results = pool.map(_worker, range(n), chunksize=max(1, n // (jobs * 8)))
    else:
        results = [_worker(i) for i in range(n)]
    for i, status, backend, dt, model, note in results:
        ob = obligations[i]
        ob.status, ob.backend, ob.time_s, ob.model, ob.note = status, backend, dt, model, note


def canary(hyps, timeout_ms=1500):
    """vacuity guard: hypotheses must be satisfiable (the goal False must NOT be provable)"""
    s = z3.Solver()
    s.set('timeout', timeout_ms)
    s.set('rlimit', _rlimit(timeout_ms))
    for h in hyps:
        s.add(h)
    r = s.check()
    return r != z3.unsat, (str(r))


def bounded_refute(ob: Obligation, bound: int, timeout_ms: int) -> bool:
    """search a counter-model with every integer scenario input (and sequence length) in [-bound, bound]"""
    from .values import SSeq
    ins = ob.meta.get('inputs') or {}
    s = z3.Solver()
    s.set('timeout', timeout_ms)
    s.set('rlimit', _rlimit(timeout_ms))
    for h in ob.hyps:
        s.add(h)
    s.add(z3.Not(ob.goal))
    n = 0
    for v in ins.values():
        if isinstance(v, z3.ArithRef) and v.is_int():
            s.add(v >= -bound, v <= bound)
            n += 1
        elif isinstance(v, SSeq) and isinstance(v.length, z3.ArithRef):
            s.add(v.length <= bound)
            n += 1
    if n == 0:
        return False
    try:
        if s.check() == z3.sat:
            ob.model = _model_to_dict(s.model())
            return True
    except z3.Z3Exception:
        pass
    return False


def hinted_refute(ob: Obligation, hint, timeout_ms: int) -> bool:
    """search a counter-model of the obligation inside the sub-class of inputs described by `hint`"""
    s = z3.Solver()
    s.set('timeout', timeout_ms)
    s.set('rlimit', _rlimit(timeout_ms))
    for h in ob.hyps:
        s.add(h)
    s.add(z3.Not(ob.goal))
    s.add(hint)
    t0 = time.time()
    try:
        if s.check() == z3.sat:
            ob.model = _model_to_dict(s.model())
            ob.time_s = time.time() - t0
            return True
    except z3.Z3Exception:
        pass
    return False

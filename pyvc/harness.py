"""Check = one property's proof run: collects named obligations produced by symbolically executing
the real functions against their contracts, discharges them, replays counter-models natively,
applies the known-findings file, writes the evidence file and decides the exit code."""
from __future__ import annotations

import hashlib
import json
import os
import subprocess
import sys
import time
import traceback

import z3

from . import solve
from .interp import Frame, Interp
from .run import Obligation, PathResult, explore
from .source import Program
from .values import (ExcVal, Obj, PathEnd, PyRaise, SSeq, Unsupported, concrete, fresh_int, fresh_name, is_z3,
                     to_z3, zbool)

VERIF = os.path.dirname(os.path.dirname(os.path.abspath(__file__)))
NATIVE_PY = os.environ.get('VF_NATIVE_PY', '/venv/bin/python')


class Outcome:
    def __init__(self, kind, value):
        self.kind, self.value = kind, value

    @property
    def normal(self):
        return self.kind == 'return'

    def raised(self, name=None):
        if self.kind != 'raise':
            return False
        return name is None or self.value.name == name

    def __repr__(self):
        return f'<{self.kind} {self.value!r}>'

    @property
    def where(self):
        return getattr(self.value, 'where', None) if self.kind == 'raise' else None


class Scenario:
    """handle passed to a scenario body; one instance per explored path"""

    def __init__(self, check, func_name, label, interp: Interp):
        self.ck = check
        self.func_name = func_name
        self.label = label
        self.I = interp
        self.run = interp.run
        self.inputs: dict = {}
        self._n = 0
        self.oracle = None        # default native oracle spec for the obligations of this scenario

    # ---- symbolic inputs
    def int(self, name):
        v = z3.Int(name)
        self.inputs[name] = v
        return v

    def real(self, name):
        v = z3.Real(name)
        self.inputs[name] = v
        return v

    def bool(self, name):
        v = z3.Bool(name)
        self.inputs[name] = v
        return v

    def seq(self, name, kind='tuple', sort=None, wrap=None):
        arr = z3.Const(name + '_a', z3.ArraySort(z3.IntSort(), sort if sort is not None else z3.IntSort()))
        n = z3.Int(name + '_n')
        w = wrap or (lambda e: e)
        s = SSeq(n, lambda k: w(arr[to_z3(k)]), kind)
        s.arr = arr
        s.segs = [('src', arr, 0, n)]
        self.run.assume(n >= 0)
        self.inputs[name] = s
        return s

    def assume(self, cond):
        self.run.assume(cond)

    def choose(self, n, label=None):
        """harness-level case split (all alternatives explored)"""
        return self.run.decide(n)

    # ---- running the real code
    def call(self, f, args=(), kwargs=None) -> Outcome:
        try:
            v = self.I.call(f, list(args), dict(kwargs or {}))
            return Outcome('return', v)
        except PyRaise as e:
            return Outcome('raise', e.exc)

    def func(self, fullname):
        from .values import FuncRef
        fi = self.ck.P.func(fullname)
        return FuncRef(fi, None)

    def new(self, clsname, **fields):
        """an instance of a repo class with the given fields, without running __init__ (class invariant assumed)"""
        o = Obj(self.ck.P.cls(clsname))
        o.fields.update(fields)
        return o

    # ---- frames: operands must not be modified by the code under analysis
    def snapshot(self, *objs):
        from . import builtins_model as B
        snap = []
        for o in objs:
            if isinstance(o, Obj):
                for k, v in o.fields.items():
                    if isinstance(v, B.PyList):
                        snap.append((o, k, v, v.seq, None if v.items is None else list(v.items)))
                    else:
                        snap.append((o, k, v, None, None))
        return snap

    def unchanged(self, snap):
        """True iff every field captured by snapshot() still holds the same value (lists: same object, same contents)"""
        from . import builtins_model as B
        for o, k, v, seq, items in snap:
            cur = o.fields.get(k)
            if cur is not v:
                return False
            if isinstance(v, B.PyList):
                if v.seq is not seq:
                    return False
                if (v.items is None) != (items is None):
                    return False
                if items is not None and (len(items) != len(v.items) or any(a is not b for a, b in zip(items, v.items))):
                    return False
        return True

    # ---- obligations
    def oblige(self, kind, goal, exact=True, finding=None, note=None, tag=None, oracle=None, hint=None, shape=False):
        """state a goal under the current path condition; top-level conjunctions become one obligation each"""
        name = f'{self.ck.prop}/{self.func_name}/{kind}'
        if self.label:
            name += f'#{self.label}'
        if tag:
            name += f':{tag}'
        meta = {'inputs': dict(self.inputs), 'scenario': self.label, 'func': self.func_name}
        if finding:
            meta['finding'] = finding
        if note:
            meta['note'] = note
        if oracle or self.oracle:
            meta['oracle'] = oracle or self.oracle
            if getattr(self, 'oracle_prop', None):
                meta['oracle'] = dict(meta['oracle'], prop=self.oracle_prop)
        if hint is not None:
            meta['refute_hint'] = hint      # a sub-class of inputs expected to contain a counter-model
        if shape and goal is False:
            # shape=True marks a CODE-SHAPED check (the implementation is recognised by pattern matching on the recorded
            # calls): a mismatch means "implementation not recognised" — the clause is then undecided, and the native
            # oracle of the scenario decides whether this is a violation (a failing input) or stays undecided (exit 2)
            self.ck._undecided(self.func_name, self.label, f'implementation shape not recognised: {tag or kind}',
                               oracle=_scenario_oracle_spec(self, oracle))
            return []
        out = self.run.oblige(name, goal, kind=kind, exact=exact, meta=meta)
        out = out if isinstance(out, list) else [out]
        return out


_ACTIVE = None


def _job_entry(i):
    return _ACTIVE._run_job(i)


def _job_child(i, conn):
    # self-test of the crash tolerance: VF_TEST_CRASH="<job index>:<marker file>" kills the worker of that scenario once
    spec = os.environ.get('VF_TEST_CRASH', '')
    if spec and spec.split(':', 1)[0] == str(i) and not os.path.exists(spec.split(':', 1)[1]):
        open(spec.split(':', 1)[1], 'w').close()
        os.kill(os.getpid(), 11)
    try:
        conn.send(_ACTIVE._run_job(i))
    finally:
        conn.close()


class ObRec:
    """picklable result of one obligation"""

    def __init__(self, ob: Obligation):
        self.name, self.status, self.backend, self.time_s = ob.name, ob.status, ob.backend, ob.time_s
        self.model, self.note, self.kind, self.exact = ob.model, ob.note, ob.kind, ob.exact
        self.meta = {k: ob.meta.get(k) for k in ('finding', 'oracle', 'note', 'func', 'scenario') if ob.meta.get(k)}
        self.nhyps = len(ob.hyps)
        self.witness, self.goal_str, self.hyps_str = {}, '', []


def _scenario_oracle_spec(S, oracle=None):
    o = oracle or getattr(S, 'oracle', None)
    if o and getattr(S, 'oracle_prop', None):
        o = dict(o, prop=S.oracle_prop)
    return o


def _scenario_oracle(S):
    o = getattr(S, 'oracle', None)
    if o and getattr(S, 'oracle_prop', None):
        o = dict(o, prop=S.oracle_prop)
    return o


class Check:
    def __init__(self, prop: str, tier='quick', seed=0, program: Program | None = None):
        self.prop = prop
        self.tier = tier
        self.seed = seed
        self.P = program or Program()
        self.t0 = time.time()
        self.obligations: list[Obligation] = []
        self._seen: set = set()
        self.functions: dict = {}       # fullname -> dict(paths, normal, raising, unsupported)
        self.trusted: set = set()
        self.assumptions: list = []
        self.inlined: set = set()
        self.used_contracts: set = set()
        self.bounded: list = []
        self.vacuity: list = []
        self.undecided: list = []
        self.findings = load_findings()
        self.finding_lines: list = []
        self.samples: list = []
        self.errors: list = []
        self.native_checks: list = []
        self.jobs: list = []
        self.only = None
        self.show = None
        self.partial = False       # only part of the pack is run (--only/--job): finding bookkeeping is relaxed

    # ------------------------------------------------------------------ exploration
    def explore(self, func_name, body, theory, label='', contracts=None, loop_specs=None, axioms=(),
                expect_normal=True, call_hook=None, max_paths=4000):
        """register a scenario: body(S: Scenario) builds symbolic inputs, runs real code through S.call and states
        obligations; it is re-executed once per path.  Scenarios run (in parallel worker processes) in finish()."""
        self.jobs.append(dict(func_name=func_name, body=body, theory=theory, label=label, contracts=contracts,
                              loop_specs=loop_specs, axioms=axioms, expect_normal=expect_normal, call_hook=call_hook,
                              max_paths=max_paths))

    def include(self, build, prop, pred):
        """register, by reference, the scenarios of another pack `prop` whose function name satisfies `pred`: they are
        re-run here as obligations of this check (their native oracles stay those of the owning pack)"""
        real = self.explore

        def filtered(func_name, body, *a, **k):
            if pred(func_name):
                n = len(self.jobs)
                real(func_name, body, *a, **k)
                for j in self.jobs[n:]:
                    j['oracle_prop'] = prop
        self.explore = filtered
        try:
            build(self)
        finally:
            self.explore = real

    def _explore_now(self, func_name, body, theory, label='', contracts=None, loop_specs=None, axioms=(),
                     expect_normal=True, call_hook=None, max_paths=4000, oracle_prop=None):
        def thunk(run):
            I = Interp(self.P, run, theory, contracts or {}, loop_specs or {}, call_hook)
            I.obl_prefix = f'{self.prop}/{func_name}'
            I.cur_name = lambda: I.obl_prefix + (f'#{label}' if label else '')
            S = Scenario(self, func_name, label, I)
            S.oracle_prop = oracle_prop
            run._S = S
            if hasattr(theory, 'bind'):
                theory.bind(I)
            try:
                return body(S)
            finally:
                self.inlined |= I.inlined
                self.used_contracts |= I.used_contracts
                self.trusted |= {f'dep:{p}' for p in I.used_externals}
        try:
            results = explore(thunk, axioms, max_paths=max_paths)
        except Unsupported as e:
            self._undecided(func_name, label, f'unsupported: {e}')
            return []
        st = self.functions.setdefault(func_name, {'paths': 0, 'normal': 0, 'ended': 0, 'unsupported': 0,
                                                   'scenarios': 0})
        st['scenarios'] += 1
        nrm = 0
        for r in results:
            st['paths'] += 1
            if r.outcome[0] == 'unsupported':
                st['unsupported'] += 1
                self._undecided(func_name, label, f'unsupported: {r.outcome[1]}',
                                oracle=_scenario_oracle(getattr(r.run, '_S', None)))
            elif r.outcome[0] == 'end':
                st['ended'] += 1
            elif r.outcome[0] == 'raise':
                # an exception escaping the scenario body itself is a harness error
                self.errors.append(f'{func_name}#{label}: uncaught {r.outcome[1]!r} in scenario')
            else:
                st['normal'] += 1
                nrm += 1
            for ob in r.obligations:
                key = (ob.name, ob.path, ob.meta.get('ordinal'))
                if key in self._seen:
                    continue
                self._seen.add(key)
                self.obligations.append(ob)
        if expect_normal and nrm == 0 and not any(r.outcome[0] == 'unsupported' for r in results):
            # (a scenario that stops at an unsupported construct is UNDECIDED — exit 2 —, not a broken checker)
            self.vacuity.append(f'{func_name}#{label}: no path reached the end of the scenario')
        return results

    def _undecided(self, func_name, label, why, oracle=None):
        self.undecided.append({'function': func_name, 'scenario': label, 'reason': why, 'oracle': oracle})

    def trust(self, *items):
        for i in items:
            self.trusted.add(i)

    def assume_note(self, text):
        if text not in self.assumptions:
            self.assumptions.append(text)

    # ------------------------------------------------------------------ one scenario, end to end (worker process)
    def _run_job(self, idx):
        job = self.jobs[idx]
        sub = Check.__new__(Check)
        sub.__dict__.update(prop=self.prop, tier=self.tier, seed=self.seed, P=self.P, t0=time.time(), obligations=[],
                            _seen=set(), functions={}, trusted=set(), assumptions=[], inlined=set(),
                            used_contracts=set(), bounded=[], vacuity=[], undecided=[], findings=[], errors=[],
                            jobs=[], samples=[], native_checks=[], finding_lines=[])
        t0 = time.time()
        try:
            sub._explore_now(**job)
        except Exception:                  # noqa: BLE001
            sub.errors.append(f"{job['func_name']}#{job['label']}: scenario crashed: "
                              + traceback.format_exc().splitlines()[-1])
        t_explore = time.time() - t0
        obs = sub.obligations
        if self.only:
            obs = [o for o in obs if self.only in o.name]
        if self.show:
            for o in obs:
                if self.show in o.name:
                    print('=====', o.name, 'path', o.path)
                    for h in o.hyps:
                        print('  H:', h)
                    print('  G:', o.goal)
        canaries = 0
        if obs:
            ok, _r = solve.canary(obs[0].hyps)
            canaries = 1
            if not ok:
                sub.vacuity.append(f'{obs[0].name}: hypotheses unsatisfiable (vacuous)')
        timeout = int(os.environ.get('VF_TIMEOUT_MS') or (20000 if self.tier == 'quick' else 60000))
        recs = []
        hard = 0
        for ob in obs:
            # refutation hint: a model of hyps ∧ ¬goal ∧ hint is a genuine counter-model of the obligation (the hint
            # only tells the solver where to look); no model under the hint decides nothing
            if ob.meta.get('refute_hint') is not None and solve.hinted_refute(ob, ob.meta['refute_hint'], 5000):
                ob.status, ob.backend = 'refuted', 'z3-' + z3.get_version_string()
                ob.note = 'counter-model found inside the hinted input sub-class'
                rec = ObRec(ob)
                rec.witness = concretise(ob)
                rec.goal_str = _pp(ob.goal, 4000)
                rec.hyps_str = [_pp(h, 600) for h in ob.hyps[-40:]]
                recs.append(rec)
                continue
            try:
                # once three VCs of this scenario have exhausted the whole portfolio the scenario is undecided anyway:
                # the remaining ones get the cheap strategy (a failing run must not take an hour)
                ob.status, ob.backend, ob.time_s, ob.model, ob.note = solve.solve_one(ob, timeout, cheap=hard >= 3)
            except Exception as e:          # noqa: BLE001
                ob.status, ob.note = 'error', repr(e)
            if ob.status not in ('proved', 'refuted'):
                hard += 1
                # bounded refutation search in a larger box (any model is a genuine counter-model)
                if hard <= 3 and solve.bounded_refute(ob, 6, 8000):
                    ob.status, ob.backend = 'refuted', 'z3-' + z3.get_version_string()
                    ob.note = 'counter-model found with integer inputs confined to [-6, 6]'
            rec = ObRec(ob)
            if ob.status == 'refuted':
                rec.witness = concretise(ob)
                rec.goal_str = _pp(ob.goal, 4000)
                rec.hyps_str = [_pp(h, 600) for h in ob.hyps[-40:]]
            elif len(recs) < 2:
                rec.goal_str = str(ob.goal)[:300]
            recs.append(rec)
        return dict(recs=recs, functions=sub.functions, undecided=sub.undecided, errors=sub.errors,
                    vacuity=sub.vacuity, inlined=sub.inlined, used_contracts=sub.used_contracts, trusted=sub.trusted,
                    canaries=canaries, t_explore=t_explore, job=f"{job['func_name']}#{job['label']}",
                    wall=time.time() - t0)

    # ------------------------------------------------------------------ finishing
    def finish(self):
        global _ACTIVE
        _ACTIVE = self
        canaries = 0
        njobs = len(self.jobs)
        nproc = min(int(os.environ.get('VF_JOBS', '16')), max(1, njobs))
        if nproc > 1:
            import multiprocessing as mp
            # watchdog: a worker stuck inside the solver (z3 does not always honour its timeout) must not hang the check:
            # scenarios still running at the wall-clock deadline are UNDECIDED and the pool is terminated
            wall = float(os.environ.get('VF_WALL_S') or (1500 if self.tier == 'quick' else 7200))
            # one forked process per scenario (at most nproc at a time), results through a pipe.  A worker that DIES
            # (libz3 5.1 segfaults once in a few thousand solver calls) is noticed through the end-of-file on its pipe
            # and its scenario is run again in a fresh process (twice at most; then it is UNDECIDED) — with a process
            # pool the lost task would only surface at the wall-clock deadline
            from multiprocessing.connection import wait as _wait
            ctx = mp.get_context('fork')
            results, tries, queue, running = {}, {}, list(range(njobs)), {}
            deadline = self.t0 + wall
            try:
                while queue or running:
                    while queue and len(running) < nproc:
                        i = queue.pop(0)
                        rd, wr = ctx.Pipe(duplex=False)
                        pr = ctx.Process(target=_job_child, args=(i, wr))
                        pr.start()
                        wr.close()
                        running[i] = (pr, rd)
                    ready = _wait([rd for _, rd in running.values()], timeout=1.0)
                    for i, (pr, rd) in list(running.items()):
                        if rd not in ready:
                            continue
                        try:
                            results[i] = rd.recv()
                        except (EOFError, OSError):
                            tries[i] = tries.get(i, 0) + 1
                            if tries[i] <= 2:
                                queue.append(i)
                            else:
                                j = self.jobs[i]
                                self._undecided(j['func_name'], j['label'], 'the worker process died three times (solver crash)')
                        rd.close()
                        pr.join(5)
                        del running[i]
                    if time.time() > deadline:
                        for i in list(running) + queue:
                            j = self.jobs[i]
                            self._undecided(j['func_name'], j['label'],
                                            f'wall-clock budget of {wall:.0f} s exceeded (solver not returning)')
                        break
            finally:
                for pr, rd in running.values():
                    pr.terminate()
                    pr.join(5)
            self.worker_restarts = sum(tries.values())
            outs = [results[i] for i in sorted(results)]
        else:
            outs = [self._run_job(i) for i in range(njobs)]
        self.job_times = []
        for o in outs:
            self.obligations.extend(o['recs'])
            for k, v in o['functions'].items():
                st = self.functions.setdefault(k, {'paths': 0, 'normal': 0, 'ended': 0, 'unsupported': 0, 'scenarios': 0})
                for kk, vv in v.items():
                    st[kk] += vv
            self.undecided.extend(o['undecided'])
            self.errors.extend(o['errors'])
            self.vacuity.extend(o['vacuity'])
            self.inlined |= o['inlined']
            self.used_contracts |= o['used_contracts']
            self.trusted |= o['trusted']
            canaries += o['canaries']
            self.job_times.append((round(o['wall'], 1), o['job']))
        if not self.obligations and not (self.only or self.partial):
            self.vacuity.append('no obligation was generated')
        # still undecided: the native oracle searches the obligation's witness family; a failing input found on the
        # real code is a violation whatever the solver said
        self._oracle_cache = {}
        for ob in self.obligations:
            if ob.status in ('proved', 'refuted') or not ob.meta.get('oracle'):
                continue
            res = self.native(ob.meta['oracle'], {})
            if res['status'] == 'fails':
                ob.status = 'refuted'
                ob.note = 'solver undecided; native oracle found a failing input in the witness family'
                ob.meta['native_result'] = res
        proved = [o for o in self.obligations if o.status == 'proved']
        refuted = [o for o in self.obligations if o.status == 'refuted']
        unknown = [o for o in self.obligations if o.status not in ('proved', 'refuted')]
        violations = []
        # a scenario the engine could not execute (construct outside the subset) decides nothing by itself; but if the
        # native oracle of that scenario finds a failing input on the real code, that is a violation all the same
        still = []
        seen_und = set()
        for u in self.undecided:
            if u.get('oracle'):
                res = self.native(u['oracle'], {})
                if res['status'] == 'fails':
                    key = (u['function'], u['scenario'])
                    if key not in seen_und:
                        seen_und.add(key)
                        path = write_replay(self.prop, f"undecided-{u['function']}-{u['scenario']}", {
                            'property': self.prop, 'obligation': f"{self.prop}/{u['function']}/(scenario not executable)",
                            'solver_note': u['reason'], 'oracle': u['oracle'], 'native': res, 'witness': {},
                            'replayed_on_real_code': True})
                        print(f'VIOLATION property={self.prop} replay={path}')
                        print(f"  scenario {u['function']}#{u['scenario']} undecided ({u['reason']}); the native oracle "
                              f"found a failing input on the real code")
                        violations.append(None)
                    continue
            still.append(u)
        self.undecided = still
        open_f = {f['id']: f for f in self.findings if f.get('status') == 'open' and
                  (f['property'] == self.prop or self.prop in f.get('also', []))}
        finding_hits: dict = {}
        for ob in refuted:
            fid = ob.meta.get('finding')
            if fid and fid in open_f:
                finding_hits.setdefault(fid, []).append(ob)
                continue
            violations.append(ob)
        # an obligation isolated under an open finding that the solver can neither prove nor refute is accounted to
        # that finding as long as the finding's native witness still fails (checked below)
        pending_unknown = {}
        for ob in list(unknown):
            fid = ob.meta.get('finding')
            if fid and fid in open_f:
                pending_unknown.setdefault(fid, []).append(ob)
        # open findings: native witness must still fail; print KNOWN-FINDING
        for fid, f in open_f.items():
            res = run_native(self.prop, f.get('native', {}))
            self.native_checks.append({'finding': fid, 'result': res['status']})
            if res['status'] == 'fails':
                line = f"KNOWN-FINDING: property={self.prop} {f['what']}"
                print(line)
                self.finding_lines.append(line)
                for ob in pending_unknown.get(fid, []):
                    ob.status = 'refuted'
                    ob.note = 'undecided by the solver; accounted to the listed open finding whose native witness fails'
                    unknown.remove(ob)
                    refuted.append(ob)
                    finding_hits.setdefault(fid, []).append(ob)
                if fid not in finding_hits and not (self.only or self.partial):
                    # the obligation meant to expose it was not refuted: verifier and oracle disagree
                    self.errors.append(f'finding {fid}: native witness fails but no obligation tagged with it was '
                                       f'refuted')
            else:
                if fid in finding_hits:
                    violations.extend(finding_hits[fid])   # tagged obligations fail for another reason
                print(f'NOTE: listed finding {fid} no longer reproduces natively ({res["status"]})')
        # fixed findings: replay their witnesses too; a recurrence is a violation
        for f in self.findings:
            if f.get('status') == 'fixed' and (f['property'] == self.prop or self.prop in f.get('also', [])) \
                    and f.get('native'):
                res = run_native(self.prop, f['native'])
                self.native_checks.append({'finding': f['id'], 'fixed': True, 'result': res['status']})
                if res['status'] == 'fails':
                    path = write_replay(self.prop, f'fixed-finding-{f["id"]}', {'property': self.prop, 'native': f['native'],
                                        'oracle': f['native'], 'output': res.get('output', '')})
                    print(f'VIOLATION property={self.prop} replay={path}')
                    violations.append(None)
        # thorough tier: besides the longer solver budget, every native oracle family named by the scenarios is run once
        # on the real code with a larger budget and the run's seed (bounded exploration, reported separately, never
        # counted as proof); a failing input is a violation
        self.family_runs = []
        if self.tier == 'thorough' and not (self.only or self.partial):
            specs = {}
            for ob in self.obligations:
                o = ob.meta.get('oracle')
                if o:
                    specs[json.dumps(o, sort_keys=True, default=str)] = o
            for key, o in sorted(specs.items()):
                spec = dict(o)
                spec.update(seed=self.seed, n=max(int(o.get('n', 0) or 0), 120), budget_s=240, witness={})
                res = run_native(self.prop, spec, timeout=900)
                self.family_runs.append({'oracle': o, 'result': res['status']})
                if res['status'] == 'fails':
                    path = write_replay(self.prop, f"oracle-family-{o.get('name')}", {
                        'property': self.prop, 'obligation': f"{self.prop}/(native oracle family {o.get('name')})",
                        'oracle': spec, 'native': res, 'witness': {}, 'replayed_on_real_code': True})
                    print(f'VIOLATION property={self.prop} replay={path}')
                    violations.append(None)
        exit_code = 0
        nviol = 0
        for ob in violations:
            if ob is None:
                nviol += 1
                continue
            nviol += 1
            path, replayed = self.report_violation(ob)
            suffix = '' if replayed else ' no-failing-input-found'
            print(f'VIOLATION property={self.prop} replay={path}{suffix}')
            print(f'  obligation {ob.name} refuted by {ob.backend} in {ob.time_s:.2f}s {ob.note}')
        if nviol:
            exit_code = 1
        elif self.errors or self.vacuity:
            exit_code = 3
        elif unknown or self.undecided:
            exit_code = 2
        for e in self.errors:
            print('CHECKER-ERROR:', e)
        for v in self.vacuity:
            print('VACUITY:', v)
        for ob in unknown:
            print(f'UNDECIDED obligation={ob.name} status={ob.status} {ob.note}')
        for u in self.undecided:
            print(f"UNDECIDED function={u['function']} scenario={u['scenario']} {u['reason']}")
        self.write_evidence(proved, refuted, unknown, nviol, canaries)
        ok_findings = sum(len(v) for v in finding_hits.values())
        print(f'{self.prop}: {len(self.obligations)} obligations, {len(proved)} discharged, {len(refuted)} refuted '
              f'({ok_findings} under listed findings), {len(unknown)} unknown, '
              f'{len(self.undecided)} unsupported; exit {exit_code}; {time.time() - self.t0:.1f}s')
        return exit_code

    # ------------------------------------------------------------------ violations
    def report_violation(self, ob):
        witness = ob.witness
        replayed = False
        native = None
        oracle = ob.meta.get('oracle')
        if oracle:
            # at most four witness-specific native replays per run; further violations are replayed on the oracle's
            # seeded family (one cached run per oracle) to keep a failing run within minutes
            self._nreplays = getattr(self, '_nreplays', 0) + (0 if ob.meta.get('native_result') else 1)
            native = ob.meta.get('native_result') or self.native(oracle, witness if self._nreplays <= 4 else {})
            replayed = native['status'] == 'fails'
        data = {
            'property': self.prop, 'obligation': ob.name, 'kind': ob.kind, 'exact': ob.exact,
            'backend': ob.backend, 'solver_time_s': ob.time_s, 'witness': witness,
            'model': ob.model, 'goal': ob.goal_str, 'hyps': ob.hyps_str,
            'native': native, 'oracle': oracle, 'note': ob.meta.get('note'), 'solver_note': ob.note,
            'replayed_on_real_code': replayed,
        }
        h = hashlib.sha1((ob.name + json.dumps(witness, sort_keys=True, default=str)).encode()).hexdigest()[:10]
        path = write_replay(self.prop, ob.name.split('/', 1)[1].replace('/', '_') + '-' + h, data)
        return path, replayed

    def native(self, oracle, witness):
        spec = dict(oracle)
        spec['witness'] = witness
        spec['seed'] = self.seed
        key = json.dumps(spec, sort_keys=True, default=str)
        if key not in self._oracle_cache:
            self._oracle_cache[key] = run_native(spec.get('prop') or self.prop, spec)
        return self._oracle_cache[key]

    # ------------------------------------------------------------------ evidence
    def write_evidence(self, proved, refuted, unknown, nviol, canaries):
        backends: dict = {}
        for o in proved:
            backends[o.backend] = backends.get(o.backend, 0) + 1
        slow = sorted(self.obligations, key=lambda o: -o.time_s)[:5]
        samples = []
        seen_f = set()
        for o in self.obligations:
            f = o.meta.get('func')
            if f in seen_f:
                continue
            seen_f.add(f)
            samples.append({'obligation': o.name, 'status': o.status, 'hyps': o.nhyps, 'goal': o.goal_str})
            if len(samples) >= 12:
                break
        finding_obs = [o for o in refuted if o.meta.get('finding')]
        ev = {
            'property_id': self.prop, 'tier': self.tier, 'seed': self.seed, 'level': 'proof',
            'coverage': {
                # obligations isolated under a listed open finding, and obligations of kind 'bounded' (fixed rank / arity
                # stand-ins), are decided like the others but are not counted as proof obligations
                'obligations': len([o for o in self.obligations if o.kind != 'bounded'])
                - len([o for o in finding_obs if o.kind != 'bounded']),
                'discharged': len([o for o in proved if o.kind != 'bounded']),
                'bounded_obligations': {'stated': len([o for o in self.obligations if o.kind == 'bounded']),
                                        'discharged': len([o for o in proved if o.kind == 'bounded'])},
                'obligations_refuted_under_listed_open_findings': [o.name for o in finding_obs][:40],
                'checker_cmd': f'./vf check {self.prop} --tier {self.tier}',
                'trusted_base': sorted(self.trusted),
                'functions_under_contract': {k: v for k, v in sorted(self.functions.items())},
                'callee_contracts_used': sorted(self.used_contracts),
                'inlined_callees': sorted(self.inlined),
                'backends': backends,
                'solver_time_s': round(sum(o.time_s for o in self.obligations), 3),
                'slowest': [{'obligation': o.name, 'time_s': round(o.time_s, 3)} for o in slow],
                'scenario_wall_s': sorted(getattr(self, 'job_times', []), reverse=True)[:8],
                'bounded_checks': self.bounded,
                'vacuity': {'canaries_run': canaries, 'problems': self.vacuity},
                'undecided': [{'obligation': o.name, 'status': o.status, 'note': o.note} for o in unknown]
                + self.undecided,
                'known_findings_replayed': self.native_checks,
                'native_oracle_family_runs_thorough': getattr(self, 'family_runs', []),
                'samples': samples,
                'tables': self.samples,          # pack-provided tables (ck.samples): decided rows listed for the reader
                'repo_tree_sha': self.P.tree_sha(),
                'explanation': 'VCs generated from /repo source at this run by pyvc (symbolic execution of the real '
                               'AST against sidecar contracts); bounded checks are listed separately and not '
                               'counted in obligations/discharged',
            },
            'assumptions': self.assumptions + ['floats treated as mathematical reals',
                                               'closed world: classes defined under /repo/src/furax'],
            'wall_s': round(time.time() - self.t0, 2),
            'violations': nviol,
        }
        if getattr(self, 'no_evidence', False):
            return
        os.makedirs(os.path.join(VERIF, 'evidence'), exist_ok=True)
        with open(os.path.join(VERIF, 'evidence', f'{self.prop}.json'), 'w') as f:
            json.dump(ev, f, indent=1, default=str)


# ---------------------------------------------------------------------------------------- helpers
def _pp(t, limit):
    """printed form of a term, truncated: z3's Python pretty-printer is very slow on large terms (nested ite tables), so
    those are printed by the C printer (s-expression prefix); small terms keep the usual form"""
    try:
        s = t.sexpr()
        if len(s) > 4 * limit:
            return s[:limit]
    except Exception:       # noqa: BLE001
        pass
    return str(t)[:limit]


def load_findings():
    p = os.path.join(VERIF, 'known_findings.json')
    if not os.path.exists(p):
        return []
    return json.load(open(p)).get('findings', [])


def write_replay(prop, stem, data):
    d = os.path.join(VERIF, 'replay')
    os.makedirs(d, exist_ok=True)
    stem = ''.join(c if c.isalnum() or c in '-_.#' else '_' for c in stem)[:150]
    path = os.path.join(d, f'{prop}-{stem}.json')
    with open(path, 'w') as f:
        json.dump(data, f, indent=1, default=str)
    return path


def run_native(prop, spec, timeout=600):
    """run the native oracle under the repo's interpreter; status: fails | holds | error"""
    if not spec:
        return {'status': 'no-oracle'}
    env = dict(os.environ)
    env.setdefault('JAX_PLATFORMS', 'cpu')
    try:
        r = subprocess.run([NATIVE_PY, os.path.join(VERIF, 'oracles', 'run.py'), prop], input=json.dumps(spec, default=str),
                           capture_output=True, text=True, timeout=timeout, env=env, cwd=VERIF)
    except subprocess.TimeoutExpired:
        return {'status': 'error', 'output': 'timeout'}
    out = (r.stdout or '')[-4000:] + (r.stderr or '')[-2000:]
    if r.returncode == 1:
        return {'status': 'fails', 'output': out}
    if r.returncode == 0:
        return {'status': 'holds', 'output': out}
    return {'status': 'error', 'output': out, 'returncode': r.returncode}


def concretise(ob: Obligation):
    """values of the scenario inputs in the solver's counter-model (re-solved here to evaluate terms)"""
    inputs = ob.meta.get('inputs') or {}
    if ob.status != 'refuted' or not inputs:
        return {}
    m = None
    for bound in (3, 6, 12, None):      # prefer small witnesses: they are the ones that can be built natively
        s = z3.Solver()
        s.set('timeout', 8000)
        for h in ob.hyps:
            s.add(h)
        s.add(z3.Not(ob.goal))
        if bound is not None:
            for v in inputs.values():
                if isinstance(v, z3.ArithRef) and v.is_int():
                    s.add(v >= -bound, v <= bound)
                elif isinstance(v, SSeq) and isinstance(v.length, z3.ArithRef):
                    s.add(v.length <= bound)
        if s.check() == z3.sat:
            m = s.model()
            break
    if m is None:
        return {}

    def val(t):
        if is_z3(t):
            v = m.eval(t, model_completion=True)
            c = concrete(v)
            if c is None:
                return str(v)
            if hasattr(c, 'numerator') and not isinstance(c, (int, bool)):
                return float(c)
            return c
        if isinstance(t, SSeq):
            n = val(t.length)
            if isinstance(n, int) and 0 <= n <= 64:
                return [val(t.get(i)) for i in range(n)]
            return {'len': n}
        if isinstance(t, (list, tuple)):
            return [val(x) for x in t]
        if isinstance(t, dict):
            return {k: val(x) for k, x in t.items()}
        return t if isinstance(t, (int, float, str, bool)) or t is None else str(t)
    out = {}
    for k, t in inputs.items():
        try:
            out[k] = val(t)
        except Exception as e:          # noqa: BLE001
            out[k] = f'<{e}>'
    return out

"""Loop contracts: inductive invariants (and variants) for loops that carry state.

A LoopSpec is registered under (function fullname, loop ordinal) — ordinal = position of the loop
among the For/While nodes of the function in source order — never under a line number.

    LoopSpec(invariant=lambda L: <Bool>, havoc=lambda L: None, variant=lambda L: <Int tuple> | None)

`L` is a LoopCtx: L.fr (frame: L.var('name') reads a local), L.k (iteration index of a `for` over a
sequence; None for `while`), L.seq (the iterated sequence), L.interp, L.run.
`havoc(L)` must rebind every local the body may modify to fresh symbolic values (use L.set).  The
set of names assigned in the body is computed from the AST and checked against what havoc rebinds:
a body that writes a local the contract does not havoc makes the contract inapplicable: the scenario is UNDECIDED.

Proof rule (while):  inv-init;  { inv ∧ cond } body { inv ∧ variant decreases };  exit: inv ∧ ¬cond.
Proof rule (for x in seq [else]):  inv(0);  { 0 ≤ k < len ∧ inv(k) } x = seq[k]; body { inv(k+1) };
exit without break: inv(len) then the else block.  `break` leaves the loop with the state at the break.
"""
from __future__ import annotations

import ast

import z3

from . import builtins_model as B
from .values import PathEnd, SSeq, Unsupported, concrete, fresh_int, to_z3, z_and, zbool


class LoopCtx:
    def __init__(self, interp, fr, key, seq=None, k=None, pre=None):
        self.interp, self.fr, self.key, self.seq, self.k = interp, fr, key, seq, k
        self.run = interp.run
        self.pre = pre or {}          # values of the locals at loop entry

    def var(self, name):
        ok, v = self.fr.lookup(name)
        if not ok:
            raise Unsupported(f'loop contract reads unbound local {name!r}')
        return v

    def has(self, name):
        return self.fr.lookup(name)[0]

    def set(self, name, value):
        self.fr.vars[name] = value

    def old(self, name):
        return self.pre[name]


def assigned_names(stmts):
    out = set()
    for s in stmts:
        for n in ast.walk(s):
            if isinstance(n, ast.Name) and isinstance(n.ctx, ast.Store):
                out.add(n.id)
            elif isinstance(n, ast.Subscript) and isinstance(n.ctx, ast.Store) and isinstance(n.value, ast.Name):
                out.add(n.value.id)
            elif isinstance(n, ast.Call) and isinstance(n.func, ast.Attribute) and isinstance(n.func.value, ast.Name) \
                    and n.func.attr in ('append', 'extend', 'pop', 'insert', 'remove', 'add', 'update'):
                out.add(n.func.value.id)
    return out


class LoopSpec:
    def __init__(self, invariant, havoc, variant=None, name='', unchanged=()):
        self.invariant, self.havoc, self.variant, self.name = invariant, havoc, variant, name
        self.unchanged = tuple(unchanged)     # locals that iterations which do not leave the loop must not modify

    @staticmethod
    def _snap(v):
        if isinstance(v, B.PyList):
            return ('list', id(v), v.seq, None if v.items is None else list(v.items))
        return ('val', v)

    def _same(self, snap, v):
        if snap[0] == 'list':
            if not isinstance(v, B.PyList) or id(v) != snap[1] or v.seq is not snap[2]:
                return False
            return v.items is None and snap[3] is None or (v.items is not None and snap[3] is not None and
                                                            len(v.items) == len(snap[3]) and
                                                            all(a is b for a, b in zip(v.items, snap[3])))
        a, b = snap[1], v
        if a is b:
            return True
        try:
            from .values import z_eq
            return z_eq(a, b)
        except Exception:
            return False

    def _nm(self, interp, key, what):
        return f'{interp.cur_name()}/{what}:loop{key[1]}'

    def _meta(self, interp):
        S = getattr(interp.run, '_S', None)
        if S is None:
            return {}
        m = {'inputs': dict(S.inputs), 'func': S.func_name, 'scenario': S.label}
        if S.oracle:
            m['oracle'] = S.oracle
        return m

    def _check_frame(self, interp, s, fr, key, L, extra=()):
        before = dict(fr.vars)
        self.havoc(L)
        changed = {n for n, v in fr.vars.items() if n not in before or before[n] is not v}
        must = {n for n in assigned_names(s.body) if n in before} | set(extra)
        missing = {n for n in must if n not in changed and n not in self.unchanged}
        # locals first bound inside the body are loop-local; they need no havoc
        if missing:
            # the loop contract was written for another shape of this loop (it does not speak about locals the body
            # assigns): it does not APPLY — the scenario is undecided (and its native oracle is run), not violated
            raise Unsupported(f'the loop contract does not cover the locals {sorted(missing)} assigned by the loop body '
                              f'(loop rewritten?)')

    def run_while(self, interp, s, fr, key):
        from .interp import BreakEx, ContinueEx
        run = interp.run
        pre = dict(fr.vars)
        L = LoopCtx(interp, fr, key, pre=pre)
        run.oblige(self._nm(interp, key, 'inv-init'), self.invariant(L), kind='inv-init', meta=self._meta(interp))
        which = run.decide(2)
        self._check_frame(interp, s, fr, key, L)
        run.assume(self.invariant(L))
        cond = interp.truth_term(interp.ev(s.test, fr))
        if which == 0:
            run.assume(cond)
            v0 = self.variant(L) if self.variant else None
            try:
                interp.exec_block(s.body, fr)
            except BreakEx:
                return
            except ContinueEx:
                pass
            run.oblige(self._nm(interp, key, 'inv-pres'), self.invariant(L), kind='inv-pres', meta=self._meta(interp))
            if v0 is not None:
                v1 = self.variant(L)
                run.oblige(self._nm(interp, key, 'variant'), lex_less(v1, v0), kind='variant', meta=self._meta(interp))
            raise PathEnd('end of loop-body iteration')
        run.assume(z3.Not(zbool(cond)) if not isinstance(cond, bool) else (not cond))
        if s.orelse:
            interp.exec_block(s.orelse, fr)

    def run_for(self, interp, s, fr, key, it):
        from .interp import BreakEx, ContinueEx
        run = interp.run
        seq = B.as_seq_or_none(interp, it)
        if seq is None:
            raise Unsupported('loop contract on a for over a non-sequence')
        pre = dict(fr.vars)
        n = seq.length
        L0 = LoopCtx(interp, fr, key, seq, 0, pre)
        run.oblige(self._nm(interp, key, 'inv-init'), self.invariant(L0), kind='inv-init', meta=self._meta(interp))
        which = run.decide(2) if concrete(n) != 0 else 1      # an empty sequence has no iteration to verify
        if which == 0:
            k = fresh_int('iter')
            run.assume(z3.And(k >= 0, k < to_z3(n)))
            L = LoopCtx(interp, fr, key, seq, k, pre)
            self._check_frame(interp, s, fr, key, L)
            run.assume(self.invariant(L))
            interp.assign(s.target, seq.get(k), fr)
            snaps = {n: self._snap(fr.vars[n]) for n in self.unchanged if n in fr.vars}
            try:
                interp.exec_block(s.body, fr)
            except BreakEx:
                return
            except ContinueEx:
                pass
            for n, sn in snaps.items():
                run.oblige(self._nm(interp, key, 'frame'), self._same(sn, fr.vars.get(n)), kind='frame',
                           meta=dict(self._meta(interp), note=f'iteration that stays in the loop modified {n}'))
            L1 = LoopCtx(interp, fr, key, seq, k + 1, pre)
            run.oblige(self._nm(interp, key, 'inv-pres'), self.invariant(L1), kind='inv-pres', meta=self._meta(interp))
            raise PathEnd('end of loop-body iteration')
        L = LoopCtx(interp, fr, key, seq, n, pre)
        self._check_frame(interp, s, fr, key, L)
        run.assume(self.invariant(L))
        if s.orelse:
            interp.exec_block(s.orelse, fr)


def lex_less(a, b):
    """a < b lexicographically (tuples of Int terms), all components bounded below by 0"""
    if not isinstance(a, (tuple, list)):
        a, b = (a,), (b,)
    terms = []
    eq_prefix = []
    for x, y in zip(a, b):
        x, y = to_z3(x), to_z3(y)
        terms.append(z3.And(*eq_prefix, x < y, y >= 0) if eq_prefix else z3.And(x < y, y >= 0))
        eq_prefix.append(x == y)
    return z3.Or(*terms)

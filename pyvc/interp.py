"""Symbolic interpreter for the accepted Python subset, executing /repo's real AST."""
from __future__ import annotations

import ast
from fractions import Fraction

import z3

from . import builtins_model as B
from .source import ClassInfo, FuncInfo, ModuleInfo, Program
from .values import (NOT_IMPLEMENTED, BoundMethod, ClassRef, ExcVal, Ext, FuncRef, Obj, Partial, PathEnd, PyFunc,
                     PyRaise, SSeq, Unsupported, Value, concrete, fresh_int, is_boollike, is_intlike, is_numlike,
                     is_sym_bool, is_z3, to_real, to_z3, z_and, z_eq, z_ite, z_not, z_or, zbool)


class ReturnEx(Exception):
    def __init__(self, value):
        self.value = value


class BreakEx(Exception):
    pass


class ContinueEx(Exception):
    pass


class Frame:
    def __init__(self, module: ModuleInfo, parent=None, func: FuncInfo | None = None, defcls: ClassInfo | None = None):
        self.vars: dict = {}
        self.module = module
        self.parent = parent
        self.func = func
        self.defcls = defcls
        self.loop_ordinal = 0

    def lookup(self, name):
        f = self
        while f is not None:
            if name in f.vars:
                return True, f.vars[name]
            f = f.parent
        return False, None


BUILTIN_EXC = {
    'BaseException': None, 'Exception': 'BaseException', 'ValueError': 'Exception', 'TypeError': 'Exception',
    'KeyError': 'LookupError', 'IndexError': 'LookupError', 'LookupError': 'Exception',
    'AttributeError': 'Exception', 'NotImplementedError': 'RuntimeError', 'RuntimeError': 'Exception',
    'AssertionError': 'Exception', 'ZeroDivisionError': 'ArithmeticError', 'ArithmeticError': 'Exception',
    'StopIteration': 'Exception', 'OverflowError': 'ArithmeticError',
}


def exc_matches(exc: ExcVal, handler) -> bool:
    """does `except handler` catch exc?  handler: str (builtin) | ClassInfo | tuple of those"""
    if isinstance(handler, tuple):
        return any(exc_matches(exc, h) for h in handler)
    if isinstance(handler, ClassRef):
        handler = handler.info
    if isinstance(handler, Ext):
        handler = handler.path.rsplit('.', 1)[-1]
    if isinstance(exc.cls, str):
        if not isinstance(handler, str):
            return False
        c = exc.cls
        while c is not None:
            if c == handler:
                return True
            c = BUILTIN_EXC.get(c)
        return False
    # repo exception class
    if isinstance(handler, ClassInfo):
        return handler in exc.cls.mro
    for c in exc.cls.mro:
        for b in c.bases:
            if isinstance(b, str):
                bn = b.rsplit('.', 1)[-1]
                k = bn
                while k is not None:
                    if k == handler:
                        return True
                    k = BUILTIN_EXC.get(k)
    return False


class Interp:
    def __init__(self, program: Program, run, theory=None, contracts=None, loop_specs=None, call_hook=None):
        self.P = program
        self.run = run
        self.theory = theory
        self.contracts = contracts or {}     # fullname -> callable(interp, funcinfo, self_val, args, kwargs) -> value
        self.loop_specs = loop_specs or {}   # (fullname, ordinal) -> spec
        self.call_hook = call_hook
        self.depth = 0
        self.modcache: dict = {}
        self.inlined: set = set()
        self.used_contracts: set = set()
        self.used_externals: set = set()

    # ================================================================== raising
    def raise_(self, name, *args):
        e = ExcVal(name, args)
        e.where = list(getattr(self, 'callstack', []))
        raise PyRaise(e)

    # ================================================================== names
    def module_global(self, m: ModuleInfo, name: str):
        key = (m.name, name)
        if key in self.modcache:
            return self.modcache[key]
        v = self._module_global(m, name)
        self.modcache[key] = v
        return v

    def _module_global(self, m: ModuleInfo, name: str):
        if self.theory is not None:
            ov = self.theory.module_override(self, m, name)
            if ov is not None:
                return ov
        if name in m.classes:
            return ClassRef(m.classes[name])
        if name in m.functions:
            return self.funcref(m.functions[name], None)
        if name in m.assigns:
            fr = Frame(m)
            return self.ev(m.assigns[name], fr)
        if name in m.imports:
            r = self.P.resolve_abs(m.imports[name])
            return self.wrap_resolved(r)
        raise KeyError(name)

    def wrap_resolved(self, r):
        if isinstance(r, ClassInfo):
            return ClassRef(r)
        if isinstance(r, FuncInfo):
            return self.funcref(r, None)
        if isinstance(r, ModuleInfo):
            return r
        if isinstance(r, tuple) and r[0] == 'modvar':
            return self.module_global(r[1], r[2])
        return self.ext(r)

    def ext(self, path: str):
        if self.theory is not None:
            v = self.theory.ext_value(self, path)
            if v is not None:
                return v
        return Ext(path)

    def funcref(self, fi: FuncInfo, frame):
        """module-level def: decorators such as jax.jit / jax.vmap / partial(jax.jit, ...) are handled by the theory"""
        return FuncRef(fi, frame)

    def lookup(self, name: str, frame: Frame):
        ok, v = frame.lookup(name)
        if ok:
            return v
        try:
            return self.module_global(frame.module, name)
        except KeyError:
            pass
        if name in B.BUILTINS:
            return B.BUILTINS[name]
        if name in BUILTIN_EXC:
            return Ext('builtins.' + name)
        raise Unsupported(f'unknown name {name!r} in {frame.module.name}')

    # ================================================================== truth
    def truth_term(self, v):
        """truthiness as bool / z3 Bool, no forking"""
        if isinstance(v, bool):
            return v
        if is_sym_bool(v):
            return v
        if v is None:
            return False
        if isinstance(v, (int, float, Fraction)):
            return v != 0
        if isinstance(v, (str, tuple, list, dict, set, range)):
            return len(v) > 0
        if isinstance(v, B.PyList):
            return self.truth_term(v.seq) if isinstance(v.seq, SSeq) else len(v.items) > 0
        if isinstance(v, SSeq):
            c = concrete(v.length)
            return (c > 0) if c is not None else to_z3(v.length) > 0
        if isinstance(v, z3.ArithRef):
            return v != 0
        if hasattr(v, 'truth'):
            return v.truth(self)
        if isinstance(v, (Obj, ClassRef, FuncRef, Ext, PyFunc, BoundMethod)):
            return True
        if is_z3(v):
            return True      # terms of uninterpreted sorts (objects)
        raise Unsupported(f'truth value of {v!r}')

    def truth(self, v) -> bool:
        return self.run.branch(self.truth_term(v))

    # ================================================================== expressions
    def ev(self, e, fr: Frame):
        m = getattr(self, 'ev_' + type(e).__name__, None)
        if m is None:
            raise Unsupported(f'expression {type(e).__name__}')
        return m(e, fr)

    def ev_Constant(self, e, fr):
        v = e.value
        if isinstance(v, float):
            return Fraction(v)
        return v

    def ev_Name(self, e, fr):
        return self.lookup(e.id, fr)

    def ev_Tuple(self, e, fr):
        out = []
        for x in e.elts:
            if isinstance(x, ast.Starred):
                out.extend(self.iter_concrete(self.ev(x.value, fr)))
            else:
                out.append(self.ev(x, fr))
        return tuple(out)

    def ev_List(self, e, fr):
        out = []
        for x in e.elts:
            if isinstance(x, ast.Starred):
                out.extend(self.iter_concrete(self.ev(x.value, fr)))
            else:
                out.append(self.ev(x, fr))
        return B.PyList(out)

    def ev_Set(self, e, fr):
        return B.make_set(self, [self.ev(x, fr) for x in e.elts])

    def ev_Dict(self, e, fr):
        if all(k is not None for k in e.keys):
            ks = [self.ev(k, fr) for k in e.keys]
            if any(is_z3(k) for k in ks):
                return B.SymDict(list(zip(ks, [self.ev(v, fr) for v in e.values])))
        d = {}
        for k, v in zip(e.keys, e.values):
            if k is None:
                d.update(self.ev(v, fr))
            else:
                d[self.ev(k, fr)] = self.ev(v, fr)
        return d

    def ev_JoinedStr(self, e, fr):
        if self.theory is not None:
            r = self.theory.joined_str(self, e, fr)      # string theories may give f-strings a value
            if r is not None:
                return r
        return B.OpaqueStr()

    def ev_Lambda(self, e, fr):
        fi = FuncInfo(fr.module.name, (fr.func.qualname + '.' if fr.func else '') + '<lambda>', e, fr.defcls,
                      'function')
        fi.early_defaults = self._eval_defaults(e.args, fr)
        return FuncRef(fi, fr)

    def _eval_defaults(self, a: ast.arguments, fr):
        """default values are evaluated once, when the def / lambda is executed (not at call time)"""
        return {id(d): self.ev(d, fr) for d in list(a.defaults) + [k for k in a.kw_defaults if k is not None]}

    def ev_NamedExpr(self, e, fr):
        v = self.ev(e.value, fr)
        # walrus inside a comprehension binds in the enclosing function scope
        f = fr
        while getattr(f, 'is_comp', False) and f.parent is not None:
            f = f.parent
        f.vars[e.target.id] = v
        return v

    def ev_IfExp(self, e, fr):
        c = self.truth_term(self.ev(e.test, fr))
        if isinstance(c, bool):
            return self.ev(e.body if c else e.orelse, fr)
        cc = concrete(c)
        if cc is not None:
            return self.ev(e.body if cc else e.orelse, fr)
        # evaluate both arms under their guard, merge scalars; fork otherwise
        pcl = len(self.run.pc)
        try:
            self.run.pc.append(c)
            a = self.ev(e.body, fr)
            del self.run.pc[pcl:]
            self.run.pc.append(z3.Not(c))
            b = self.ev(e.orelse, fr)
            del self.run.pc[pcl:]
            return z_ite(c, a, b)
        except Unsupported:
            del self.run.pc[pcl:]
        if self.run.branch(c):
            return self.ev(e.body, fr)
        return self.ev(e.orelse, fr)

    def ev_BoolOp(self, e, fr):
        is_and = isinstance(e.op, ast.And)
        pcl = len(self.run.pc)
        acc = []     # symbolic bool terms so far
        try:
            last = None
            for i, x in enumerate(e.values):
                v = self.ev(x, fr)
                last = v
                if i == len(e.values) - 1:
                    break
                t = self.truth_term(v)
                ct = concrete(t) if not isinstance(t, bool) else t
                if ct is not None:
                    if (is_and and not ct) or (not is_and and ct):
                        break                       # short circuit, value is v
                    last = None
                    continue
                if not is_boollike(v):
                    # `x or default` on non-boolean symbolic truth: fork
                    del self.run.pc[pcl:]
                    if self.run.branch(t) != is_and:
                        return v
                    pcl = len(self.run.pc)
                    continue
                acc.append(t)
                self.run.pc.append(t if is_and else z3.Not(t))
        finally:
            del self.run.pc[pcl:]
        if not acc:
            return last
        if last is None:
            last = is_and
        if not is_boollike(last):
            # value position: decide the symbolic prefix
            cond = z_and(*acc) if is_and else z_not(z_or(*acc))
            if self.run.branch(cond):
                return last
            return not is_and
        return z_and(*acc, last) if is_and else z_or(*acc, last)

    def ev_UnaryOp(self, e, fr):
        v = self.ev(e.operand, fr)
        return self.unop(e.op, v)

    def unop(self, op, v):
        if isinstance(op, ast.Not):
            return z_not(self.truth_term(v))
        if isinstance(v, Obj):
            name = {'USub': '__neg__', 'UAdd': '__pos__', 'Invert': '__invert__'}[type(op).__name__]
            return self.call_method(v, name, [], {})
        if hasattr(v, 'py_unop'):
            return v.py_unop(self, type(op).__name__)
        if is_z3(v) and not isinstance(v, (z3.ArithRef, z3.BoolRef)) and self.theory is not None:
            return self.theory.sort_unop(self, v, type(op).__name__)
        if isinstance(op, ast.USub):
            return -v
        if isinstance(op, ast.UAdd):
            return v
        raise Unsupported(f'unary {type(op).__name__} on {v!r}')

    def ev_BinOp(self, e, fr):
        a = self.ev(e.left, fr)
        b = self.ev(e.right, fr)
        return self.binop(type(e.op).__name__, a, b)

    DUNDER = {'Add': 'add', 'Sub': 'sub', 'Mult': 'mul', 'MatMult': 'matmul', 'Div': 'truediv', 'FloorDiv': 'floordiv',
              'Mod': 'mod', 'Pow': 'pow', 'BitAnd': 'and', 'BitOr': 'or', 'BitXor': 'xor'}

    def binop(self, op: str, a, b):
        # ---- python data model for repo objects
        if isinstance(a, Obj) or isinstance(b, Obj) or self._is_symobj(a) or self._is_symobj(b):
            return self.obj_binop(op, a, b)
        for x, refl in ((a, False), (b, True)):
            if hasattr(x, 'py_binop'):
                r = x.py_binop(self, op, b if not refl else a, refl)
                if r is not NOT_IMPLEMENTED:
                    return r
        return B.scalar_binop(self, op, a, b)

    def _is_symobj(self, v):
        return self.theory is not None and self.theory.is_symobj(v)

    def obj_binop(self, op, a, b):
        name = self.DUNDER[op]
        # reflected-first rule
        if isinstance(a, Obj) and isinstance(b, Obj) and b.cls is not a.cls and a.cls in b.cls.mro:
            lk = b.cls.lookup(f'__r{name}__')
            la = a.cls.lookup(f'__r{name}__')
            if lk is not None and (la is None or lk[0] is not la[0]):
                r = self.call_method(b, f'__r{name}__', [a], {})
                if r is not NOT_IMPLEMENTED:
                    return r
                r = self.try_method(a, f'__{name}__', [b])
                if r is not NOT_IMPLEMENTED:
                    return r
                self.raise_('TypeError')
        r = self.try_method(a, f'__{name}__', [b])
        if r is not NOT_IMPLEMENTED:
            return r
        r = self.try_method(b, f'__r{name}__', [a])
        if r is not NOT_IMPLEMENTED:
            return r
        self.raise_('TypeError')

    def try_method(self, obj, name, args):
        if isinstance(obj, Obj):
            if obj.cls.lookup(name) is None:
                if self.theory is not None:
                    return self.theory.missing_dunder(self, obj, name, args)
                return NOT_IMPLEMENTED
            return self.call_method(obj, name, args, {})
        if self._is_symobj(obj):
            return self.theory.symobj_dunder(self, obj, name, args)
        if hasattr(obj, 'py_dunder'):
            return obj.py_dunder(self, name, args)
        if self.theory is not None:
            return self.theory.foreign_dunder(self, obj, name, args)
        return NOT_IMPLEMENTED

    def ev_Compare(self, e, fr):
        left = self.ev(e.left, fr)
        terms = []
        for op, c in zip(e.ops, e.comparators):
            right = self.ev(c, fr)
            terms.append(self.compare(type(op).__name__, left, right))
            left = right
        if len(terms) == 1:
            return terms[0]
        return z_and(*[self.truth_term(t) for t in terms])

    def compare(self, op, a, b):
        if op == 'Is':
            return self.identical(a, b)
        if op == 'IsNot':
            return z_not(self.identical(a, b))
        if op == 'In':
            return B.contains(self, b, a)
        if op == 'NotIn':
            return z_not(B.contains(self, b, a))
        if op == 'Eq':
            return self.equals(a, b)
        if op == 'NotEq':
            # `!=` is its own dunder (__ne__): array-like values answer elementwise, not with a truth value
            for x, y in ((a, b), (b, a)):
                if hasattr(x, 'py_ne'):
                    r = x.py_ne(self, y)
                    if r is not NOT_IMPLEMENTED:
                        return r
            return z_not(self.truth_term(self.equals(a, b)))
        for x, refl in ((a, False), (b, True)):
            if hasattr(x, 'py_compare'):
                r = x.py_compare(self, op, b if not refl else a, refl)
                if r is not NOT_IMPLEMENTED:
                    return r
        return B.scalar_compare(self, op, a, b)

    def identical(self, a, b):
        if self.theory is not None:
            r = self.theory.identical(self, a, b)
            if r is not None:
                return r
        if is_z3(a) and is_z3(b) and a.sort() == b.sort() and not isinstance(a, (z3.ArithRef, z3.BoolRef)):
            return a == b
        if a is None or b is None or a is Ellipsis or b is Ellipsis or isinstance(a, bool) or isinstance(b, bool):
            if is_z3(a) or is_z3(b):
                if (a is None or b is None or a is Ellipsis or b is Ellipsis):
                    return False
                return z_eq(a, b)
            return a is b
        if isinstance(a, (ClassRef, Ext)) or isinstance(b, (ClassRef, Ext)):
            return a == b
        return a is b

    def equals(self, a, b):
        if isinstance(a, Obj) and a.cls.lookup('__eq__') is not None:
            return self.call_method(a, '__eq__', [b], {})
        for x, y in ((a, b), (b, a)):
            if hasattr(x, 'py_eq'):
                r = x.py_eq(self, y)
                if r is not NOT_IMPLEMENTED:
                    return r
        if self.theory is not None:
            r = self.theory.equals(self, a, b)
            if r is not None:
                return r
        if isinstance(a, B.PyList) or isinstance(b, B.PyList):
            if not (isinstance(a, B.PyList) and isinstance(b, B.PyList)):
                return False
            return z_eq(a.as_seq(), b.as_seq())
        if isinstance(a, slice) and isinstance(b, slice):
            return z_and(z_eq(a.start, b.start), z_eq(a.stop, b.stop), z_eq(a.step, b.step))
        if isinstance(a, slice) or isinstance(b, slice):
            return False
        if isinstance(a, Obj) or isinstance(b, Obj):
            return a is b
        return z_eq(a, b)

    def ev_Attribute(self, e, fr):
        v = self.ev(e.value, fr)
        return self.getattr(v, e.attr)

    def getattr(self, v, name: str):
        if isinstance(v, Obj):
            return self.obj_getattr(v, name)
        if isinstance(v, ClassRef):
            return self.class_getattr(v.info, name)
        if isinstance(v, ModuleInfo):
            try:
                return self.module_global(v, name)
            except KeyError:
                sub = self.P.modules.get(f'{v.name}.{name}')
                if sub is not None:
                    return sub
                raise Unsupported(f'module attribute {v.name}.{name}')
        if isinstance(v, Ext):
            return self.ext(f'{v.path}.{name}')
        if hasattr(v, 'py_getattr'):
            return v.py_getattr(self, name)
        if is_z3(v) and self.theory is not None:
            r = self.theory.sort_getattr(self, v, name)
            if r is not None:
                return r
        return B.builtin_getattr(self, v, name)

    def obj_getattr(self, o: Obj, name: str):
        if name in o.fields:
            return o.fields[name]
        if name == '__class__':
            return ClassRef(o.cls)
        lk = o.cls.lookup(name)
        if lk is None:
            if self.theory is not None:
                r = self.theory.obj_missing_attr(self, o, name)
                if r is not None:
                    return r
            self.raise_('AttributeError', name)
        owner, kind, payload = lk
        if kind == 'method':
            fi: FuncInfo = payload
            if fi.kind == 'property':
                return self.call_funcinfo(fi, [o], {}, defcls=owner)
            if fi.kind == 'cached_property':
                # functools.cached_property: computed on first access and STORED in the instance __dict__ (a write to
                # the object, also on frozen dataclasses / equinox modules); later accesses return the stored value
                key = f'__cached__{name}'
                if key in o.fields:
                    return o.fields[key]
                v = self.call_funcinfo(fi, [o], {}, defcls=owner)
                o.fields[key] = v
                if self.theory is not None and hasattr(self.theory, 'instance_cached'):
                    self.theory.instance_cached(self, o, name, v)
                return v
            if fi.kind == 'staticmethod':
                return FuncRef(fi, None)
            if fi.kind == 'classmethod':
                return BoundMethod(FuncRef(fi, None), ClassRef(o.cls), owner)
            return BoundMethod(FuncRef(fi, None), o, owner)
        if kind == 'patched':
            return self.bind_patched(payload, o, owner)
        # class-level attribute
        if self.is_dataclass_like(o.cls) and any(f.name == name and not f.classvar and not f.has_default
                                                 for c in o.cls.mro for f in c.fields):
            self.raise_('AttributeError', name)
        if isinstance(payload, ast.Name) and payload.id in owner.methods:     # `inverse = transpose` in a class body
            fi = owner.methods[payload.id]
            return BoundMethod(FuncRef(fi, None), o, owner)
        fr = Frame(self.P.modules[owner.module])
        return self.ev(payload, fr)

    def bind_patched(self, payload, o, owner):
        if isinstance(payload, FuncRef):
            return BoundMethod(payload, o, owner)
        if isinstance(payload, BoundMethod):     # e.g. cls.inverse = cls.transpose  (function object)
            return BoundMethod(payload.func, o, payload.defcls)
        if isinstance(payload, PyFunc):
            return BoundMethod(payload, o, owner)
        return payload

    def class_getattr(self, ci: ClassInfo, name: str):
        if name == '__name__':
            return ci.name
        lk = ci.lookup(name)
        if lk is None:
            if self.theory is not None:
                r = self.theory.class_missing_attr(self, ci, name)
                if r is not None:
                    return r
            self.raise_('AttributeError', name)
        owner, kind, payload = lk
        if kind == 'method':
            fi = payload
            if fi.kind == 'classmethod':
                return BoundMethod(FuncRef(fi, None), ClassRef(ci), owner)
            f = FuncRef(fi, None)
            f.defcls = owner
            return f
        if kind == 'patched':
            return payload
        if isinstance(payload, ast.Name) and payload.id in owner.methods:
            f = FuncRef(owner.methods[payload.id], None)
            f.defcls = owner
            return f
        fr = Frame(self.P.modules[owner.module])
        return self.ev(payload, fr)

    def ev_Subscript(self, e, fr):
        v = self.ev(e.value, fr)
        idx = self.ev_index(e.slice, fr)
        return self.getitem(v, idx)

    def ev_index(self, s, fr):
        if isinstance(s, ast.Slice):
            return slice(self.ev(s.lower, fr) if s.lower else None, self.ev(s.upper, fr) if s.upper else None,
                         self.ev(s.step, fr) if s.step else None)
        return self.ev(s, fr)

    def ev_Slice(self, s, fr):
        return self.ev_index(s, fr)

    def getitem(self, v, idx):
        if isinstance(v, Obj):
            return self.call_method(v, '__getitem__', [idx], {})
        if hasattr(v, 'py_getitem'):
            return v.py_getitem(self, idx)
        if isinstance(v, (ClassRef, Ext)) or (isinstance(v, PyFunc) and v.name in ('tuple', 'list', 'dict', 'type', 'set')):
            return v                       # Generic[T] subscripting: RuleRegistry[AbstractBinaryRule]
        if is_z3(v) and self.theory is not None:
            r = self.theory.sort_getitem(self, v, idx)
            if r is not None:
                return r
        return B.getitem(self, v, idx)

    def ev_Starred(self, e, fr):
        raise Unsupported('starred expression outside call/tuple')

    # ---------------------------------------------------------------- comprehensions
    def _comp(self, e, fr, elt_fn, kind):
        if len(e.generators) != 1:
            # nested generators: concrete only
            return self._comp_concrete(e, fr, elt_fn, kind)
        g = e.generators[0]
        it = self.ev(g.iter, fr)
        seq = B.as_seq_or_none(self, it)
        if seq is not None and not seq.is_concrete_len():
            if g.ifs:
                if self.theory is not None:
                    r = self.theory.filter_comprehension(self, e, g, seq, fr, elt_fn, kind)
                    if r is not None:
                        return r
                raise Unsupported('filtering comprehension over a symbolic-length sequence')

            def body(x):
                f2 = Frame(fr.module, fr, fr.func, fr.defcls)
                f2.is_comp = True
                self.assign(g.target, x, f2)
                return elt_fn(f2)
            res = seq.map(body, kind)
            if self.theory is not None:
                self.theory.after_seq_map(self, res, seq)
            return res
        return self._comp_concrete(e, fr, elt_fn, kind)

    def _comp_concrete(self, e, fr, elt_fn, kind):
        out = []

        def rec(gi, f):
            if gi == len(e.generators):
                out.append(elt_fn(f))
                return
            g = e.generators[gi]
            for x in self.iter_concrete(self.ev(g.iter, f)):
                f2 = Frame(f.module, f, f.func, f.defcls)
                f2.is_comp = True
                self.assign(g.target, x, f2)
                if all(self.truth(self.ev(c, f2)) for c in g.ifs):
                    rec(gi + 1, f2)
        rec(0, fr)
        return out

    def ev_ListComp(self, e, fr):
        r = self._comp(e, fr, lambda f: self.ev(e.elt, f), 'list')
        if isinstance(r, SSeq):
            return B.PyList(None, seq=r)
        return B.PyList(r)

    def ev_GeneratorExp(self, e, fr):
        r = self._comp(e, fr, lambda f: self.ev(e.elt, f), 'tuple')
        return B.GenV(r)

    def ev_SetComp(self, e, fr):
        r = self._comp(e, fr, lambda f: self.ev(e.elt, f), 'tuple')
        return B.make_set(self, r if isinstance(r, list) else r)

    def ev_DictComp(self, e, fr):
        r = self._comp_concrete(e, fr, lambda f: (self.ev(e.key, f), self.ev(e.value, f)), 'tuple')
        return dict(r)

    # ---------------------------------------------------------------- calls
    def ev_Call(self, e, fr):
        # super()
        if isinstance(e.func, ast.Name) and e.func.id == 'super' and not e.args:
            ok, s = fr.lookup('self')
            if not ok:
                ok, s = fr.lookup('cls')
            f = fr
            while f is not None and f.defcls is None:
                f = f.parent
            if f is None:
                raise Unsupported('super() outside a method')
            return B.SuperV(s, f.defcls)
        f = self.ev(e.func, fr)
        args = []
        for a in e.args:
            if isinstance(a, ast.Starred):
                sv = self.ev(a.value, fr)
                sq = B.as_seq_or_none(self, sv) if len(e.args) == 1 else None
                if sq is not None and not sq.is_concrete_len():
                    # f(*xs) with xs of symbolic length as the only positional argument: the callee's dependency
                    # contract (or its *args parameter) receives the whole sequence
                    args.append(B.StarArgs(sq))
                else:
                    args.extend(self.iter_concrete(sv))
            else:
                args.append(self.ev(a, fr))
        kwargs = {}
        for k in e.keywords:
            if k.arg is None:
                d = self.ev(k.value, fr)
                if not isinstance(d, dict):
                    raise Unsupported('** of a non-dict')
                kwargs.update(d)
            else:
                kwargs[k.arg] = self.ev(k.value, fr)
        return self.call(f, args, kwargs)

    def call(self, f, args, kwargs=None):
        kwargs = kwargs or {}
        if isinstance(f, BoundMethod):
            if isinstance(f.func, FuncRef):
                return self.call_funcinfo(f.func.info, [f.self_val] + list(args), kwargs, frame=f.func.frame,
                                          defcls=f.defcls)
            return self.call(f.func, [f.self_val] + list(args), kwargs)
        if isinstance(f, FuncRef):
            return self.call_funcinfo(f.info, list(args), kwargs, frame=f.frame, defcls=getattr(f, 'defcls', None))
        if isinstance(f, PyFunc):
            return f.fn(self, *args, **kwargs)
        if isinstance(f, Partial):
            return self.call(f.func, f.args + list(args), {**f.kwargs, **kwargs})
        if isinstance(f, ClassRef):
            return self.instantiate(f.info, args, kwargs)
        if isinstance(f, Ext):
            return self.call_ext(f.path, args, kwargs)
        if isinstance(f, Obj):
            return self.call_method(f, '__call__', args, kwargs)
        if hasattr(f, 'py_call'):
            return f.py_call(self, args, kwargs)
        if self._is_symobj(f):
            return self.theory.symobj_call(self, f, args, kwargs)
        raise Unsupported(f'call of {f!r}')

    def call_ext(self, path, args, kwargs):
        self.used_externals.add(path)
        if path.startswith('builtins.') and path[9:] in BUILTIN_EXC:
            return ExcVal(path[9:], args)
        if self.theory is not None:
            h = self.theory.external(path)
            if h is not None:
                return h(self, *args, **kwargs)
        raise Unsupported(f'external callable without dependency contract: {path}')

    def call_method(self, o, name, args, kwargs):
        m = self.getattr(o, name)
        return self.call(m, args, kwargs)

    def instantiate(self, ci: ClassInfo, args, kwargs):
        if self.theory is not None:
            r = self.theory.instantiate_override(self, ci, args, kwargs)
            if r is not None:
                return r
        # exception classes defined in the repo
        if any(isinstance(b, str) and b.rsplit('.', 1)[-1] in BUILTIN_EXC for c in ci.mro for b in c.bases):
            return ExcVal(ci, args)
        if self.P.is_abstract(ci):
            self.raise_('TypeError', 'abstract class')
        o = Obj(ci)
        lk = ci.lookup('__init__')
        if lk is not None:
            owner, kind, payload = lk
            if kind == 'method':
                self.call_funcinfo(payload, [o] + list(args), kwargs, defcls=owner)
            else:
                self.call(self.bind_patched(payload, o, owner), args, kwargs)
        else:
            self.dataclass_init(o, ci, args, kwargs)
        lk = ci.lookup('__post_init__')
        if lk is not None and lk[1] == 'method':
            self.call_funcinfo(lk[2], [o], {}, defcls=lk[0])
        if self.theory is not None:
            self.theory.after_init(self, o)
        return o

    def is_dataclass_like(self, ci: ClassInfo) -> bool:
        for c in ci.mro:
            for d in c.decorators:
                if ast.unparse(d).split('(')[0].rsplit('.', 1)[-1] in ('dataclass', 'pytree_dataclass'):
                    return True
        return any(b.rsplit('.', 1)[-1] in ('Module', 'AbstractLinearOperator') for b in ci.ext_bases)

    def dataclass_init(self, o: Obj, ci: ClassInfo, args, kwargs):
        if not self.is_dataclass_like(ci):
            if args or kwargs:
                self.raise_('TypeError', f'{ci.name}() takes no arguments')
            return
        flds = ci.all_fields()
        if not flds and (args or kwargs):
            self.raise_('TypeError', 'object() takes no arguments')
        if len(args) > len(flds):
            self.raise_('TypeError', 'too many positional arguments')
        vals = {}
        for f, a in zip(flds, args):
            vals[f.name] = a
        for k, v in kwargs.items():
            if k in vals or k not in {f.name for f in flds}:
                self.raise_('TypeError', f'unexpected/duplicate argument {k}')
            vals[k] = v
        for f in flds:
            if f.name not in vals:
                if f.has_default and f.default is not None:
                    vals[f.name] = self.ev(f.default, Frame(self.P.modules[ci.module]))
                elif f.has_default and getattr(f, 'factory', None) is not None:
                    # dataclass semantics: default_factory is called with no argument for every new instance
                    vals[f.name] = self.call(self.ev(f.factory, Frame(self.P.modules[ci.module])), [], {})
                elif f.has_default:
                    raise Unsupported('default_factory field')
                else:
                    self.raise_('TypeError', f'missing argument {f.name}')
        o.fields.update(vals)

    # ---------------------------------------------------------------- function bodies
    def bind_args(self, node: ast.arguments, args, kwargs, defframe: Frame, fname='?', early=None):
        out = {}
        params = list(node.posonlyargs) + list(node.args)
        defaults = [None] * (len(params) - len(node.defaults)) + list(node.defaults)
        args = list(args)
        kwargs = dict(kwargs)
        if len(args) == 1 and isinstance(args[0], B.StarArgs):
            if params or not node.vararg:
                raise Unsupported('f(*xs) with xs of symbolic length into named parameters')
            out[node.vararg.arg] = SSeq(args[0].seq.length, args[0].seq.get, 'tuple')
            args = []
        for p, d in zip(params, defaults):
            if args:
                if p.arg in kwargs:
                    self.raise_('TypeError', f'{fname}: multiple values for {p.arg}')
                out[p.arg] = args.pop(0)
            elif p.arg in kwargs and p not in node.posonlyargs:
                out[p.arg] = kwargs.pop(p.arg)
            elif d is not None:
                out[p.arg] = early[id(d)] if early is not None and id(d) in early else self.ev(d, defframe)
            else:
                self.raise_('TypeError', f'{fname}: missing argument {p.arg}')
        if node.vararg and node.vararg.arg in out:
            pass
        elif node.vararg:
            out[node.vararg.arg] = tuple(args)
            args = []
        elif args:
            self.raise_('TypeError', f'{fname}: too many positional arguments')
        for p, d in zip(node.kwonlyargs, node.kw_defaults):
            if p.arg in kwargs:
                out[p.arg] = kwargs.pop(p.arg)
            elif d is not None:
                out[p.arg] = early[id(d)] if early is not None and id(d) in early else self.ev(d, defframe)
            else:
                self.raise_('TypeError', f'{fname}: missing keyword argument {p.arg}')
        if node.kwarg:
            out[node.kwarg.arg] = kwargs
        elif kwargs:
            self.raise_('TypeError', f'{fname}: unexpected keyword argument {sorted(kwargs)}')
        return out

    def call_funcinfo(self, fi: FuncInfo, args, kwargs, frame=None, defcls=None):
        defcls = defcls or fi.cls
        full = fi.fullname
        if self.call_hook is not None:
            r = self.call_hook(self, fi, args, kwargs)
            if r is not None:
                return r[0]
        c = self.contracts.get(full)
        if c is not None and self.depth > 0:
            self.used_contracts.add(full)
            return c(self, fi, args, kwargs)
        if self.theory is not None and frame is None and fi.cls is None and fi.decorators:
            r = self.theory.decorated_function(self, fi, args, kwargs)
            if r is not None:
                return r[0]
        if self.depth > 60:
            raise Unsupported('recursion depth')
        module = self.P.modules[fi.module]
        defframe = frame if frame is not None else Frame(module)
        fr = Frame(module, frame, fi, defcls)
        fr.vars.update(self.bind_args(fi.node.args, args, kwargs, defframe, fi.qualname,
                                      getattr(fi, 'early_defaults', None)))
        if self.depth > 0:
            self.inlined.add(full)
        self.depth += 1
        if not hasattr(self, 'callstack'):
            self.callstack = []
        self.callstack.append((full, 0))
        if not hasattr(self, 'framestack'):
            self.framestack = []
        self.framestack.append(fr)          # (callee contracts may read ghost arguments from the caller's frame)
        try:
            if isinstance(fi.node, ast.Lambda):
                return self.ev(fi.node.body, fr)
            try:
                self.exec_block(fi.node.body, fr)
            except ReturnEx as r:
                return r.value
            return None
        finally:
            self.depth -= 1
            self.callstack.pop()
            self.framestack.pop()

    # ================================================================== statements
    def exec_block(self, stmts, fr):
        for s in stmts:
            self.exec_stmt(s, fr)

    def exec_stmt(self, s, fr):
        if getattr(self, 'callstack', None):
            self.callstack[-1] = (self.callstack[-1][0], getattr(s, 'lineno', 0))
        m = getattr(self, 'st_' + type(s).__name__, None)
        if m is None:
            raise Unsupported(f'statement {type(s).__name__}')
        return m(s, fr)

    def st_Expr(self, s, fr):
        if isinstance(s.value, ast.Constant):
            return
        self.ev(s.value, fr)

    def st_Pass(self, s, fr):
        pass

    def st_Return(self, s, fr):
        raise ReturnEx(self.ev(s.value, fr) if s.value is not None else None)

    def st_Break(self, s, fr):
        raise BreakEx()

    def st_Continue(self, s, fr):
        raise ContinueEx()

    def st_Import(self, s, fr):
        pass

    def st_ImportFrom(self, s, fr):
        # function-local import (CompositionOperator.reduce): bind names
        base = self.P._abs_module(fr.module, s.level, s.module)
        for a in s.names:
            fr.vars[a.asname or a.name] = self.wrap_resolved(self.P.resolve_abs(f'{base}.{a.name}'))

    def st_Assign(self, s, fr):
        v = self.ev(s.value, fr)
        for t in s.targets:
            self.assign(t, v, fr)

    def st_AnnAssign(self, s, fr):
        if s.value is not None:
            self.assign(s.target, self.ev(s.value, fr), fr)

    def st_AugAssign(self, s, fr):
        cur = self.ev(ast.copy_location(self._load(s.target), s.target), fr)
        v = self.ev(s.value, fr)
        opn = type(s.op).__name__
        # frame: `x += ...` on an array value that IS (same object) a field of some operator instance updates that
        # instance's data in place when the array is a mutable numpy.ndarray (jax arrays rebind, numpy arrays do not)
        if isinstance(s.target, ast.Name) and getattr(self.theory, 'array_like', None) is not None \
                and self.theory.array_like(cur):
            for o in Obj._live:
                for fname, fv in o.fields.items():
                    if fv is cur:
                        self.run.oblige(f'{self.cur_name()}/frame:no-in-place-update-of-{o.cls.name}.{fname}', False,
                                        kind='frame', meta=dict(self._scenario_meta(), note=(
                                            f'`{s.target.id} {ast.unparse(s.op) if hasattr(ast, "unparse") else ""}= ...` at '
                                            f'{fr.func.fullname if fr.func else "?"}:{s.lineno} updates in place the array '
                                            f'held by field {fname!r} of a {o.cls.name} when it is a numpy.ndarray')))
        if isinstance(cur, B.PyList) and opn == 'Add':
            cur.extend(self, v)
            return
        if isinstance(cur, Obj):
            lk = cur.cls.lookup('__i' + self.DUNDER[opn] + '__')
            if lk is not None:
                self.assign(s.target, self.call_method(cur, '__i' + self.DUNDER[opn] + '__', [v], {}), fr)
                return
        self.assign(s.target, self.binop(opn, cur, v), fr)

    def _scenario_meta(self):
        S = getattr(self.run, '_S', None)
        if S is None:
            return {}
        m = {'inputs': dict(S.inputs), 'func': S.func_name, 'scenario': S.label}
        if S.oracle:
            m['oracle'] = S.oracle
        return m

    @staticmethod
    def _load(t):
        t2 = ast.parse(ast.unparse(t), mode='eval').body
        return t2

    def assign(self, t, v, fr):
        if isinstance(t, ast.Name):
            fr.vars[t.id] = v
        elif isinstance(t, (ast.Tuple, ast.List)):
            star = [i for i, x in enumerate(t.elts) if isinstance(x, ast.Starred)]
            if star:
                i = star[0]
                seq = B.as_seq_or_none(self, v)
                if seq is None:
                    raise Unsupported('star-unpacking of a non-sequence')
                n_after = len(t.elts) - i - 1
                need = len(t.elts) - 1
                cl = concrete(seq.length)
                if cl is not None:
                    if cl < need:
                        self.raise_('ValueError', 'not enough values to unpack')
                else:
                    if not self.run.branch(to_z3(seq.length) >= need):
                        self.raise_('ValueError', 'not enough values to unpack')
                for j in range(i):
                    self.assign(t.elts[j], seq.get(j), fr)
                mid = seq.slice(i, seq.length - n_after if n_after else None)
                self.assign(t.elts[i].value, B.PyList(None, seq=mid) if cl is None else B.PyList(mid.py_items()), fr)
                for j in range(n_after):
                    self.assign(t.elts[i + 1 + j], seq.get(seq.length - n_after + j), fr)
                return
            items = self.iter_concrete(v, expect=len(t.elts))
            if len(items) != len(t.elts):
                self.raise_('ValueError', 'unpack length mismatch')
            for x, y in zip(t.elts, items):
                self.assign(x, y, fr)
        elif isinstance(t, ast.Attribute):
            o = self.ev(t.value, fr)
            self.setattr(o, t.attr, v)
        elif isinstance(t, ast.Subscript):
            o = self.ev(t.value, fr)
            idx = self.ev_index(t.slice, fr)
            self.setitem(o, idx, v)
        else:
            raise Unsupported(f'assignment target {type(t).__name__}')

    def setattr(self, o, name, v):
        if isinstance(o, Obj):
            o.fields[name] = v
            return
        if isinstance(o, ClassRef):
            if self.theory is not None and self.theory.class_setattr(self, o.info, name, v):
                return
            o.info.patched[name] = v
            return
        if hasattr(o, 'py_setattr'):
            return o.py_setattr(self, name, v)
        raise Unsupported(f'attribute assignment on {o!r}')

    def setitem(self, o, idx, v):
        if isinstance(o, B.PyList):
            return o.setitem(self, idx, v)
        if isinstance(o, dict):
            o[idx] = v
            return
        if hasattr(o, 'py_setitem'):
            return o.py_setitem(self, idx, v)
        raise Unsupported(f'item assignment on {o!r}')

    def st_If(self, s, fr):
        if self.truth(self.ev(s.test, fr)):
            self.exec_block(s.body, fr)
        else:
            self.exec_block(s.orelse, fr)

    def st_Assert(self, s, fr):
        if not self.truth(self.ev(s.test, fr)):
            self.raise_('AssertionError')

    def st_Raise(self, s, fr):
        if s.exc is None:
            raise Unsupported('bare raise')
        v = self.ev(s.exc, fr)
        if isinstance(v, ClassRef):
            v = self.instantiate(v.info, [], {})
        if isinstance(v, Ext):
            v = self.call_ext(v.path, [], {})
        if not isinstance(v, ExcVal):
            raise Unsupported(f'raise of {v!r}')
        raise PyRaise(v, where=(fr.func.fullname if fr.func else fr.module.name, s.lineno))

    def st_Try(self, s, fr):
        if s.finalbody:
            raise Unsupported('try/finally')
        try:
            self.exec_block(s.body, fr)
        except PyRaise as e:
            for h in s.handlers:
                ht = self.ev(h.type, fr) if h.type is not None else 'BaseException'
                if exc_matches(e.exc, ht):
                    if h.name:
                        fr.vars[h.name] = e.exc
                    self.exec_block(h.body, fr)
                    return
            raise
        else:
            self.exec_block(s.orelse, fr)

    def st_With(self, s, fr):
        if len(s.items) != 1:
            raise Unsupported('with: several items')
        it = s.items[0]
        cm = self.ev(it.context_expr, fr)
        ent = self.call_method(cm, '__enter__', [], {})
        if it.optional_vars is not None:
            self.assign(it.optional_vars, ent, fr)
        try:
            self.exec_block(s.body, fr)
        except PyRaise as e:
            r = self.call_method(cm, '__exit__', [e.exc, e.exc, None], {})
            if self.truth(r):
                return
            raise
        except (ReturnEx, BreakEx, ContinueEx):
            self.call_method(cm, '__exit__', [None, None, None], {})
            raise
        self.call_method(cm, '__exit__', [None, None, None], {})

    def st_FunctionDef(self, s, fr):
        fi = FuncInfo(fr.module.name, (fr.func.qualname + '.' if fr.func else '') + s.name, s, fr.defcls, 'function',
                      list(s.decorator_list))
        fi.early_defaults = self._eval_defaults(s.args, fr)
        f = FuncRef(fi, fr)
        for d in reversed(s.decorator_list):
            dv = self.ev(d, fr)
            f = self.call(dv, [f], {})
        fr.vars[s.name] = f

    def st_Delete(self, s, fr):
        raise Unsupported('del')

    def st_Global(self, s, fr):
        raise Unsupported('global')

    # ---------------------------------------------------------------- loops
    def _next_loop_key(self, fr):
        f = fr
        while f.func is None and f.parent is not None:
            f = f.parent
        # ordinal = position of this loop node in a pre-order walk of the function body
        return f

    def loop_key(self, s, fr):
        fi = fr.func
        if fi is None:
            return None
        if not hasattr(fi, '_loops'):
            fi._loops = [n for n in ast.walk(fi.node) if isinstance(n, (ast.For, ast.While))]
            fi._loops.sort(key=lambda n: (n.lineno, n.col_offset))
        for i, n in enumerate(fi._loops):
            if n is s:
                return (fi.fullname, i)
        return None

    def st_While(self, s, fr):
        key = self.loop_key(s, fr)
        spec = self.loop_specs.get(key)
        if spec is not None:
            return spec.run_while(self, s, fr, key)
        # concrete unrolling (condition must stay decidable)
        n = 0
        while True:
            if not self.truth(self.ev(s.test, fr)):
                self.exec_block(s.orelse, fr)
                return
            try:
                self.exec_block(s.body, fr)
            except BreakEx:
                return
            except ContinueEx:
                pass
            n += 1
            if n > 200:
                raise Unsupported('while loop without invariant did not terminate in 200 unrollings')

    def st_For(self, s, fr):
        key = self.loop_key(s, fr)
        spec = self.loop_specs.get(key)
        it = self.ev(s.iter, fr)
        if spec is not None:
            return spec.run_for(self, s, fr, key, it)
        seq = B.as_seq_or_none(self, it)
        if seq is not None and not seq.is_concrete_len():
            return self.stateless_for(s, fr, seq, key)
        for x in self.iter_concrete(it):
            self.assign(s.target, x, fr)
            try:
                self.exec_block(s.body, fr)
            except BreakEx:
                return
            except ContinueEx:
                continue
        self.exec_block(s.orelse, fr)

    @staticmethod
    def _later_reads(func_node, end_lineno):
        """names read after line `end_lineno` in the function, not counting names that a comprehension re-binds for itself"""
        out = set()

        def visit(n, shadow):
            if isinstance(n, (ast.ListComp, ast.SetComp, ast.GeneratorExp, ast.DictComp)):
                own = {t.id for g in n.generators for t in ast.walk(g.target) if isinstance(t, ast.Name)}
                for g in n.generators:
                    visit(g.iter, shadow)           # (the first iterable is evaluated outside; harmless over-approximation)
                    for c in g.ifs:
                        visit(c, shadow | own)
                for part in ([n.elt] if not isinstance(n, ast.DictComp) else [n.key, n.value]):
                    visit(part, shadow | own)
                return
            if isinstance(n, ast.Name) and isinstance(n.ctx, ast.Load) and getattr(n, 'lineno', 0) > end_lineno \
                    and n.id not in shadow:
                out.add(n.id)
            for ch in ast.iter_child_nodes(n):
                visit(ch, shadow)
        visit(func_node, frozenset())
        return out

    # ---- search loops: `for x in seq: if c(x): return v` executed as `if any(c(x) for x in seq): return v`
    def _search_loop(self, s, fr):
        """body = optional local bindings, then ONE `if c: return v` (no else) where v does not depend on the loop variable
        or on the bindings: the loop returns v iff some element satisfies c, and falls through otherwise.  Returns
        (ast of `any(c for x in seq)`, the Return node) or None."""
        import copy
        if s.orelse:
            return None
        env, body = {}, list(s.body)

        class Sub(ast.NodeTransformer):
            def visit_Name(self, n):
                if isinstance(n.ctx, ast.Load) and n.id in env:
                    return copy.deepcopy(env[n.id])
                return n
        while body and isinstance(body[0], ast.Assign) and len(body[0].targets) == 1 and isinstance(body[0].targets[0], ast.Name):
            env[body[0].targets[0].id] = Sub().visit(copy.deepcopy(body[0].value))
            body = body[1:]
        if len(body) != 1 or not isinstance(body[0], ast.If) or body[0].orelse or len(body[0].body) != 1 \
                or not isinstance(body[0].body[0], ast.Return):
            return None
        ret = body[0].body[0]
        local = set(env) | {n.id for n in ast.walk(s.target) if isinstance(n, ast.Name)}
        if ret.value is not None and any(isinstance(n, ast.Name) and n.id in local for n in ast.walk(ret.value)):
            return None
        if fr.func is not None:
            later = self._later_reads(fr.func.node, s.end_lineno)
            if local & later:
                return None
        test = Sub().visit(copy.deepcopy(body[0].test))
        gen = ast.GeneratorExp(elt=test, generators=[ast.comprehension(target=copy.deepcopy(s.target),
                                                                        iter=copy.deepcopy(s.iter), ifs=[], is_async=0)])
        call = ast.Call(func=ast.Name(id='any', ctx=ast.Load()), args=[gen], keywords=[])
        ast.copy_location(call, s)
        ast.fix_missing_locations(call)
        return call, ret

    # ---- append loops: `for x in seq: ... lst.append(e)` executed as the equivalent comprehension
    def _append_loop(self, s, fr):
        """A loop whose body only binds locals and, in tail position of every path, appends at most one value to ONE list
        (`if c: continue` guards allowed) is `lst.extend([ELT for x in seq if KEEP])`: ELT / KEEP are assembled from the
        body by substituting the local bindings (assumed side-effect free, as in a comprehension).  Returns
        (list name, ast.ListComp) or None when the body has another shape."""
        import copy
        if s.orelse:
            return None
        names = {'lst': None}
        bound = set()

        class Sub(ast.NodeTransformer):
            def __init__(self, env):
                self.env = env

            def visit_Name(self, n):
                if isinstance(n.ctx, ast.Load) and n.id in self.env:
                    return copy.deepcopy(self.env[n.id])
                return n

        def subst(e, env):
            return Sub(env).visit(copy.deepcopy(e)) if env else copy.deepcopy(e)

        def conj(a, b):
            if a is None:
                return b
            if b is None:
                return a
            return ast.BoolOp(op=ast.And(), values=[a, b])

        def neg(c):
            return ast.UnaryOp(op=ast.Not(), operand=c)

        total = {'all_paths_append': True}

        def tr(stmts, env):
            env = dict(env)
            for i, st in enumerate(stmts):
                last = i == len(stmts) - 1
                if isinstance(st, ast.Assign) and len(st.targets) == 1 and isinstance(st.targets[0], ast.Name):
                    env[st.targets[0].id] = subst(st.value, env)
                    bound.add(st.targets[0].id)
                    continue
                if isinstance(st, ast.Expr) and isinstance(st.value, ast.Call) and isinstance(st.value.func, ast.Attribute) \
                        and st.value.func.attr in ('append', 'add') and isinstance(st.value.func.value, ast.Name) \
                        and len(st.value.args) == 1 and not st.value.keywords:
                    if not last or names['lst'] not in (None, st.value.func.value.id) \
                            or names.get('method') not in (None, st.value.func.attr):
                        return None
                    names['lst'] = st.value.func.value.id
                    names['method'] = st.value.func.attr
                    return [(None, subst(st.value.args[0], env))]
                if isinstance(st, ast.If):
                    c = subst(st.test, env)
                    if len(st.body) == 1 and isinstance(st.body[0], ast.Continue) and not st.orelse:
                        total['all_paths_append'] = False
                        rest = tr(stmts[i + 1:], env)
                        return None if rest is None else [(conj(neg(c), g), e) for g, e in rest]
                    if not last:
                        return None
                    a, b = tr(st.body, env), tr(st.orelse, env) if st.orelse else []
                    if a is None or b is None:
                        return None
                    if not st.orelse:
                        total['all_paths_append'] = False
                    return [(conj(c, g), e) for g, e in a] + [(conj(neg(copy.deepcopy(c)), g), e) for g, e in b]
                if isinstance(st, ast.Pass):
                    continue
                return None
            total['all_paths_append'] = False           # fell off the end of a block without appending
            return []
        alts = tr(s.body, {})
        if not alts or names['lst'] is None:
            return None
        if any(names['lst'] == n.id for n in ast.walk(ast.Module(body=[ast.Expr(value=e) for _, e in alts], type_ignores=[]))
               if isinstance(n, ast.Name)):
            return None                     # the appended value reads the list being built
        # names bound in the body (and the loop target) must not be read after the loop
        target_names = {n.id for n in ast.walk(s.target) if isinstance(n, ast.Name)}
        if fr.func is not None:
            later = self._later_reads(fr.func.node, s.end_lineno)
            if (bound | target_names) & later:
                return None
        elt = alts[-1][1]
        for g, e in reversed(alts[:-1]):
            elt = e if g is None else ast.IfExp(test=copy.deepcopy(g), body=e, orelse=elt)
        keep = None
        if not total['all_paths_append'] and all(g is not None for g, _ in alts):
            keep = alts[0][0] if len(alts) == 1 else ast.BoolOp(op=ast.Or(), values=[copy.deepcopy(g) for g, _ in alts])
        kind = ast.SetComp if names.get('method') == 'add' else ast.ListComp      # `s.add(e)` loops build a set comprehension
        comp = kind(elt=elt, generators=[ast.comprehension(target=copy.deepcopy(s.target), iter=copy.deepcopy(s.iter),
                                                           ifs=[keep] if keep is not None else [], is_async=0)])
        ast.copy_location(comp, s)
        ast.fix_missing_locations(comp)
        return names['lst'], comp

    def stateless_for(self, s, fr, seq: SSeq, key):
        """`for x in seq:` over a symbolic-length sequence whose body carries no state to the next
        iteration or past the loop (it only raises or falls through).  Rule: either some first
        position k raises (all earlier ones fall through), or every position falls through.
        The side condition (no assignment visible after the loop other than loop-local names) is
        checked syntactically."""
        assigned = set()
        for n in ast.walk(ast.Module(body=s.body, type_ignores=[])):
            if isinstance(n, ast.Name) and isinstance(n.ctx, ast.Store):
                assigned.add(n.id)
            if isinstance(n, (ast.Break, ast.Return)):
                sr = self._search_loop(s, fr)
                if sr is not None:
                    test, ret = sr
                    if self.truth(self.ev(test, fr)):
                        raise ReturnEx(self.ev(ret.value, fr) if ret.value is not None else None)
                    return
                raise Unsupported('symbolic-length for loop with break/return needs a loop contract')
            if isinstance(n, ast.Call) and isinstance(n.func, ast.Attribute) and n.func.attr in (
                    'append', 'extend', 'add', 'update', 'pop', 'insert', 'remove'):
                al = self._append_loop(s, fr)
                if al is not None:
                    lst_name, comp = al
                    cur = self.lookup(lst_name, fr)
                    if isinstance(comp, ast.SetComp):
                        # only for a set that is still empty: it IS the comprehension afterwards
                        if isinstance(cur, B.SetV) and cur.items is not None and len(cur.items) == 0:
                            ok_, _ = fr.lookup(lst_name)
                            f_ = fr
                            while f_ is not None and lst_name not in f_.vars:
                                f_ = f_.parent
                            (f_ or fr).vars[lst_name] = self.ev(comp, fr)
                            return
                        raise Unsupported('set.add loop on a set that is not empty')
                    self.call(self.getattr(cur, 'extend'), [self.ev(comp, fr)])
                    return
                raise Unsupported('symbolic-length for loop mutating a container needs a loop contract')
        for n in ast.walk(s.target):
            if isinstance(n, ast.Name):
                assigned.add(n.id)
        # counting loop: `for x in seq: if c(x): n += 1`  is  `n += sum(c(x) for x in seq)`
        if len(s.body) == 1 and isinstance(s.body[0], ast.If) and not s.body[0].orelse and len(s.body[0].body) == 1 \
                and isinstance(s.body[0].body[0], ast.AugAssign) and isinstance(s.body[0].body[0].op, ast.Add) \
                and isinstance(s.body[0].body[0].target, ast.Name) and isinstance(s.body[0].body[0].value, ast.Constant) \
                and s.body[0].body[0].value.value == 1 and not s.orelse:
            import copy
            cnt = s.body[0].body[0].target.id
            gen = ast.GeneratorExp(elt=copy.deepcopy(s.body[0].test), generators=[ast.comprehension(
                target=copy.deepcopy(s.target), iter=copy.deepcopy(s.iter), ifs=[], is_async=0)])
            stmt = ast.AugAssign(target=ast.Name(id=cnt, ctx=ast.Store()), op=ast.Add(),
                                 value=ast.Call(func=ast.Name(id='sum', ctx=ast.Load()), args=[gen], keywords=[]))
            ast.copy_location(stmt, s)
            ast.fix_missing_locations(stmt)
            return self.exec_stmt(stmt, fr)
        # accumulation loop: `for x in seq: acc += e(x)` / `acc *= e(x)` (e does not read acc)  is
        # `acc += sum(e(x) for x in seq)` / `acc *= math.prod(e(x) for x in seq)` — integer / real arithmetic is associative
        # and commutative in the models (floats are reals)
        if len(s.body) == 1 and isinstance(s.body[0], ast.AugAssign) and isinstance(s.body[0].op, (ast.Add, ast.Mult)) \
                and isinstance(s.body[0].target, ast.Name) and not s.orelse \
                and not any(isinstance(n, ast.Name) and n.id == s.body[0].target.id for n in ast.walk(s.body[0].value)):
            import copy
            acc, op = s.body[0].target.id, s.body[0].op
            ok, cur = fr.lookup(acc)
            if ok and (B.is_intlike(cur) or B.is_numlike(cur)):
                gen = ast.GeneratorExp(elt=copy.deepcopy(s.body[0].value), generators=[ast.comprehension(
                    target=copy.deepcopy(s.target), iter=copy.deepcopy(s.iter), ifs=[], is_async=0)])
                fn = 'sum' if isinstance(op, ast.Add) else '__vf_prod__'
                stmt = ast.AugAssign(target=ast.Name(id=acc, ctx=ast.Store()), op=type(op)(),
                                     value=ast.Call(func=ast.Name(id=fn, ctx=ast.Load()), args=[gen], keywords=[]))
                ast.copy_location(stmt, s)
                ast.fix_missing_locations(stmt)
                return self.exec_stmt(stmt, fr)
        # names assigned in the body must not be read after the loop in this function
        fi = fr.func
        if fi is not None:
            after = False
            for n in ast.walk(fi.node):
                pass
            later_reads = set()
            end = s.end_lineno
            for n in ast.walk(fi.node):
                if isinstance(n, ast.Name) and isinstance(n.ctx, ast.Load) and n.lineno > end:
                    later_reads.add(n.id)
            _ = after
            if assigned & later_reads:
                raise Unsupported(f'symbolic-length for loop carries state {sorted(assigned & later_reads)}')
        if s.orelse:
            raise Unsupported('for/else over symbolic-length sequence needs a loop contract')
        which = self.run.decide(2)
        if which == 0:
            # some iteration raises: k is the first such position
            k = fresh_int('it')
            self.run.assume(z3.And(k >= 0, k < to_z3(seq.length)))
            # all earlier iterations fall through
            self.run.assume(self._falls_through_all(s, fr, seq, k))
            self.assign(s.target, seq.get(k), fr)
            try:
                self.exec_block(s.body, fr)
            except ContinueEx:
                raise PathEnd('iteration falls through')
            raise PathEnd('iteration falls through')     # only raising continuations survive (PyRaise propagates)
        else:
            self.run.assume(self._falls_through_all(s, fr, seq, seq.length))
            for n in assigned:
                fr.vars.pop(n, None)

    def _falls_through_all(self, s, fr, seq, hi):
        """∀ j < hi: the body at element j does not raise — computed by exploring the body at a
        symbolic position j in a sub-exploration and collecting the path conditions that end normally"""
        from .run import explore
        j = z3.Int('j!ft%d' % id(s))
        outer_pc = list(self.run.pc)
        outer_ax = list(self.run.axioms)

        def thunk(run2):
            sub = Interp(self.P, run2, self.theory, self.contracts, self.loop_specs, self.call_hook)
            sub.depth = self.depth
            sub.modcache = self.modcache
            for p in outer_pc:
                run2.pc.append(p)
            run2.pc.append(z3.And(j >= 0, j < to_z3(hi)))
            f2 = Frame(fr.module, fr.parent, fr.func, fr.defcls)
            f2.vars = dict(fr.vars)
            sub.assign(s.target, seq.get(j), f2)
            try:
                sub.exec_block(s.body, f2)
            except ContinueEx:
                pass
            return None
        res = explore(thunk, outer_ax, nested=True)
        n0 = len(outer_pc) + 1
        normal = []
        for r in res:
            if r.outcome[0] == 'unsupported':
                raise Unsupported(r.outcome[1])
            if r.outcome[0] == 'return':
                normal.append(z_and(*r.pc[n0:]))
        cond = z_or(*normal)
        if cond is True:
            return True
        if cond is False:
            cond = z3.BoolVal(False)
        return z3.ForAll([j], z3.Implies(z3.And(j >= 0, j < to_z3(hi)), cond))

    def explore_at(self, fn, lo=0, hi=None, tag='gen'):
        """run fn(sub_interp, j) at a symbolic position j in [lo, hi) in a nested exploration under the current path
        condition; returns (j, [(condition over j, ('return', value) | ('raise', exc))])"""
        from .run import explore
        self._gen = getattr(self, '_gen', 0) + 1
        j = z3.Int(f'j!{tag}{self._gen}')
        outer_pc = list(self.run.pc)
        outer_ax = list(self.run.axioms)

        def thunk(run2):
            sub = Interp(self.P, run2, self.theory, self.contracts, self.loop_specs, self.call_hook)
            sub.depth = self.depth
            sub.modcache = self.modcache
            sub.obl_prefix = getattr(self, 'obl_prefix', '')
            sub.cur_name = self.cur_name
            run2._S = getattr(self.run, '_S', None)
            for p in outer_pc:
                run2.pc.append(p)
            rng = z3.And(j >= to_z3(lo), j < to_z3(hi)) if hi is not None else (j >= to_z3(lo))
            run2.pc.append(rng)
            return fn(sub, j)
        res = explore(thunk, outer_ax, nested=True)
        n0 = len(outer_pc) + 1
        out = []
        for r in res:
            if r.outcome[0] == 'unsupported':
                raise Unsupported(r.outcome[1])
            if r.outcome[0] == 'end':
                continue
            for ob in r.obligations:
                self.run.obligations.append(ob)      # obligations met at the generic position stay obligations
            out.append((z_and(*r.pc[n0:]), r.outcome))
        return j, out

    # ---------------------------------------------------------------- iteration helpers
    def iter_concrete(self, v, expect=None):
        if isinstance(v, (tuple, list)):
            return list(v)
        if isinstance(v, (range,)):
            return list(v)
        if isinstance(v, str):
            return list(v)
        if isinstance(v, dict):
            return list(v.keys())
        if isinstance(v, B.PyList):
            if v.seq is not None:
                return v.seq.py_items()
            return list(v.items)
        if isinstance(v, B.GenV):
            return v.items(self)
        if isinstance(v, SSeq):
            return v.py_items()
        if hasattr(v, 'py_iter'):
            return v.py_iter(self, expect)
        if isinstance(v, Obj) and v.cls.lookup('__iter__') is not None:
            return self.iter_concrete(self.call_method(v, '__iter__', [], {}))
        if is_z3(v) and self.theory is not None:
            r = self.theory.sort_iter(self, v, expect)
            if r is not None:
                return r
        raise Unsupported(f'iteration over {v!r}')

"""Loader: re-reads /repo/src/furax on every run and builds the module / class / function tables the
symbolic executor works on.  Nothing of furax is imported; only the source text is parsed.

What the extraction drops (and nothing else): type annotations (kept only to learn field names and
``equinox.field(static=True)``), docstrings, comments, ``@overload`` stubs, ``__all__``,
``if sys.version_info`` import shims (both arms are scanned for imports), the text of messages.
"""
from __future__ import annotations

import ast
import hashlib
import os
from dataclasses import dataclass, field

REPO = os.environ.get('VF_REPO', '/repo')
SRC_ROOT = os.path.join(REPO, 'src')
PKG = 'furax'


@dataclass
class FuncInfo:
    module: str
    qualname: str            # e.g. 'RavelOperator.__init__' or 'dense_symmetric_band_toeplitz'
    node: ast.FunctionDef | ast.Lambda
    cls: 'ClassInfo | None' = None
    kind: str = 'function'   # function | method | staticmethod | classmethod | property
    decorators: list = field(default_factory=list)

    @property
    def fullname(self) -> str:
        return f'{self.module}.{self.qualname}'

    @property
    def name(self) -> str:
        return self.qualname.rsplit('.', 1)[-1]


@dataclass
class FieldInfo:
    name: str
    static: bool
    classvar: bool
    has_default: bool
    default: ast.expr | None
    annotation: str
    owner: str
    factory: ast.expr | None = None     # default_factory=<expr> of dataclasses.field / equinox.field
    options: dict = field(default_factory=dict)   # every keyword of field(...): name -> constant value, else the ast node


@dataclass
class ClassInfo:
    module: str
    name: str
    node: ast.ClassDef
    base_exprs: list            # ast nodes
    bases: list = field(default_factory=list)        # resolved: ClassInfo or str (external dotted path)
    mro: list = field(default_factory=list)          # list[ClassInfo] (repo classes only, C3)
    ext_bases: list = field(default_factory=list)    # external dotted names anywhere up the hierarchy
    methods: dict = field(default_factory=dict)      # name -> FuncInfo   (own)
    attrs: dict = field(default_factory=dict)        # name -> ast.expr   (own class-level assignments)
    fields: list = field(default_factory=list)       # own annotated fields (FieldInfo)
    decorators: list = field(default_factory=list)   # ast nodes, in source order (top first)
    patched: dict = field(default_factory=dict)      # name -> value, filled by decorator execution

    @property
    def fullname(self) -> str:
        return f'{self.module}.{self.name}'

    def __hash__(self):
        return hash(self.fullname)

    def __eq__(self, other):
        return isinstance(other, ClassInfo) and other.fullname == self.fullname

    def __repr__(self):
        return f'<class {self.fullname}>'

    def is_subclass(self, other: 'ClassInfo') -> bool:
        return other in self.mro

    def has_ext_base(self, dotted: str) -> bool:
        return any(b == dotted or b.endswith('.' + dotted) for b in self.ext_bases)

    def all_fields(self) -> list:
        """dataclass field order: base classes first (reverse MRO), later definitions override in place"""
        out: dict = {}
        for c in reversed(self.mro):
            for f in c.fields:
                if f.classvar:
                    continue
                out[f.name] = f
        return list(out.values())

    def lookup(self, name: str):
        """(owner ClassInfo, kind, payload) following the MRO, honouring decorator patches"""
        for c in self.mro:
            if name in c.patched:
                return c, 'patched', c.patched[name]
            if name in c.methods:
                return c, 'method', c.methods[name]
            if name in c.attrs:
                return c, 'attr', c.attrs[name]
        return None


@dataclass
class ModuleInfo:
    name: str
    path: str
    tree: ast.Module
    imports: dict = field(default_factory=dict)     # local name -> dotted target
    classes: dict = field(default_factory=dict)
    functions: dict = field(default_factory=dict)
    assigns: dict = field(default_factory=dict)     # module-level name -> ast.expr (last assignment)
    body_calls: list = field(default_factory=list)  # module-level expression statements (calls)
    sha: str = ''


class Program:
    def __init__(self, src_root: str = SRC_ROOT):
        self.src_root = src_root
        self.modules: dict[str, ModuleInfo] = {}
        self.classes: dict[str, ClassInfo] = {}      # fullname -> ClassInfo
        self.class_order: list[ClassInfo] = []       # definition order per import order (approx.)
        self._load()
        self._resolve()

    # ------------------------------------------------------------------ loading
    def _load(self) -> None:
        root = os.path.join(self.src_root, PKG)
        for dirpath, _dirs, files in sorted(os.walk(root)):
            for fn in sorted(files):
                if not fn.endswith('.py'):
                    continue
                path = os.path.join(dirpath, fn)
                rel = os.path.relpath(path, self.src_root)[:-3].replace(os.sep, '.')
                if rel.endswith('.__init__'):
                    rel = rel[: -len('.__init__')]
                text = open(path).read()
                tree = ast.parse(text, filename=path)
                m = ModuleInfo(rel, path, tree, sha=hashlib.sha256(text.encode()).hexdigest())
                m.is_pkg = fn == '__init__.py'
                self.modules[rel] = m
                self._scan_module(m)

    def _abs_module(self, m: ModuleInfo, level: int, module: str | None) -> str:
        if level == 0:
            return module or ''
        parts = m.name.split('.')
        if not getattr(m, 'is_pkg', False):
            parts = parts[:-1]
        if level > 1:
            parts = parts[: -(level - 1)]
        base = '.'.join(parts)
        return f'{base}.{module}' if module else base

    def _scan_imports(self, m: ModuleInfo, stmts) -> None:
        for s in stmts:
            if isinstance(s, ast.Import):
                for a in s.names:
                    if a.asname:
                        m.imports[a.asname] = a.name
                    else:
                        m.imports[a.name.split('.')[0]] = a.name.split('.')[0]
            elif isinstance(s, ast.ImportFrom):
                base = self._abs_module(m, s.level, s.module)
                for a in s.names:
                    m.imports[a.asname or a.name] = f'{base}.{a.name}'
            elif isinstance(s, ast.If):
                self._scan_imports(m, s.body)
                self._scan_imports(m, s.orelse)

    def _scan_module(self, m: ModuleInfo) -> None:
        self._scan_imports(m, m.tree.body)
        for s in m.tree.body:
            if isinstance(s, ast.ClassDef):
                ci = self._scan_class(m, s)
                m.classes[s.name] = ci
                self.classes[ci.fullname] = ci
            elif isinstance(s, ast.FunctionDef):
                decs = [ast.unparse(d) for d in s.decorator_list]
                m.functions[s.name] = FuncInfo(m.name, s.name, s, None, 'function', list(s.decorator_list))
                _ = decs
            elif isinstance(s, ast.Assign) and len(s.targets) == 1 and isinstance(s.targets[0], ast.Name):
                m.assigns[s.targets[0].id] = s.value
            elif isinstance(s, ast.Assign) and len(s.targets) == 1 and isinstance(s.targets[0], ast.Tuple):
                m.assigns[ast.unparse(s.targets[0])] = s.value
            elif isinstance(s, ast.AnnAssign) and isinstance(s.target, ast.Name) and s.value is not None:
                m.assigns[s.target.id] = s.value
            elif isinstance(s, ast.Expr) and isinstance(s.value, ast.Call):
                m.body_calls.append(s.value)

    def _scan_class(self, m: ModuleInfo, node: ast.ClassDef) -> ClassInfo:
        ci = ClassInfo(m.name, node.name, node, list(node.bases), decorators=list(node.decorator_list))
        for s in node.body:
            if isinstance(s, ast.FunctionDef):
                decs = [ast.unparse(d) for d in s.decorator_list]
                if any(d.endswith('overload') for d in decs):
                    continue          # typing stubs: dropped
                kind = 'method'
                if 'staticmethod' in decs:
                    kind = 'staticmethod'
                elif 'classmethod' in decs:
                    kind = 'classmethod'
                elif 'property' in decs:
                    kind = 'property'
                elif any(d.split('.')[-1] == 'cached_property' for d in decs):
                    kind = 'cached_property'
                fi = FuncInfo(m.name, f'{node.name}.{s.name}', s, ci, kind, list(s.decorator_list))
                ci.methods[s.name] = fi
            elif isinstance(s, ast.AnnAssign) and isinstance(s.target, ast.Name):
                ann = ast.unparse(s.annotation)
                classvar = ann.startswith('ClassVar')
                static = False
                has_default = s.value is not None
                default = s.value
                factory = None
                options = {}
                if s.value is not None and isinstance(s.value, ast.Call) and ast.unparse(s.value.func) in (
                        'equinox.field', 'eqx.field', 'field', 'dataclasses.field'):
                    kw = {k.arg: k.value for k in s.value.keywords}
                    options = {k: (v.value if isinstance(v, ast.Constant) else v) for k, v in kw.items() if k}
                    static = isinstance(kw.get('static'), ast.Constant) and kw['static'].value is True
                    has_default = 'default' in kw or 'default_factory' in kw
                    default = kw.get('default')
                    factory = kw.get('default_factory')
                ci.fields.append(FieldInfo(s.target.id, static, classvar, has_default, default, ann, node.name,
                                           factory, options))
                if s.value is not None and (classvar or not isinstance(s.value, ast.Call) or not static):
                    # class-level value (ClassVar constants, defaults, `operator_class: ... = None`)
                    if not (isinstance(s.value, ast.Call) and ast.unparse(s.value.func).endswith('field')):
                        ci.attrs[s.target.id] = s.value
            elif isinstance(s, ast.Assign) and len(s.targets) == 1 and isinstance(s.targets[0], ast.Name):
                ci.attrs[s.targets[0].id] = s.value
        return ci

    # ------------------------------------------------------------------ resolution
    def resolve_name(self, m: ModuleInfo, dotted: str):
        """resolve a dotted name seen in module m to a ClassInfo / FuncInfo / external dotted string"""
        head, *rest = dotted.split('.')
        if head in m.classes and not rest:
            return m.classes[head]
        if head in m.functions and not rest:
            return m.functions[head]
        if head in m.imports:
            target = m.imports[head] + ('.' + '.'.join(rest) if rest else '')
            return self.resolve_abs(target)
        return dotted

    def resolve_abs(self, target: str, _depth: int = 0):
        if _depth > 10:
            return target
        if not target.startswith(PKG + '.') and target != PKG:
            return target
        # longest module prefix
        parts = target.split('.')
        for i in range(len(parts), 0, -1):
            mod = '.'.join(parts[:i])
            if mod in self.modules:
                rest = parts[i:]
                mm = self.modules[mod]
                if not rest:
                    return mm
                if len(rest) == 1:
                    n = rest[0]
                    if n in mm.classes:
                        return mm.classes[n]
                    if n in mm.functions:
                        return mm.functions[n]
                    if n in mm.imports:
                        return self.resolve_abs(mm.imports[n], _depth + 1)
                    if n in mm.assigns:
                        return ('modvar', mm, n)
                return target
        return target

    def _resolve(self) -> None:
        for ci in self.classes.values():
            m = self.modules[ci.module]
            for b in ci.base_exprs:
                d = ast.unparse(b)
                if isinstance(b, ast.Subscript):      # Generic[T], RuleRegistry[...]
                    d = ast.unparse(b.value)
                r = self.resolve_name(m, d)
                ci.bases.append(r if isinstance(r, ClassInfo) else (r if isinstance(r, str) else d))
        done: dict[str, list] = {}

        def mro(ci: ClassInfo) -> list:
            if ci.fullname in done:
                return done[ci.fullname]
            seqs = [mro(b)[:] for b in ci.bases if isinstance(b, ClassInfo)]
            seqs.append([b for b in ci.bases if isinstance(b, ClassInfo)])
            res = [ci]
            while True:
                seqs = [s for s in seqs if s]
                if not seqs:
                    break
                for s in seqs:
                    cand = s[0]
                    if not any(cand in t[1:] for t in seqs):
                        break
                else:
                    raise TypeError(f'inconsistent MRO for {ci.fullname}')
                res.append(cand)
                for s in seqs:
                    if s and s[0] == cand:
                        del s[0]
            done[ci.fullname] = res
            return res

        for ci in self.classes.values():
            ci.mro = mro(ci)
            ext = []
            for c in ci.mro:
                for b in c.bases:
                    if isinstance(b, str) and b not in ext:
                        ext.append(b)
            ci.ext_bases = ext

    # ------------------------------------------------------------------ queries
    def cls(self, name: str) -> ClassInfo:
        if name in self.classes:
            return self.classes[name]
        hits = [c for c in self.classes.values() if c.name == name]
        if len(hits) != 1:
            raise KeyError(f'class {name!r}: {len(hits)} matches')
        return hits[0]

    def func(self, fullname: str) -> FuncInfo:
        """'furax._base.axes.RavelOperator.__init__' or 'furax.tree.dot'"""
        parts = fullname.split('.')
        for i in range(len(parts) - 1, 0, -1):
            mod = '.'.join(parts[:i])
            if mod in self.modules:
                m = self.modules[mod]
                rest = parts[i:]
                if len(rest) == 1 and rest[0] in m.functions:
                    return m.functions[rest[0]]
                if len(rest) == 2 and rest[0] in m.classes and rest[1] in m.classes[rest[0]].methods:
                    return m.classes[rest[0]].methods[rest[1]]
        raise KeyError(fullname)

    def subclasses(self, ci: ClassInfo, concrete_only: bool = False) -> list:
        out = [c for c in self.classes.values() if ci in c.mro]
        if concrete_only:
            out = [c for c in out if not self.is_abstract(c)]
        return out

    def is_abstract(self, ci: ClassInfo) -> bool:
        """abstract = some method decorated @abstractmethod is not overridden along the MRO"""
        seen = set()
        for c in ci.mro:
            for n, f in c.methods.items():
                if n in seen:
                    continue
                seen.add(n)
                if any(ast.unparse(d).endswith('abstractmethod') for d in f.decorators):
                    return True
            for n in c.patched:
                seen.add(n)
        return False

    def tree_sha(self) -> str:
        h = hashlib.sha256()
        for k in sorted(self.modules):
            h.update(self.modules[k].sha.encode())
        return h.hexdigest()[:16]

"""Theory = the assumed contracts of everything outside /repo/src/furax (dependency contracts), plus
the meaning of terms of uninterpreted sorts.  A Theory instance is a bag of handlers; packs compose
them.  Every external callable used during a run is recorded (interp.used_externals) and listed in
the evidence as part of the trusted base."""
from __future__ import annotations

import z3

from . import builtins_model as B
from .values import (ClassRef, Ext, FuncRef, Obj, Partial, PyFunc, SSeq, Unsupported, Value, concrete, fresh_int,
                     is_intlike, to_z3, z_and, z_eq, z_not, z_or)


class Theory:
    chars_as_codes = True

    def __init__(self):
        self.externals: dict = {}       # dotted path -> callable(interp, *args, **kwargs)
        self.ext_values: dict = {}      # dotted path -> value
        self.sort_attr: dict = {}       # sort name -> callable(interp, term, attr) -> value | None
        self.sort_item: dict = {}
        self.sort_iters: dict = {}
        self.sort_lens: dict = {}
        self.symobj_sorts: set = set()
        self.isinstance_handlers: list = []
        self.module_overrides: dict = {}   # (module, name) -> callable(interp) -> value
        self.instantiate_overrides: dict = {}  # class fullname -> callable(interp, ci, args, kwargs)
        self.decorated: dict = {}       # function fullname -> callable(interp, fi, args, kwargs) -> (value,)
        self.after_init_hooks: list = []
        self.identical_handlers: list = []
        self.equals_handlers: list = []
        install_stdlib(self)

    # ---- registration helpers
    def ext(self, *paths):
        def deco(fn):
            for p in paths:
                self.externals[p] = fn
            return fn
        return deco

    def update(self, other: 'Theory'):
        for k in ('externals', 'ext_values', 'sort_attr', 'sort_item', 'sort_iters', 'sort_lens', 'module_overrides',
                  'instantiate_overrides', 'decorated'):
            getattr(self, k).update(getattr(other, k))
        self.symobj_sorts |= other.symobj_sorts
        for k in ('isinstance_handlers', 'after_init_hooks', 'identical_handlers', 'equals_handlers'):
            getattr(self, k).extend(getattr(other, k))
        return self

    # ---- hooks used by the interpreter (defaults)
    def external(self, path):
        return self.externals.get(path)

    def ext_value(self, interp, path):
        return self.ext_values.get(path)

    def module_override(self, interp, m, name):
        h = self.module_overrides.get((m.name, name))
        return h(interp) if h is not None else None

    def is_symobj(self, v):
        return isinstance(v, z3.ExprRef) and v.sort().name() in self.symobj_sorts

    def sort_getattr(self, interp, v, name):
        h = self.sort_attr.get(v.sort().name())
        return h(interp, v, name) if h is not None else None

    def sort_getitem(self, interp, v, idx):
        h = self.sort_item.get(v.sort().name())
        return h(interp, v, idx) if h is not None else None

    def sort_iter(self, interp, v, expect):
        h = self.sort_iters.get(v.sort().name())
        return h(interp, v, expect) if h is not None else None

    def sort_len(self, interp, v):
        h = self.sort_lens.get(v.sort().name())
        return h(interp, v) if h is not None else None

    def sort_unop(self, interp, v, op):
        raise Unsupported(f'unary {op} on term of sort {v.sort()}')

    def symobj_dunder(self, interp, obj, name, args):
        raise Unsupported(f'{name} on symbolic object')

    def symobj_call(self, interp, f, args, kwargs):
        raise Unsupported('call of symbolic object')

    def missing_dunder(self, interp, obj, name, args):
        return B.NOT_IMPLEMENTED

    def foreign_dunder(self, interp, obj, name, args):
        return B.NOT_IMPLEMENTED

    def identical(self, interp, a, b):
        for h in self.identical_handlers:
            r = h(interp, a, b)
            if r is not None:
                return r
        return None

    def equals(self, interp, a, b):
        for h in self.equals_handlers:
            r = h(interp, a, b)
            if r is not None:
                return r
        return None

    def isinstance_(self, interp, v, c):
        for h in self.isinstance_handlers:
            r = h(interp, v, c)
            if r is not None:
                return r
        return None

    def ext_issubclass(self, interp, a, b):
        return None

    def obj_missing_attr(self, interp, o, name):
        return None

    def class_missing_attr(self, interp, ci, name):
        return None

    def super_missing(self, interp, o, defcls, name):
        return None

    def class_setattr(self, interp, ci, name, v):
        return False

    def instantiate_override(self, interp, ci, args, kwargs):
        h = self.instantiate_overrides.get(ci.fullname)
        return h(interp, ci, args, kwargs) if h is not None else None

    def after_init(self, interp, o):
        for h in self.after_init_hooks:
            h(interp, o)

    def decorated_function(self, interp, fi, args, kwargs):
        h = self.decorated.get(fi.fullname)
        return h(interp, fi, args, kwargs) if h is not None else None

    def filter_comprehension(self, interp, e, g, seq, fr, elt_fn, kind):
        return None

    def on_list_surgery(self, interp, lst, cur, idx, new):
        pass

    def after_list_surgery(self, interp, lst, cur, lo, hi, new):
        pass

    def after_list_append(self, interp, lst, cur, x):
        pass

    def after_list_concat(self, interp, res, a, b):
        pass

    def after_seq_map(self, interp, res, src):
        pass

    def str_method(self, interp, s, name):
        return None

    def joined_str(self, interp, e, fr):
        """value of an f-string (ast.JoinedStr), or None: opaque"""
        return None

    def power(self, interp, a, b):
        return None

    def seq_prod(self, interp, seq):
        return None

    def seq_sum(self, interp, seq, start):
        return None

    def type_of(self, interp, v):
        return None

    def hash_(self, interp, v):
        raise Unsupported('hash')


# ------------------------------------------------------------------------------------------ stdlib
def install_stdlib(T: Theory):
    @T.ext('typing.cast')
    def _cast(interp, t, v):
        return v

    @T.ext('math.prod')
    def _prod(interp, v, start=1):
        return B._prod(interp, v, start)

    @T.ext('functools.partial')
    def _partial(interp, f, *a, **k):
        return Partial(f, a, k)

    @T.ext('typing.get_args')
    def _get_args(interp, t):
        if isinstance(t, LiteralV):
            return t.values
        raise Unsupported('get_args of a non-Literal')

    @T.ext('typing.TypeVar')
    def _typevar(interp, *a, **k):
        return Ext('typing.TypeVar()')

    @T.ext('collections.Counter')
    def _counter(interp, v):
        return CounterV(B.as_seq(interp, v))

    @T.ext('functools.reduce')
    def _reduce(interp, f, v, *init):
        items = interp.iter_concrete(v)
        if init:
            acc = init[0]
        else:
            if not items:
                interp.raise_('TypeError', 'reduce() of empty iterable with no initial value')
            acc, items = items[0], items[1:]
        for x in items:
            acc = interp.call(f, [acc, x], {})
        return acc

    T.ext_values['typing.Literal'] = LiteralCtor()
    T.ext_values['typing.Union'] = AnySubscript('typing.Union')
    T.ext_values['typing.ClassVar'] = AnySubscript('typing.ClassVar')
    T.ext_values['typing.Generic'] = AnySubscript('typing.Generic')
    for opn, sym in (('add', 'Add'), ('sub', 'Sub'), ('mul', 'Mult'), ('truediv', 'Div'), ('pow', 'Pow')):
        T.externals['operator.' + opn] = (lambda sym: lambda interp, a, b: interp.binop(sym, a, b))(sym)
        T.externals['_operator.' + opn] = T.externals['operator.' + opn]
    T.externals['operator.neg'] = lambda interp, a: interp.unop(__import__('ast').USub(), a)
    T.externals['operator.abs'] = lambda interp, a: B._abs(interp, a)


class LiteralV(Value):
    def __init__(self, values):
        self.values = tuple(values)


class LiteralCtor(Value):
    def py_getitem(self, interp, idx):
        return LiteralV(idx if isinstance(idx, tuple) else (idx,))


class AnySubscript(Value):
    def __init__(self, name):
        self.name = name

    def py_getitem(self, interp, idx):
        return self

    def py_binop(self, interp, op, other, refl):
        return self


class CounterV(Value):
    """collections.Counter(seq): only `.items()` consumed as `[k for k, v in c.items() if v > 1]` is modelled,
    through `dups`: the list of values occurring more than once (order irrelevant to the callers' truth test)."""

    def __init__(self, seq: SSeq):
        self.seq = seq

    def py_getattr(self, interp, name):
        if name == 'items':
            return PyFunc(lambda interp: CounterItems(self.seq), 'Counter.items')
        raise Unsupported(f'Counter.{name}')


class CounterItems(Value):
    """iterating yields (value, multiplicity); supports the comprehension pattern through as_sseq when the
    source is concrete, and a direct `has_duplicates` query otherwise"""

    def __init__(self, seq):
        self.seq = seq

    def py_iter(self, interp, expect=None):
        items = self.seq.py_items()
        if not all(concrete(x) is not None for x in items):
            raise Unsupported('Counter over symbolic items (concrete length)')
        out = []
        for x in items:
            cx = concrete(x)
            if not any(k == cx for k, _ in out):
                out.append((cx, sum(1 for y in items if concrete(y) == cx)))
        return out

    def as_sseq(self, interp):
        if self.seq.is_concrete_len() and all(concrete(x) is not None for x in self.seq.py_items()):
            return SSeq.lift(self.py_iter(interp))
        # symbolic: one entry per distinct value; represent as an abstract sequence of (value, count) where
        # count(k) is the number of positions holding the value at the k-th *first occurrence*.
        # Only the pattern `[k for k, v in items if v > 1]` followed by a truth test is supported: see
        # filter_comprehension in the sequence theory.
        return DistinctSeq(self.seq)


class DistinctSeq(SSeq):
    """marker: the (value, multiplicity) pairs of a symbolic sequence"""

    def __init__(self, src: SSeq):
        self.src = src
        super().__init__(fresh_int('ndistinct'), self._get, 'tuple')

    def _get(self, k):
        raise Unsupported('element access into Counter.items() of a symbolic sequence')

    def has_dup(self):
        s = self.src
        i, j = fresh_int('i'), fresh_int('j')
        n = to_z3(s.length)
        return z3.Exists([i, j], z3.And(0 <= i, i < j, j < n, B.zbool(z_eq(s.get(i), s.get(j)))))

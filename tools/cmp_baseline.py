import json, sys, xml.etree.ElementTree as ET
base = set(json.load(open('/root/.vp/BASELINE.json'))['stable_pass'])
t = ET.parse(sys.argv[1]).getroot()
ok = set()
for tc in t.iter('testcase'):
    if not any(c.tag in ('failure', 'error', 'skipped') for c in tc):
        ok.add(f"{tc.get('classname')}::{tc.get('name')}")
miss = sorted(base - ok)
print('baseline', len(base), 'passing now', len(ok), 'baseline tests not passing:', len(miss))
for m in miss[:20]: print('  ', m)

"""Mutant batteries for C10 and C06 (HACKING rule 8).  One textual mutation at a time is applied to a scratch copy of
/repo/src under /tmp/mut_blocks/repo_<prop> and `VF_REPO=<copy> ./vf check <prop>` is run from the given worktree;
every mutant must give exit 1 with a VIOLATION line, pristine / harmless rewrites / the suggested fixes exit 0.

    python3 tools/mutants_C10_C06.py C10 /path/to/worktree [mutant name ...]      (MUT_V=1: print the violation lines)
"""
import os
import shutil
import subprocess
import sys
import time

B = 'furax/_base/blocks.py'
C = 'furax/_base/core.py'
D = 'furax/_base/diagonal.py'
C10 = [
 ('pristine', B, None, None, 0),
 ('row.mv add->subtract', B, "return jax.tree.map(jnp.add, value, op(leaf))", "return jax.tree.map(jnp.subtract, value, op(leaf))", 1),
 ('row.mv add applied to wrong pair', B, "return jax.tree.map(jnp.add, value, op(leaf))", "return jax.tree.map(jnp.add, op(leaf), op(leaf))", 1),
 ('row.mv first pair not evaluated with its own input', B, "value = value[0](value[1])", "value = value[0](op_leaf[1])", 1),
 ('row.as_matrix hstack->vstack', B, "return jnp.hstack([op.as_matrix() for op in self.block_leaves])", "return jnp.vstack([op.as_matrix() for op in self.block_leaves])", 1),
 ('row.out_structure returns in_structure', B, "return self.block_leaves[0].out_structure()", "return self.block_leaves[0].in_structure()", 1),
 ('col.in_structure returns out_structure', B, "return self.block_leaves[0].in_structure()", "return self.block_leaves[0].out_structure()", 1),
 ('row.__init__ validates inputs', B, "if (structure := operator.out_structure()) != ref_structure", "if (structure := operator.in_structure()) != ref_structure", 1),
 ('row.__init__ != -> ==', B, "if (structure := operator.out_structure()) != ref_structure", "if (structure := operator.out_structure()) == ref_structure", 1),
 ('col.__init__ skips second block', B, "            for operator in operators[1:]\n            if (structure := operator.in_structure()) != ref_structure", "            for operator in operators[2:]\n            if (structure := operator.in_structure()) != ref_structure", 1),
 ('col.__init__ check dropped', B, "        if len(invalid_structures) > 0:\n            structures_as_str = '\\n - '.join(str(structure) for structure in invalid_structures)\n            raise ValueError(\n                f'The operators in a BlockColumnOperator", "        if False:\n            structures_as_str = '\\n - '.join(str(structure) for structure in invalid_structures)\n            raise ValueError(\n                f'The operators in a BlockColumnOperator", 1),
 ('diag.inverse squareness test dropped', B, "if not jax.tree.all(self._tree_map(lambda op: op.in_structure() == op.out_structure())):", "if False:", 1),
 ('diag.inverse uses transposes', B, "return BlockDiagonalOperator(self._tree_map(lambda op: op.I))", "return BlockDiagonalOperator(self._tree_map(lambda op: op.T))", 1),
 ('diag.as_matrix reversed leaf order', B, "return jsl.block_diag(*[op.as_matrix() for op in self.block_leaves])", "return jsl.block_diag(*[op.as_matrix() for op in reversed(self.block_leaves)])", 1),
 ('diag.mv applies transposed blocks', B, "return self._tree_map(lambda op, vect: op.mv(vect), vector)", "return self._tree_map(lambda op, vect: op.T.mv(vect), vector)", 1),
 ('col.mv ignores the block (identity)', B, "return self._tree_map(lambda op: op.mv(vector))", "return self._tree_map(lambda op: vector)", 1),
 ('row.transpose builds a row', B, "        return BlockColumnOperator(self._tree_map(lambda op: op.T))\n\n    def out_structure", "        return BlockRowOperator(self._tree_map(lambda op: op.T))\n\n    def out_structure", 1),
 ('rule reduced_class swapped', B, "    right_operator_class = BlockColumnOperator\n    reduced_class = BlockColumnOperator", "    right_operator_class = BlockColumnOperator\n    reduced_class = BlockRowOperator", 1),
 ('in_structure maps out_structure', B, "    def in_structure(self) -> PyTree[jax.ShapeDtypeStruct]:\n        return self._tree_map(lambda op: op.in_structure())", "    def in_structure(self) -> PyTree[jax.ShapeDtypeStruct]:\n        return self._tree_map(lambda op: op.out_structure())", 1),
 ('harmless: rename local in row.__init__', B, "        operators = self.block_leaves\n        ref_structure = operators[0].out_structure()\n        invalid_structures = [\n            structure\n            for operator in operators[1:]\n            if (structure := operator.out_structure()) != ref_structure", "        ops_ = self.block_leaves\n        ref_structure = ops_[0].out_structure()\n        invalid_structures = [\n            structure\n            for operator in ops_[1:]\n            if (structure := operator.out_structure()) != ref_structure", 0),
 ('harmless: unpack before the first-pair test', B, "            if (\n                isinstance(value, tuple)\n                and len(value) > 0\n                and isinstance(value[0], AbstractLinearOperator)\n            ):\n                value = value[0](value[1])\n            op, leaf = op_leaf\n", "            op, leaf = op_leaf\n            if (\n                isinstance(value, tuple)\n                and len(value) > 0\n                and isinstance(value[0], AbstractLinearOperator)\n            ):\n                value = value[0](value[1])\n", 0),
 ('harmless: col.__init__ walks all leaves', B, "            for operator in operators[1:]\n            if (structure := operator.in_structure()) != ref_structure", "            for operator in operators\n            if (structure := operator.in_structure()) != ref_structure", 0),
 ('harmless: diag.mv via __call__', B, "return self._tree_map(lambda op, vect: op.mv(vect), vector)", "return self._tree_map(lambda op, vect: op(vect), vector)", 0),
 ('fix: single block row evaluated after the reduce', B, "        return jax.tree.reduce(\n            func,\n            tree,\n            is_leaf=lambda op_leaf: isinstance(op_leaf, tuple)\n            and len(op_leaf) > 0\n            and isinstance(op_leaf[0], AbstractLinearOperator),\n        )", "        result = jax.tree.reduce(\n            func,\n            tree,\n            is_leaf=lambda op_leaf: isinstance(op_leaf, tuple)\n            and len(op_leaf) > 0\n            and isinstance(op_leaf[0], AbstractLinearOperator),\n        )\n        if (\n            isinstance(result, tuple)\n            and len(result) > 0\n            and isinstance(result[0], AbstractLinearOperator)\n        ):\n            # a single block: jax.tree.reduce returns the only (operator, input) pair without calling func\n            result = result[0](result[1])\n        return result", 0),
 ('fix: block rule declines containers of different layouts', B, [("from .rules import AbstractBinaryRule\n", "from .rules import AbstractBinaryRule, NoReduction\n"), ("        assert isinstance(right, AbstractBlockOperator)  # mypy assert\n", "        assert isinstance(right, AbstractBlockOperator)  # mypy assert\n        is_op = lambda x: isinstance(x, AbstractLinearOperator)  # noqa: E731\n        if jax.tree.structure(left.blocks, is_leaf=is_op) != jax.tree.structure(right.blocks, is_leaf=is_op):\n            raise NoReduction\n")], None, 0),
]

C06 = [
 ('pristine', C, None, None, 0),
 ('homothety.inverse value instead of 1/value', C, "return HomothetyOperator(1 / self.value, self._in_structure)", "return HomothetyOperator(self.value, self._in_structure)", 1),
 ('homothety.inverse -1/value', C, "return HomothetyOperator(1 / self.value, self._in_structure)", "return HomothetyOperator(-1 / self.value, self._in_structure)", 1),
 ('pinv where(d != 0, 1/d, 1)', D, "return jnp.where(self._diagonal != 0, 1 / self._diagonal, 0)", "return jnp.where(self._diagonal != 0, 1 / self._diagonal, 1)", 1),
 ('pinv condition flipped', D, "return jnp.where(self._diagonal != 0, 1 / self._diagonal, 0)", "return jnp.where(self._diagonal == 0, 1 / self._diagonal, 0)", 1),
 ('pinv without the where', D, "return jnp.where(self._diagonal != 0, 1 / self._diagonal, 0)", "return 1 / self._diagonal", 1),
 ('pinv keeps the values where non-zero', D, "return jnp.where(self._diagonal != 0, 1 / self._diagonal, 0)", "return jnp.where(self._diagonal != 0, self._diagonal, 0)", 1),
 ('lazy inverse.inverse returns self', C, "    def inverse(self) -> AbstractLinearOperator:\n        return self.operator\n", "    def inverse(self) -> AbstractLinearOperator:\n        return self\n", 1),
 ('diagonal inverse.inverse returns self', D, "    def inverse(self) -> 'AbstractLinearOperator':\n        return self.operator", "    def inverse(self) -> 'AbstractLinearOperator':\n        return self", 1),
 ('mv solver from Config.instance()', C, "        solver = self.config.solver\n", "        solver = Config.instance().solver\n", 1),
 ('mv throw hard-wired', C, "solution = lx.linear_solve(A, x, solver=solver, throw=throw, options=options)", "solution = lx.linear_solve(A, x, solver=solver, throw=True, options=options)", 1),
 ('mv solves with the operand of the operand (wrong operator)', C, "A = lx.TaggedLinearOperator(self.operator, lx.positive_semidefinite_tag)", "A = lx.TaggedLinearOperator(self, lx.positive_semidefinite_tag)", 1),
 ('mv returns the solution object', C, "        return solution.value\n", "        return solution\n", 1),
 ('__init__ non-square check dropped', C, "        if operator.in_structure() != operator.out_structure():\n            raise ValueError('Only square operators can be inverted.')", "        if False:\n            raise ValueError('Only square operators can be inverted.')", 1),
 ('__init__ stores the default configuration', C, "        self.config = Config.instance()", "        self.config = ConfigState()", 1),
 ('as_matrix inverts the transposed matrix', C, "matrix: Array = jnp.linalg.inv(self.operator.as_matrix())", "matrix: Array = jnp.linalg.inv(self.operator.T.as_matrix())", 1),
 ('orthogonal does not rewire inverse', C, "    square(cls)\n    cls.inverse = cls.transpose\n", "    square(cls)\n", 1),
 ('diagonal.inverse returns the lazy solver inverse of self... no: returns self', D, "    def inverse(self) -> 'AbstractLinearOperator':\n        return DiagonalInverseOperator(self)", "    def inverse(self) -> 'AbstractLinearOperator':\n        return self", 1),
 ('diag inverse init skips the lazy parent initialiser', D, "        AbstractLazyInverseOperator.__init__(self, operator)\n", "", 1),
 ('block diag inverse: squareness test dropped', B, "if not jax.tree.all(self._tree_map(lambda op: op.in_structure() == op.out_structure())):", "if False:", 1),
 ('block diag inverse: transposes', B, "return BlockDiagonalOperator(self._tree_map(lambda op: op.I))", "return BlockDiagonalOperator(self._tree_map(lambda op: op.T))", 1),
 ('matmul shortcut for any operand', C, "        if self.operator is other:\n            return IdentityOperator(self.in_structure())\n        return super().__matmul__(other)", "        if self.operator is not None:\n            return IdentityOperator(self.in_structure())\n        return super().__matmul__(other)", 1),
 ('equivalent: pinv where(d != 0, 1/d, d)', D, "return jnp.where(self._diagonal != 0, 1 / self._diagonal, 0)", "return jnp.where(self._diagonal != 0, 1 / self._diagonal, self._diagonal)", 0),
 ('harmless: rename local solver in mv, reorder', C, [("        solver = self.config.solver\n        throw = self.config.solver_throw\n        options = self.config.solver_options.copy()", "        throw = self.config.solver_throw\n        slv = self.config.solver\n        options = self.config.solver_options.copy()"), ("solver=solver, throw=throw", "solver=slv, throw=throw")], None, 0),
 ('harmless: compare structures the other way round', C, "        if operator.in_structure() != operator.out_structure():\n            raise ValueError('Only square operators can be inverted.')", "        if operator.out_structure() != operator.in_structure():\n            raise ValueError('Only square operators can be inverted.')", 0),
 ('harmless: diag inverse init takes out_structure (square)', D, "            in_structure=operator.in_structure(),\n        )\n\n    @property\n    def diagonal(self) -> PyTree", "            in_structure=operator.out_structure(),\n        )\n\n    @property\n    def diagonal(self) -> PyTree", 0),
 ('harmless: unreduced operand stored', C, "        super().__init__(operator.reduce())", "        super().__init__(operator)", 0),
]


def main():
    prop, wt = sys.argv[1:3]
    only = sys.argv[3:]
    root = '/tmp/mut_blocks/repo_' + prop
    res = []
    for name, rel, old, new, expect in {'C10': C10, 'C06': C06}[prop]:
        if only and name not in only:
            continue
        shutil.rmtree(root, ignore_errors=True)
        os.makedirs(root)
        shutil.copytree('/repo/src', root + '/src')
        p = os.path.join(root, 'src', rel)
        s = open(p).read()
        if old is not None:
            for o_, n_ in (old if isinstance(old, list) else [(old, new)]):
                assert s.count(o_) == 1, (name, s.count(o_))
                s = s.replace(o_, n_)
            open(p, 'w').write(s)
        t0 = time.time()
        r = subprocess.run(['./vf', 'check', prop], cwd=wt, env={**os.environ, 'VF_REPO': root}, capture_output=True, text=True)
        lines = r.stdout.splitlines()
        viol = [x for x in lines if x.startswith('VIOLATION')]
        ok = (r.returncode == expect) and (bool(viol) == (expect == 1))
        print(f'{"OK  " if ok else "BAD "} {name:60s} exit {r.returncode} (want {expect}) violations {len(viol)} {time.time() - t0:.0f}s',
              flush=True)
        if not ok or os.environ.get('MUT_V'):
            for x in viol[:6] + [x for x in lines if x.startswith('  obligation')][:6] + lines[-1:]:
                print('      ', x[:300])
        res.append(ok)
    shutil.rmtree(root, ignore_errors=True)
    print('ALL OK' if all(res) else 'SOME BAD')


if __name__ == '__main__':
    main()

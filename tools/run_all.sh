#!/bin/bash
# run every registered quick check on the current tree, validate evidence
cd /verif
for p in $(python3 -c "import json; print(' '.join(c['property_id'] for c in json.load(open('MANIFEST.json'))['checks']))"); do
  ./vf check $p > /tmp/o_$p.txt 2>&1; rc=$?
  python3-vt -c "import jsonschema,json; jsonschema.validate(json.load(open('evidence/$p.json')), json.load(open('/root/.vp/EVIDENCE.schema.json')))" 2>/dev/null && ev=ok || ev=EVIDENCE-INVALID
  echo "$p rc=$rc $ev $(tail -1 /tmp/o_$p.txt | cut -c1-130)"
done

"""C09 mutant battery (HACKING rule 8): applies one textual mutation at a time to a scratch copy of toeplitz.py
under /tmp/mut_toeplitz (create it first: cp -r /repo/src /tmp/mut_toeplitz/src) and runs ./vf check C09"""
import os, shutil, subprocess, sys, time
ROOT = '/tmp/mut_toeplitz'
SRC = '/repo/src/furax/operators/toeplitz.py'
DST = ROOT + '/src/furax/operators/toeplitz.py'
orig = open(SRC).read()
M = [
 # name, old, new, expected exit
 ('pristine', None, None, 0),
 ('nblock+1', "nblock = int(np.ceil((l + overlap) / step_size))", "nblock = int(np.ceil((l + overlap) / step_size)) + 1", None),
 ('nblock-floor', "nblock = int(np.ceil((l + overlap) / step_size))", "nblock = (l + overlap) // step_size", 1),
 ('nblock-l-only', "nblock = int(np.ceil((l + overlap) / step_size))", "nblock = int(np.ceil(l / step_size))", 1),
 ('total_length-1', "total_length = (nblock - 1) * step_size + self.fft_size", "total_length = (nblock - 1) * step_size + self.fft_size - 1", 1),
 ('total_length-nblock', "total_length = (nblock - 1) * step_size + self.fft_size", "total_length = nblock * step_size + self.fft_size", None),
 ('x_padding_end-1', "x_padding_end = total_length - overlap - l", "x_padding_end = total_length - overlap - l - 1", 1),
 ('x_padding_start', "x_padding_start = overlap", "x_padding_start = half_band_width", 1),
 ('step_size+1', "step_size = self.fft_size - overlap", "step_size = self.fft_size - overlap + 1", 1),
 ('step_size-1', "step_size = self.fft_size - overlap", "step_size = self.fft_size - overlap - 1", 1),
 ('out-slice+1', "return y[half_band_width : half_band_width + l]", "return y[half_band_width + 1 : half_band_width + l + 1]", 1),
 ('out-slice-short', "return y[half_band_width : half_band_width + l]", "return y[half_band_width : half_band_width + l - 1]", 1),
 ('yblock-slice', "lax.dynamic_slice(y_block, (2 * half_band_width,), (step_size,))", "lax.dynamic_slice(y_block, (half_band_width,), (step_size,))", 1),
 ('kernel-mirror', "band_values[-1:0:-1]", "band_values[-1::-1]", 1),
 ('kernel-mirror2', "band_values[-1:0:-1]", "band_values[-2:0:-1]", 1),
 ('half_band_width-direct', "half_band_width = kernel.size // 2\n        return jnp.convolve", "half_band_width = (kernel.size + 1) // 2\n        return jnp.convolve", 1),
 ('half_band_width-fft', "half_band_width = kernel.size // 2\n        H = jnp.fft.fft(kernel, x.shape[-1] + 2 * half_band_width)", "half_band_width = (kernel.size - 1) // 2 + 1\n        H = jnp.fft.fft(kernel, x.shape[-1] + 2 * half_band_width)", 1),
 ('fft-pad-short', "x_padded = jnp.pad(x, (0, 2 * half_band_width), mode='constant')\n        X_padded", "x_padded = jnp.pad(x, (0, half_band_width), mode='constant')\n        X_padded", 1),
 ('fft-N-short', "H = jnp.fft.fft(kernel, x.shape[-1] + 2 * half_band_width)\n        x_padded = jnp.pad(x, (0, 2 * half_band_width)", "H = jnp.fft.fft(kernel, x.shape[-1] + half_band_width)\n        x_padded = jnp.pad(x, (0, half_band_width)", 1),
 ('fft-K1-branch', "        if half_band_width == 0:\n            return Y_padded\n", "", 1),
 ('ctor-lt-le', "if fft_size < band_number:", "if fft_size <= band_number:", 1),
 ('ctor-drop-method-check', "if method not in self.METHODS:", "if False:", 1),
 ('ctor-drop-overlap-check', "if not method.startswith('overlap_'):", "if False:", 1),
 ('default-fft-size', "additional_power = 1", "additional_power = -1", 1),
 ('default-fft-floor', "np.ceil(np.log2(band_number))", "np.floor(np.log2(band_number)) - 1", None),
 ('dense-stride', "indices = j + jnp.arange(m) * (n + 1)", "indices = j + jnp.arange(m) * n", 1),
 ('dense-m', "m = n - j", "m = n - j + 1", 1),
 ('dense-neg-base', "indices = -n * j + jnp.arange(m) * (n + 1)", "indices = -(n + 1) * j + jnp.arange(m) * (n + 1)", 1),
 ('dense-band-width', "band_width = band_values.size - 1", "band_width = band_values.size - 2", 1),
 ('dense-value', "value = band_values[abs(j)]", "value = band_values[max(j, 0)]", 1),
 ('get_func-swap-harmless', "if self.method == 'direct':\n            return self._apply_direct", "if self.method == 'direct':\n            return self._apply_fft", 0),
 ('get_func-to-overlap', "if self.method == 'direct':\n            return self._apply_direct", "if self.method == 'direct':\n            return self._apply_overlap_save", 1),
 ('get_func-overlap_add', "if self.method == 'fft':\n            return self._apply_fft", "if self.method == 'fft':\n            return self._apply_overlap_add", 1),
 ('mv-signature', "signature='(n),(k)->(n)')\n        return func(x, self.band_values)", "signature='(n),(k)->(n)')\n        return func(x, self.band_values[..., ::-1])", None),
 ('mv-swapped-args', "return func(x, self.band_values)  # type", "return func(self.band_values, x)  # type", 1),
 ('as_matrix-size', "return dense_symmetric_band_toeplitz(x.size, band_values)", "return dense_symmetric_band_toeplitz(x.size + 1, band_values)", 1),
 ('direct-pad-asym', "jnp.pad(x, (half_band_width, half_band_width)), kernel", "jnp.pad(x, (half_band_width + 1, half_band_width - 1)), kernel", 1),
 ('fix-b-zeros-dtype', "y = jnp.zeros(l + x_padding_end)\n\n        def func(iblock", "y = jnp.zeros(l + x_padding_end, dtype=x.dtype)\n\n        def func(iblock", 0),
 ('fix-a-last-axis', "band_number = 2 * band_values.size - 1", "band_number = 2 * band_values.shape[-1] - 1", 0),
 # harmless rewrites
 ('harmless-rename', None, None, 0),
 ('harmless-reorder', "l = x.shape[-1]\n        overlap = 2 * half_band_width\n        step_size", "overlap = 2 * half_band_width\n        l = x.shape[-1]\n        step_size", 0),
 ('harmless-augassign', "total_length = (nblock - 1) * step_size + self.fft_size", "total_length = (nblock - 1) * step_size\n        total_length += self.fft_size", 0),
]
only = sys.argv[1:]
for name, old, new, exp in M:
    if only and not any(o in name for o in only):
        continue
    text = orig
    if name == 'harmless-rename':
        text = text.replace('x_padding_end', 'tail_pad').replace('nblock', 'number_of_blocks')
        assert text != orig
    elif old is not None:
        assert text.count(old) >= 1, name
        text = text.replace(old, new, 1)
    open(DST, 'w').write(text)
    t = time.time()
    r = subprocess.run(['./vf', 'check', 'C09'], cwd='/root/work/toeplitz', env=dict(os.environ, VF_REPO=ROOT),
                       capture_output=True, text=True)
    lines = [l for l in r.stdout.splitlines() if l.strip()]
    viol = [l for l in lines if l.startswith('VIOLATION')]
    obl = [l.strip() for l in lines if l.strip().startswith('obligation')]
    und = [l for l in lines if l.startswith(('UNDECIDED', 'CHECKER', 'VACUITY', 'NOTE'))]
    print(f'{name:26s} exit={r.returncode} expected={exp} {time.time()-t:5.1f}s  violations={len(viol)} '
          f'replayed={sum(1 for v in viol if "no-failing" not in v)}')
    for o in obl[:3]:
        print('      ', o[:170])
    for u in und[:3]:
        print('      ', u[:200])
    if r.returncode not in (0, 1) or (exp is not None and r.returncode != exp):
        print('      STDERR/OUT tail:', (r.stdout + r.stderr)[-600:])
open(DST, 'w').write(orig)

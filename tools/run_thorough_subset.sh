#!/bin/bash
cd /verif
for p in "$@"; do
  t0=$(date +%s)
  ./vf check $p --tier thorough --no-evidence > /tmp/th_$p.txt 2>&1; rc=$?
  echo "$p rc=$rc $(( $(date +%s) - t0 ))s $(tail -1 /tmp/th_$p.txt | cut -c1-140)"
done

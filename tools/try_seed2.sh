#!/bin/bash
# usage: try_seed2.sh <seed dir name under /verif/seeded> <prop> [more props]   -- works on a scratch copy, /repo untouched
sd=/verif/seeded/$1; s=$1; shift
tmp=$(mktemp -d /root/.cache/tryseed-XXXX)
cp -r /repo/src $tmp/src
echo "== pristine demo"; (cd $tmp && PYTHONPATH=$tmp/src timeout 600 /venv/bin/python $sd/demo.py >/tmp/demo_pristine_$s.txt 2>&1; echo "exit=$?")
(cd $tmp && patch -p1 -s -i $sd/patch.diff) || { echo "patch does not apply"; rm -rf $tmp; exit 8; }
echo "== mutated demo"; (cd $tmp && PYTHONPATH=$tmp/src timeout 600 /venv/bin/python $sd/demo.py >/tmp/demo_mut_$s.txt 2>&1; echo "exit=$?"; tail -2 /tmp/demo_mut_$s.txt | cut -c1-200)
for p in "$@"; do
  echo "== check $p"; (cd /verif && VF_REPO=$tmp timeout 3000 ./vf check $p --no-evidence > /tmp/seedcheck_${s}_$p.txt 2>&1; echo "rc=$?"; grep -E "^VIOLATION|UNDECIDED|^C[0-9]+:" /tmp/seedcheck_${s}_$p.txt | cut -c1-220 | head -5)
done
rm -rf $tmp

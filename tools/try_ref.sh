#!/bin/bash
# usage: try_ref.sh <diff file> <prop> [more props]  -- harmless refactor: every check is expected to exit 0
d=$1; shift
tmp=$(mktemp -d /root/.cache/tryref-XXXX)
cp -r /repo/src $tmp/src
(cd $tmp && patch -p1 -s -i $d) || { echo "patch does not apply: $d"; rm -rf $tmp; exit 8; }
for p in "$@"; do
  out=/tmp/refcheck_$(basename $d .diff)_$p.txt
  (cd /verif && VF_REPO=$tmp timeout 3000 ./vf check $p --no-evidence > $out 2>&1); rc=$?
  echo "$(basename $d) $p rc=$rc $(tail -1 $out | cut -c1-110)"
  if [ $rc -ne 0 ]; then grep -E "^VIOLATION|^UNDECIDED|^VACUITY|^CHECKER" $out | cut -c1-260 | sort | uniq -c | sort -rn | head -6; fi
done
rm -rf $tmp

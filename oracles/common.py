"""helpers shared by the native oracles: generic dense matrices, structures, comparisons"""
import itertools

import jax
import jax.numpy as jnp
import numpy as np


def S(shape, dtype=jnp.float32):
    return jax.ShapeDtypeStruct(tuple(shape), dtype)


def dense(op):
    """column-by-column dense matrix through mv only (never through furax's as_matrix overrides)"""
    from furax._base.core import AbstractLinearOperator
    return np.asarray(AbstractLinearOperator.as_matrix(op))


def rand_tree(structure, seed=0):
    rng = np.random.default_rng(seed)
    leaves, treedef = jax.tree.flatten(structure)
    out = [jnp.asarray(rng.standard_normal(l.shape).astype(np.dtype(l.dtype))) for l in leaves]
    return jax.tree.unflatten(treedef, out)


def arange_tree(structure):
    leaves, treedef = jax.tree.flatten(structure)
    out, start = [], 1
    for l in leaves:
        n = int(np.prod(l.shape))
        out.append(jnp.arange(start, start + n, dtype=l.dtype).reshape(l.shape))
        start += n
    return jax.tree.unflatten(treedef, out)


def flat(tree):
    return np.concatenate([np.asarray(l).ravel() for l in jax.tree.leaves(tree)]) if jax.tree.leaves(tree) else np.zeros(0)


def close(a, b, tol=1e-5):
    a, b = np.asarray(a), np.asarray(b)
    return a.shape == b.shape and np.allclose(a, b, rtol=tol, atol=tol)


def small_shapes(max_rank=3, max_dim=3):
    for r in range(1, max_rank + 1):
        for dims in itertools.product(range(1, max_dim + 1), repeat=r):
            yield dims

"""Native oracles for C13: numpy.moveaxis / flattening between two axes / numpy.reshape are the references."""
import itertools

import jax
import jax.numpy as jnp
import numpy as np

from .common import S, arange_tree, close, small_shapes


def _ravel_ref(x, first, last):
    nd = x.ndim
    f = first + nd if first < 0 else first
    l = last + nd if last < 0 else last
    return x.reshape(x.shape[:f] + (int(np.prod(x.shape[f:l + 1])),) + x.shape[l + 1:])


def _ravel_case(shapes, first, last):
    from furax import RavelOperator
    structure = [S(s) for s in shapes]
    legal = all(-len(s) <= first < len(s) and -len(s) <= last < len(s) for s in shapes)
    if not legal:
        return None
    bad = any((first + len(s) if first < 0 else first) > (last + len(s) if last < 0 else last) for s in shapes)
    try:
        op = RavelOperator(first, last, in_structure=structure)
    except ValueError:
        return None if bad else f'RavelOperator({first},{last}) refused for shapes {shapes}'
    if bad:
        return f'RavelOperator({first},{last}) accepted although first axis lies after last for some leaf of {shapes}'
    x = arange_tree(structure)
    y = op(x)
    for xi, yi in zip(x, y):
        ref = _ravel_ref(np.asarray(xi), first, last)
        if not close(yi, ref):
            return f'RavelOperator({first},{last}) on shape {xi.shape}: got shape {np.asarray(yi).shape}, expected {ref.shape}'
    return None


def ravel(w, seed, spec):
    fails = []
    cases = []
    if 'first_axis' in w and 'last_axis' in w:
        nds = []
        if isinstance(w.get('ndim'), int):
            nds = [w['ndim']]
        if isinstance(w.get('leaves'), list) and w['leaves']:
            nds = [3] * len(w['leaves'])
        for nd in nds or [1, 2, 3]:
            cases.append(([tuple(range(2, 2 + nd))], w['first_axis'], w['last_axis']))
    rng = np.random.default_rng(seed)
    for nd in (1, 2, 3, 4):
        for first in range(-nd, nd):
            for last in range(-nd, nd):
                cases.append(([tuple(int(v) for v in rng.integers(1, 4, nd))], first, last))
    for first, last in itertools.product(range(-2, 2), repeat=2):
        cases.append(([(2, 3), (2, 2, 3)], first, last))
    for shapes, first, last in cases:
        if any(len(sh) > 6 for sh in shapes):
            continue
        r = _ravel_case(shapes, first, last)
        if r:
            fails.append(r)
            if len(fails) > 5:
                break
    return fails


def reshape(w, seed, spec):
    from furax import ReshapeOperator
    fails = []
    cases = []
    if isinstance(w.get('shape'), list) and isinstance(w.get('leaf_shape'), list):
        cases.append((tuple(w['leaf_shape']), tuple(w['shape'])))
    leafs = [(6,), (2, 3), (2, 3, 4), (4, 1), (1,), (12,)]
    targets = [(-1,), (6,), (3, 2), (2, -1), (-1, 2), (-1, -1), (4, -1), (-2, 3), (2, 3, -1), (24,), (1, -1, 1),
               (5, -1), (12,), (3, 4), (-1, 3, 2), (7,), (0, -1)]
    cases += list(itertools.product(leafs, targets))
    for leaf_shape, shape in cases:
        if any(d < 0 for d in leaf_shape):
            continue
        x = np.arange(1, int(np.prod(leaf_shape)) + 1, dtype=np.float32).reshape(leaf_shape)
        try:
            ref = x.reshape(shape) if all(d >= -1 for d in shape) else None   # sizes < -1 are to be refused
        except (ValueError, ZeroDivisionError):
            ref = None
        try:
            op = ReshapeOperator(shape, in_structure=S(leaf_shape))
        except (ValueError, ZeroDivisionError):
            if ref is not None:
                fails.append(f'ReshapeOperator({shape}) refused for leaf {leaf_shape} although numpy reshapes it')
            continue
        except Exception as e:      # noqa: BLE001
            fails.append(f'ReshapeOperator({shape}) on {leaf_shape}: unexpected {type(e).__name__}')
            continue
        if ref is None:
            fails.append(f'ReshapeOperator({shape}) accepted for leaf {leaf_shape} although numpy refuses')
            continue
        y = op(jnp.asarray(x))
        if not close(y, ref):
            fails.append(f'ReshapeOperator({shape}) on {leaf_shape}: wrong result')
        if not close(op.T(y), x):
            fails.append(f'ReshapeOperator({shape}).T is not the inverse on {leaf_shape}')
        if len(fails) > 5:
            break
    return fails


def moveaxis(w, seed, spec):
    from furax import MoveAxisOperator
    from furax._base.rules import NoReduction
    fails = []
    # pytrees whose leaves have different ranks, negative and positive axes
    for shapes in ([(2, 3), (2, 3, 4)], [(2, 3, 4, 5), (2, 3)], [(3, 2), (4, 3, 2)]):
        nd = min(len(s_) for s_ in shapes)
        for src, dst in itertools.product(range(-nd, nd), repeat=2):
            for sarg, darg in ((src, dst), ((src,), (dst,))):
                xs = [np.arange(int(np.prod(s_)), dtype=np.float32).reshape(s_) for s_ in shapes]
                try:
                    op = MoveAxisOperator(sarg, darg, in_structure=[S(s_) for s_ in shapes])
                    ys = op([jnp.asarray(x) for x in xs])
                except Exception as e:      # noqa: BLE001
                    fails.append(f'MoveAxisOperator({sarg},{darg}) on leaves {shapes} raised {type(e).__name__}')
                    continue
                for x, y in zip(xs, ys):
                    if not close(y, np.moveaxis(x, src, dst)):
                        fails.append(f'MoveAxisOperator({sarg},{darg}) differs from numpy.moveaxis on leaf {x.shape} of {shapes}')
                # transpose / inverse on the same mixed-rank pytree: they must undo the move on EVERY leaf
                for what in ('T', 'I'):
                    try:
                        back = getattr(op, what)(ys)
                        if any(not close(b, x) for b, x in zip(back, xs)):
                            fails.append(f'MoveAxisOperator({sarg},{darg}).{what} does not undo the move on leaves {shapes}')
                    except Exception as e:      # noqa: BLE001
                        fails.append(f'MoveAxisOperator({sarg},{darg}).{what} on leaves {shapes} raised {type(e).__name__}')
                if len(fails) > 5:
                    return fails
    # every product of two move-axis operators must reduce to an operator with the same action
    from furax._base.core import CompositionOperator
    shape = (2, 3, 4)
    moves = [((0,), (1,)), ((0, 1), (1, 2)), ((2, 1), (0, 1)), ((1, 2), (0, 1)), ((-1, 1), (0, 1)), ((0, 1), (1, -1)),
             ((0, 2), (2, 0)), ((1, 0), (2, 1))]
    x = np.arange(24, dtype=np.float32).reshape(shape)
    for (s1, d1), (s2, d2) in itertools.product(moves, moves):
        try:
            right = MoveAxisOperator(s2, d2, in_structure=S(shape))
            left = MoveAxisOperator(s1, d1, in_structure=right.out_structure())
            comp = CompositionOperator([left, right])
            want = np.asarray(comp(jnp.asarray(x)))
            got = np.asarray(comp.reduce()(jnp.asarray(x)))
        except Exception as e:      # noqa: BLE001
            fails.append(f'moveaxis{(s1, d1)} @ moveaxis{(s2, d2)}: {type(e).__name__}')
            continue
        if got.shape != want.shape or not np.allclose(got, want):
            fails.append(f'(moveaxis{(s1, d1)} @ moveaxis{(s2, d2)}).reduce() changes the result')
        if len(fails) > 5:
            return fails
    for shape in [(2, 3), (2, 3, 4), (2, 3, 4, 5)]:
        nd = len(shape)
        for k in (1, 2):
            for src in itertools.permutations(range(-nd, nd), k):
                for dst in itertools.permutations(range(nd), k):
                    if len({s % nd for s in src}) != k:
                        continue
                    x = np.arange(int(np.prod(shape)), dtype=np.float32).reshape(shape)
                    ref = np.moveaxis(x, src, dst)
                    op = MoveAxisOperator(src if k > 1 else src[0], dst if k > 1 else dst[0], in_structure=S(shape))
                    y = op(jnp.asarray(x))
                    if not close(y, ref):
                        fails.append(f'MoveAxisOperator({src},{dst}) differs from numpy.moveaxis on {shape}')
                    t = op.T
                    if not close(t(y), x) or t.in_structure() != op.out_structure():
                        fails.append(f'MoveAxisOperator({src},{dst}).T is not the inverse on {shape}')
                    red = (t @ op).reduce()
                    if not close(red(jnp.asarray(x)), x):
                        fails.append(f'(M.T @ M).reduce() wrong for MoveAxisOperator({src},{dst})')
                    if len(fails) > 5:
                        return fails
    return fails

"""Native oracles for C19: run event histories (enter / exit / exit-by-exception / create-inverse / apply-inverse /
read) against the real furax.Config and compare with the obvious reference model (a stack of settings);
`threads` runs such histories concurrently in real threads, in copy_context().run and in asyncio tasks."""
import asyncio
import contextvars
import threading

import jax
import jax.numpy as jnp
import lineax as lx
import numpy as np

FIELDS = ('solver', 'solver_throw', 'solver_options', 'solver_callback')


class Boom(Exception):
    pass


def _values(rng):
    """a fresh distinct value for every setting"""
    tag = int(rng.integers(1, 10 ** 6))

    def cb(solution, tag=tag):
        _CALLBACKS.append(tag)
    cb.tag = tag
    return {
        'solver': lx.CG(rtol=1e-5, atol=1e-5, max_steps=100 + tag % 50),
        'solver_throw': bool(rng.integers(0, 2)),
        'solver_options': {'note': tag},
        'solver_callback': cb,
    }


_CALLBACKS: list = []
_SOLVES: list = []


def _operator():
    from furax._base.dense import DenseBlockDiagonalOperator
    s = jax.ShapeDtypeStruct((3,), jnp.float32)
    return DenseBlockDiagonalOperator(jnp.array([[2., 1, 0], [1, 3, 1], [0, 1, 4]]), s, 'ij,j->i')


def _as_dict(state):
    return {f: getattr(state, f) for f in FIELDS}


def _same(a: dict, b: dict):
    return all(a[f] is b[f] or (f in ('solver_throw', 'solver_options') and a[f] == b[f]) for f in FIELDS)


class Runner:
    """executes one random well-nested history and records every disagreement with the reference model"""

    def __init__(self, rng, fails, label='', max_depth=4, budget=40):
        from furax import Config
        from furax._base.core import InverseOperator
        self.Config, self.Inverse = Config, InverseOperator
        self.rng, self.fails, self.label = rng, fails, label
        self.max_depth, self.budget = max_depth, budget
        self.inverses = []          # (inverse, expected settings at creation)
        self.A = _operator()

    def fail(self, msg):
        if len(self.fails) < 8:
            self.fails.append(f'{self.label}{msg}')

    def read(self, expected, where):
        got = self.Config.instance()
        if not _same(_as_dict(got), expected):
            self.fail(f'{where}: active configuration differs from the innermost block\'s (got '
                      f'{ {f: (getattr(got, f) is expected[f]) for f in FIELDS} })')
        return got

    def create(self, expected):
        inv = self.Inverse(self.A)
        if not _same(_as_dict(inv.config), expected):
            self.fail('InverseOperator.config is not the configuration active at creation')
        self.inverses.append((inv, dict(expected)))

    def apply(self):
        if not self.inverses:
            return
        inv, exp = self.inverses[int(self.rng.integers(0, len(self.inverses)))]
        del _SOLVES[:]
        y = inv(jnp.array([1., 2, 3]))
        jax.block_until_ready(y)
        if len(_SOLVES) != 1:
            self.fail(f'apply: {len(_SOLVES)} calls of linear_solve')
            return
        k = _SOLVES[0]
        if k.get('solver') is not exp['solver']:
            self.fail('apply: the solver used is not the one active when the inverse was created')
        if k.get('throw') != exp['solver_throw']:
            self.fail('apply: throw differs from the setting captured at creation')
        if dict(k.get('options') or {}) != exp['solver_options']:
            self.fail('apply: options differ from those captured at creation')
        if not np.allclose(np.asarray(self.A(y)), [1, 2, 3], atol=1e-3):
            self.fail('apply: wrong solution')

    def block(self, expected, depth, forced=None):
        """one with-block; returns normally whether its body raised or not"""
        named = forced if forced is not None else [f for f in FIELDS if self.rng.integers(0, 2)]
        vals = _values(self.rng)
        kw = {f: vals[f] for f in named}
        inner = dict(expected)
        inner.update(kw)
        before = self.Config.instance()
        raises = bool(self.rng.integers(0, 3) == 0)
        try:
            with self.Config(**kw) as entered:
                got = self.read(inner, f'depth {depth} inside')
                if entered is not got:
                    self.fail('`with Config(...) as c`: c is not the active configuration')
                self.events(inner, depth)
                self.read(inner, f'depth {depth} after the events of the body')
                if raises:
                    raise Boom()
            if raises:
                self.fail(f'depth {depth}: the exception raised in the body was swallowed by the block')
        except Boom:
            if not raises:
                raise
        after = self.Config.instance()
        if after is not before:
            self.fail(f'depth {depth}: leaving the block {"by an exception" if raises else "normally"} did not restore '
                      f'the configuration that was active before it')
        self.read(expected, f'depth {depth} after the block')

    def events(self, expected, depth):
        n = int(self.rng.integers(0, 4))
        for _ in range(n):
            self.budget -= 1
            if self.budget <= 0:
                return
            e = int(self.rng.integers(0, 5))
            if e == 0:
                self.read(expected, f'depth {depth} read')
            elif e == 1:
                self.create(expected)
            elif e == 2:
                self.apply()
            elif depth < self.max_depth:
                self.block(expected, depth + 1)


def _patched_solve():
    orig = lx.linear_solve

    def rec(*a, **k):
        _SOLVES.append(k)
        return orig(*a, **k)
    return orig, rec


def _guard(fails, label, f):
    """an exception escaping a well-nested history (other than the test's own Boom) is a failure of the property"""
    try:
        f()
    except Exception as e:      # noqa: BLE001
        fails.append(f'{label}: a well-nested history raised {type(e).__name__}: {str(e)[:80]}')


def _nested(Config, defaults, fails):
    for inner_raises in (False, True):
        v1, v2 = _values(np.random.default_rng(1)), _values(np.random.default_rng(2))
        before = Config.instance()
        try:
            with Config(solver=v1['solver'], solver_throw=True) as outer:
                with Config(solver_throw=False, solver_options=v2['solver_options']) as inner:
                    if inner.solver is not v1['solver'] or inner.solver_throw is not False or \
                            inner.solver_options != v2['solver_options']:
                        fails.append('nested: inner block does not inherit the outer settings / override the named ones')
                    if inner_raises:
                        raise Boom()
                if Config.instance() is not outer:
                    fails.append('nested: leaving the inner block does not restore the outer configuration')
        except Boom:
            pass
        if Config.instance() is not before:
            fails.append(f'nested (inner raises: {inner_raises}): leaving the outer block does not restore the initial configuration')


def _prepared_up_front(Config, fails):
    """Config objects built first (under the defaults) and entered later, nested: leaving the inner block restores the
    configuration active when it was ENTERED (the outer one), on normal and exceptional exit"""
    for inner_raises in (False, True):
        v1, v2 = _values(np.random.default_rng(3)), _values(np.random.default_rng(4))
        before = Config.instance()
        a = Config(solver=v1['solver'], solver_throw=True)
        b = Config(solver_options=v2['solver_options'])
        try:
            with a as outer:
                try:
                    with b:
                        if inner_raises:
                            raise Boom()
                except Boom:
                    pass
                if Config.instance() is not outer:
                    fails.append(f'objects prepared up front (inner raises: {inner_raises}): leaving the inner block does not '
                                 f'restore the configuration that was active when it was entered')
        finally:
            pass
        if Config.instance() is not before:
            fails.append(f'objects prepared up front (inner raises: {inner_raises}): the initial configuration is not restored')
        # the same object entered twice in a row
        with a:
            pass
        with a as again:
            if Config.instance() is not again:
                fails.append('a Config object entered a second time does not become current')
        if Config.instance() is not before:
            fails.append('a Config object entered twice: the initial configuration is not restored')


def _preconditioned(Config, fails):
    """a configuration whose solver options carry a preconditioner: applying an inverse created under it leaves the
    configuration, the caller's option dict and what later inverses capture exactly as the block set them"""
    from furax._base.core import InverseOperator
    from furax._base.diagonal import DiagonalOperator
    s = jax.ShapeDtypeStruct((3,), jnp.float32)
    pre = DiagonalOperator(jnp.array([0.5, 0.33, 0.25], jnp.float32), in_structure=s)
    opts = {'preconditioner': pre, 'note': 7}
    with Config(solver_options=opts) as outer:
        with Config(solver_throw=False):
            inv = InverseOperator(_operator())
            inv.mv(jnp.array([1., 2., 3.], jnp.float32))
            inner_opts = Config.instance().solver_options
            if inner_opts.get('preconditioner') is not pre:
                fails.append('preconditioned: applying an inverse changed the active configuration (its preconditioner is now '
                             f'a {type(inner_opts.get("preconditioner")).__name__})')
        if Config.instance() is not outer or outer.solver_options.get('preconditioner') is not pre:
            fails.append('preconditioned: leaving the inner block does not restore the outer configuration as it was set')
        later = InverseOperator(_operator())
        if later.config.solver_options.get('preconditioner') is not pre:
            fails.append('preconditioned: an inverse created later in the block captures '
                         f'{type(later.config.solver_options.get("preconditioner")).__name__} instead of the configured preconditioner')
    if opts != {'preconditioner': pre, 'note': 7} or opts['preconditioner'] is not pre:
        fails.append('preconditioned: the option dict given to Config(...) was modified by applying an inverse')


def history(w, seed, spec):
    from furax import Config
    from furax._base.config import ConfigState
    fails: list = []
    orig, rec = _patched_solve()
    lx.linear_solve = rec
    try:
        defaults = _as_dict(Config.instance())
        d0 = ConfigState()
        if not (defaults['solver_throw'] == d0.solver_throw and defaults['solver_options'] == d0.solver_options
                and defaults['solver_callback'] is d0.solver_callback and type(defaults['solver']) is type(d0.solver)):
            fails.append('with no block active the configuration is not the default ConfigState()')
        # the witness: which settings the (outer) block names, how it is left
        rng = np.random.default_rng(seed)
        named = [f for f in (w.get('named') or []) if f in FIELDS]
        r = Runner(rng, fails, 'witness: ')
        _guard(fails, 'witness', lambda: r.block(defaults, 1, forced=named))
        if w.get('named_inner') is not None:
            _guard(fails, 'witness (inner)', lambda: r.block(defaults, 1, forced=[f for f in w['named_inner'] if f in FIELDS]))
        # depth-2 nesting, normal and raising exits, deterministic
        _guard(fails, 'nested', lambda: _nested(Config, defaults, fails))
        _guard(fails, 'prepared up front', lambda: _prepared_up_front(Config, fails))
        _guard(fails, 'preconditioned', lambda: _preconditioned(Config, fails))
        try:
            Config(no_such_setting=1)
            fails.append('Config(no_such_setting=...) accepted')
        except TypeError:
            pass
        # seeded family of histories
        for i in range(12):
            rr = Runner(np.random.default_rng(seed * 1000 + i), fails, f'history {i}: ')

            def one(rr=rr):
                for _ in range(3):
                    rr.block(defaults, 1)
                rr.create(defaults)
                rr.apply()
            _guard(fails, f'history {i}', one)
            if not _same(_as_dict(Config.instance()), defaults):
                fails.append(f'history {i}: does not end with the defaults')
            if len(fails) > 5:
                break
    finally:
        lx.linear_solve = orig
    return fails


def threads(w, seed, spec):
    """configuration changes made in one thread / context / task are never visible in another"""
    from furax import Config
    fails: list = []
    orig, rec = _patched_solve()
    defaults = _as_dict(Config.instance())
    nthreads = 4
    barrier = threading.Barrier(nthreads)
    per_thread: list = [[] for _ in range(nthreads)]

    def work(i):
        rng = np.random.default_rng(seed * 100 + i)
        vals = _values(rng)
        try:
            barrier.wait(timeout=30)
            if not _same(_as_dict(Config.instance()), defaults):
                per_thread[i].append(f'thread {i}: starts with another thread\'s configuration')
            with Config(**vals):
                barrier.wait(timeout=30)            # every thread is now inside its own block
                got = _as_dict(Config.instance())
                exp = dict(defaults)
                exp.update(vals)
                if not _same(got, exp):
                    per_thread[i].append(f'thread {i}: sees a configuration set in another thread')
                barrier.wait(timeout=30)
                # a nested history while the others are active
                r = Runner(rng, per_thread[i], f'thread {i}: ', max_depth=3, budget=12)
                r.inverses = []
                r.apply = lambda: None        # linear_solve recording is process-global: not used under threads
                r.block(exp, 2)
                barrier.wait(timeout=30)
            if not _same(_as_dict(Config.instance()), defaults):
                per_thread[i].append(f'thread {i}: does not end with the defaults')
        except threading.BrokenBarrierError:
            per_thread[i].append(f'thread {i}: barrier broken')
        except Exception as e:      # noqa: BLE001
            per_thread[i].append(f'thread {i}: {type(e).__name__}: {e}')
    ts = [threading.Thread(target=work, args=(i,)) for i in range(nthreads)]
    with Config(solver_throw=True):       # the main thread is inside a block while the others start
        main_inside = _as_dict(Config.instance())
        for t in ts:
            t.start()
        for t in ts:
            t.join(120)
        if not _same(_as_dict(Config.instance()), main_inside):
            fails.append('main thread: configuration changed by another thread')
    for p in per_thread:
        fails.extend(p)
    # copy_context().run: changes inside do not leak out, the copy starts from the current binding
    vals = _values(np.random.default_rng(seed))

    def inside():
        cm = Config(**vals)
        cm.__enter__()               # deliberately left open inside the copied context
        return _as_dict(Config.instance())
    with Config(solver_throw=True):
        here = _as_dict(Config.instance())
        got = contextvars.copy_context().run(inside)
        exp = dict(here)
        exp.update(vals)
        if not _same(got, exp):
            fails.append('copy_context().run: block inside the copy does not inherit the current configuration')
        if not _same(_as_dict(Config.instance()), here):
            fails.append('copy_context().run: configuration set inside the copy leaked out')
    # asyncio tasks interleaved at await points
    async def task(i, log):
        v = _values(np.random.default_rng(seed + 17 * i))
        with Config(**v):
            await asyncio.sleep(0)
            e = dict(defaults)
            e.update(v)
            if not _same(_as_dict(Config.instance()), e):
                log.append(f'asyncio task {i}: sees another task\'s configuration')
            await asyncio.sleep(0)
        if not _same(_as_dict(Config.instance()), defaults):
            log.append(f'asyncio task {i}: does not end with the defaults')

    async def main():
        log: list = []
        await asyncio.gather(*[task(i, log) for i in range(4)])
        return log
    fails.extend(asyncio.run(main()))
    if not _same(_as_dict(Config.instance()), defaults):
        fails.append('after all threads and tasks: not the defaults')
    _ = orig, rec
    return fails[:8]


def jit_capture(w, seed, spec):
    """capture at creation must survive jit caching: two lazy inverses of the same operator, created in Config blocks
    that differ in exactly one setting, passed as ARGUMENTS to one jitted function (both orders, jax.jit and
    equinox.filter_jit): each application must use the setting of its own creation block"""
    import equinox
    from furax import Config
    from furax._base.core import InverseOperator
    fails: list = []
    orig, rec = _patched_solve()
    lx.linear_solve = rec
    A = _operator()
    x = jnp.array([1., 2, 3])
    log: list = []

    def cb(name):
        def f(solution):
            log.append(name)
        return f
    variants = {
        'solver_callback': (cb('first'), cb('second')),
        'solver': (lx.CG(rtol=1e-5, atol=1e-5, max_steps=100), lx.CG(rtol=1e-5, atol=1e-5, max_steps=101)),
        'solver_throw': (False, True),
        'solver_options': ({'note': 1}, {'note': 2}),
    }
    first = w.get('differs_in') or spec.get('field')
    order = ([first] if first in variants else []) + [k for k in variants if k != first]
    try:
        for name in order:
            v1, v2 = variants[name]
            with Config(**{name: v1}):
                inv1 = InverseOperator(A)
            with Config(**{name: v2}):
                inv2 = InverseOperator(A)
            if inv1.config == inv2.config or not (inv1.config != inv2.config):
                fails.append(f'configurations differing only in {name} compare equal')
            for jit_name, jit in (('jax.jit', jax.jit), ('equinox.filter_jit', equinox.filter_jit)):
                for a, b, tags in ((inv1, inv2, ('first', 'second')), (inv2, inv1, ('second', 'first'))):
                    f = jit(lambda o, v: o(v))
                    del _SOLVES[:]
                    del log[:]
                    try:
                        ya = f(a, x)
                        jax.effects_barrier()
                        yb = f(b, x)
                        jax.effects_barrier()
                    except Exception as e:      # noqa: BLE001
                        fails.append(f'{jit_name}, differing in {name}: {type(e).__name__}: {str(e)[:80]}')
                        continue
                    if name == 'solver_callback':
                        if log != list(tags):
                            fails.append(f'{jit_name}: inverses created under blocks differing only in solver_callback, passed '
                                         f'as arguments to one jitted function: callbacks called {log}, expected {list(tags)} '
                                         f'(the second inverse reports to the first block\'s callback)')
                    else:
                        key = {'solver': 'solver', 'solver_throw': 'throw', 'solver_options': 'options'}[name]
                        want = [getattr(a.config, name), getattr(b.config, name)]
                        got = [k.get(key) for k in _SOLVES]
                        same = len(got) == 2 and all(g is w_ or g == w_ for g, w_ in zip(got, want))
                        if not same:
                            fails.append(f'{jit_name}: inverses differing only in {name} passed as arguments to one jitted '
                                         f'function: traces used {got}, expected {want} (trace shared between the two)')
                    if not (np.allclose(np.asarray(A(ya)), [1, 2, 3], atol=1e-3) and np.allclose(np.asarray(A(yb)), [1, 2, 3], atol=1e-3)):
                        fails.append(f'{jit_name}, differing in {name}: wrong solution')
            if len(fails) > 5:
                break
    finally:
        lx.linear_solve = orig
    return fails[:8]

"""Seeded generator of furax operator expressions for the native oracles (C01, C02, C03, C05, C07, C10).

Everything is built from the public constructors of the real library.  Dense matrices are always
computed through `mv` only (column by column), never through furax's own `as_matrix` overrides."""
import itertools

import jax
import jax.numpy as jnp
import numpy as np

from furax._base.blocks import BlockColumnOperator, BlockDiagonalOperator, BlockRowOperator
from furax._base.core import (AbstractLinearOperator, AdditionOperator, CompositionOperator, HomothetyOperator,
                              IdentityOperator)
from furax._base.dense import DenseBlockDiagonalOperator
from furax._base.diagonal import BroadcastDiagonalOperator, DiagonalOperator
from furax._base.axes import MoveAxisOperator, RavelOperator, ReshapeOperator
from furax._base.indices import IndexOperator
from furax._base.linear import PackOperator
from furax.landscapes import StokesIQUPyTree, StokesPyTree
from furax.operators.hwp import HWPOperator
from furax.operators.polarizers import LinearPolarizerOperator
from furax.operators.qu_rotations import QURotationOperator
from furax.operators.toeplitz import SymmetricBandToeplitzOperator

F32 = jnp.float32


def S(shape, dtype=F32):
    return jax.ShapeDtypeStruct(tuple(shape), dtype)


def flat(tree):
    leaves = jax.tree.leaves(tree)
    return np.concatenate([np.asarray(l, dtype=np.float64).ravel() for l in leaves]) if leaves else np.zeros(0)


def basis(structure):
    leaves, treedef = jax.tree.flatten(structure)
    for k, leaf in enumerate(leaves):
        n = int(np.prod(leaf.shape))
        for i in range(n):
            out = [jnp.zeros(l.shape, l.dtype) for l in leaves]
            out[k] = jnp.zeros(n, leaf.dtype).at[i].set(1).reshape(leaf.shape)
            yield jax.tree.unflatten(treedef, out)


def dense(op):
    """matrix of op: column j = op.mv(e_j) flattened (leaves in pytree order, each row-major); pure Python loop"""
    cols = [flat(op.mv(e)) for e in basis(op.in_structure())]
    if not cols:
        return np.zeros((sum(int(np.prod(l.shape)) for l in jax.tree.leaves(op.out_structure())), 0))
    return np.stack(cols, axis=1)


def close(a, b, tol=1e-4):
    a, b = np.asarray(a), np.asarray(b)
    return a.shape == b.shape and bool(np.allclose(a, b, rtol=tol, atol=tol))


def same_structure(a, b):
    return jax.tree.structure(a) == jax.tree.structure(b) and all(
        x.shape == y.shape and x.dtype == y.dtype for x, y in zip(jax.tree.leaves(a), jax.tree.leaves(b)))


class Gen:
    """random operators over a few fixed structures"""

    def __init__(self, seed):
        self.rng = np.random.default_rng(seed)

    def vals(self, *shape, zeros=False):
        v = self.rng.uniform(0.5, 2.0, shape) * self.rng.choice([-1.0, 1.0], shape)
        if zeros and v.size:
            v.reshape(-1)[self.rng.integers(0, v.size)] = 0.0
        return jnp.asarray(v, F32)

    # ---------------------------------------------------------------- square operators on a structure
    def square_atoms(self, s, allow_zero_diag=False):
        """list of (name, operator) that are square on structure s"""
        out = [('I', IdentityOperator(s)), ('H', HomothetyOperator(jnp.asarray(self.rng.uniform(0.5, 2.0), F32), s))]
        leaves = jax.tree.leaves(s)
        if all(l.ndim >= 1 for l in leaves):
            last = {l.shape[-1] for l in leaves}
            if len(last) == 1:
                n = last.pop()
                out.append(('D', DiagonalOperator(self.vals(n, zeros=allow_zero_diag), in_structure=s)))
                if isinstance(s, jax.ShapeDtypeStruct):
                    out.append(('T', SymmetricBandToeplitzOperator(self.vals(min(2, n)), s, method='dense')))
                    out.append(('E', DenseBlockDiagonalOperator(self.vals(n, n), s, 'ij,...j->...i')))
        if isinstance(s, StokesPyTree):
            out.append(('R', QURotationOperator(self.vals(*s.shape), s)))
            out.append(('W', HWPOperator(s)))
        return out

    def rect_pairs(self, s):
        """(name, P) with P: s -> other structure, whose transposes/inverses are interesting"""
        out = []
        if isinstance(s, jax.ShapeDtypeStruct) and s.ndim == 2:
            out.append(('Mv', MoveAxisOperator(0, 1, in_structure=s)))
            out.append(('Rv', RavelOperator(in_structure=s)))
            out.append(('Rs', ReshapeOperator((-1,), in_structure=s)))
            n = s.shape[0]
            idx = jnp.asarray(self.rng.integers(0, n, n + 1))
            o = jax.eval_shape(lambda x: x[idx], s)
            out.append(('Ix', IndexOperator(idx, in_structure=s, out_structure=o)))
            sl = jax.eval_shape(lambda x: x[1:], s)
            out.append(('Is', IndexOperator(slice(1, None), in_structure=s, out_structure=sl)))
            mask = jnp.asarray(self.rng.integers(0, 2, s.shape).astype(bool)).at[0, 0].set(True)
            out.append(('Pk', PackOperator(mask, s)))
            if s.shape[0] == 2:
                out.append(('Bd', BroadcastDiagonalOperator(self.vals(2, s.shape[-1]), axis_destination=-1, in_structure=s)))
        if isinstance(s, StokesPyTree):
            out.append(('Lp', LinearPolarizerOperator(s)))
        return out

    def structures(self):
        return [S((3,)), S((2, 3)), StokesIQUPyTree.structure_for((2,), F32), {'a': S((2,)), 'b': S((3, 2))}]

    def pick(self, xs):
        return xs[int(self.rng.integers(0, len(xs)))]

    # ---------------------------------------------------------------- expressions
    def square_expr(self, s, depth, allow_zero_diag=False):
        """(description, operator), square on s"""
        atoms = self.square_atoms(s, allow_zero_diag)
        if depth == 0:
            return self.pick(atoms)
        kind = self.pick(['atom', 'chain', 'chain', 'chain', 'sum', 'T', 'I', 'scal', 'sandwich', 'blockdiag'])
        if kind == 'atom':
            return self.pick(atoms)
        if kind == 'chain':
            n = int(self.rng.integers(2, 5))
            parts = [self.square_expr(s, depth - 1, allow_zero_diag) for _ in range(n)]
            return ('C[' + ','.join(p[0] for p in parts) + ']', CompositionOperator([p[1] for p in parts]))
        if kind == 'sum':
            a, b = self.square_expr(s, depth - 1, allow_zero_diag), self.square_expr(s, depth - 1, allow_zero_diag)
            return (f'({a[0]}+{b[0]})', a[1] + b[1])
        if kind == 'T':
            a = self.square_expr(s, depth - 1, allow_zero_diag)
            return (a[0] + '.T', a[1].T)
        if kind == 'I':
            a = self.pick([x for x in atoms if x[0] in ('I', 'H', 'D', 'R', 'W')])
            b = self.pick(['AiA', 'AAi', 'Ai'])
            if b == 'AiA':
                return (f'C[{a[0]}.I,{a[0]}]', CompositionOperator([a[1].I, a[1]]))
            if b == 'AAi':
                return (f'C[{a[0]},{a[0]}.I]', CompositionOperator([a[1], a[1].I]))
            return (a[0] + '.I', a[1].I)
        if kind == 'scal':
            a = self.square_expr(s, depth - 1, allow_zero_diag)
            k = float(self.rng.uniform(0.5, 2.0))
            return (f'{k:.2f}*{a[0]}', k * a[1])
        if kind == 'sandwich':
            ps = self.rect_pairs(s)
            if not ps:
                return self.pick(atoms)
            p = self.pick(ps)
            inner = self.square_expr(p[1].out_structure(), depth - 1, allow_zero_diag) \
                if p[0] != 'Lp' else ('I', IdentityOperator(p[1].out_structure()))
            return (f'C[{p[0]}.T,{inner[0]},{p[0]}]', CompositionOperator([p[1].T, inner[1], p[1]]))
        if kind == 'blockdiag':
            a, b = self.square_expr(s, depth - 1, allow_zero_diag), self.square_expr(s, depth - 1, allow_zero_diag)
            bd1 = BlockDiagonalOperator([a[1], b[1]])
            c, d = self.square_expr(s, depth - 1, allow_zero_diag), self.square_expr(s, depth - 1, allow_zero_diag)
            bd2 = BlockDiagonalOperator([c[1], d[1]])
            col = BlockColumnOperator([IdentityOperator(s), IdentityOperator(s)])
            row = BlockRowOperator([IdentityOperator(s), IdentityOperator(s)])
            return (f'C[Row,BD[{a[0]},{b[0]}],BD[{c[0]},{d[0]}],Col]', CompositionOperator([row, bd1, bd2, col]))
        raise AssertionError(kind)

    def expressions(self, n, depth=2, allow_zero_diag=False):
        out = []
        structs = self.structures()
        for i in range(n):
            s = structs[i % len(structs)]
            out.append(self.square_expr(s, depth, allow_zero_diag))
        return out


def fixed_chains():
    """hand-picked chains exercising every documented rule, in neighbourhoods of other operators"""
    g = Gen(12345)
    out = []
    s = S((2, 3))
    st = StokesIQUPyTree.structure_for((2,), F32)
    X = DenseBlockDiagonalOperator(g.vals(3, 3), s, 'ij,...j->...i')
    Xs = DiagonalOperator(g.vals(2), in_structure=st)
    I, H1, H2 = IdentityOperator(s), HomothetyOperator(jnp.asarray(2., F32), s), HomothetyOperator(jnp.asarray(3., F32), s)
    D = DiagonalOperator(g.vals(3), in_structure=s)
    out += [('I,I', CompositionOperator([I, I])), ('X,I,X', CompositionOperator([X, I, X])),
            ('H,X,H', CompositionOperator([H1, X, H2])), ('X,H,X,H,I', CompositionOperator([X, H1, X, H2, I])),
            ('X,D.I,D,X', CompositionOperator([X, D.I, D, X])), ('D,D.I', CompositionOperator([D, D.I])),
            ]
    M = np.asarray(g.vals(3, 3), np.float64)
    Xspd = DenseBlockDiagonalOperator(jnp.asarray(M.T @ M + 3 * np.eye(3), F32), s, 'ij,...j->...i')
    out += [('Xspd.I,Xspd', CompositionOperator([Xspd.I, Xspd])), ('X,Xspd,Xspd.I,X', CompositionOperator([X, Xspd, Xspd.I, X]))]
    R1, R2, W = QURotationOperator(g.vals(2), st), QURotationOperator(g.vals(2), st), HWPOperator(st)
    Lp = LinearPolarizerOperator(st)
    for name, ops in [('R,R', [R1, R2]), ('R.T,R', [R1.T, R2]), ('R,R.T', [R1, R2.T]), ('R.T,R.T', [R1.T, R2.T]),
                      ('R,W', [R1, W]), ('R.T,W', [R1.T, W]), ('Lp,W', [Lp, W]), ('Lp,W,R', [Lp, W, R1]),
                      ('Xs,R,R,W,Xs', [Xs, R1, R2, W, Xs]), ('Lp,R,W,R.T,R', [Lp, R1, W, R2.T, R1]),
                      ('R.T,W,R', [R1.T, W, R1])]:
        out.append((name, CompositionOperator(ops)))
    for nm, P in g.rect_pairs(s):
        out.append((f'{nm},{nm}.T', CompositionOperator([P, P.T])))
        out.append((f'{nm}.T,{nm}', CompositionOperator([P.T, P])))
        Y = DiagonalOperator(g.vals(jax.tree.leaves(P.out_structure())[0].shape[-1]), in_structure=P.out_structure())
        out.append((f'Y,{nm},{nm}.T,Y', CompositionOperator([Y, P, P.T, Y])))
        out.append((f'X,{nm}.T,{nm},X', CompositionOperator([X, P.T, P, X])))
    Mv = MoveAxisOperator(0, 1, in_structure=s)
    Mv2 = MoveAxisOperator(1, 0, in_structure=Mv.out_structure())
    out.append(('Mv2,Mv', CompositionOperator([Mv2, Mv])))
    # nested / sandwiched patterns: an inner pair that cancels completely leaves an outer pair that is reducible too
    for nm, P in g.rect_pairs(s):
        if nm in ('Ix', 'Bd'):
            continue            # not duplicate-free / not a selection: P @ P.T is not rewritten
        o = P.out_structure()
        try:
            last = jax.tree.leaves(o)[0].shape[-1]
            A = DiagonalOperator(g.vals(last), in_structure=o)
            A2 = DiagonalOperator(g.vals(last), in_structure=o)
            out.append((f'A.I,{nm},{nm}.T,A', CompositionOperator([A.I, P, P.T, A])))
            out.append((f'X,A.I,{nm},{nm}.T,A,X', CompositionOperator([A2, A.I, P, P.T, A, A2])))
        except Exception:       # noqa: BLE001  (structure on which no diagonal can be laid)
            pass
        if isinstance(o, jax.ShapeDtypeStruct) and o.ndim == 2:
            for nm2, Q in Gen(7).rect_pairs(o):
                if nm2 in ('Ix', 'Bd'):
                    continue
                out.append((f'{nm2},{nm},{nm}.T,{nm2}.T', CompositionOperator([Q, P, P.T, Q.T])))
    out.append(('Rv,Mv2,Mv,Rv.T', CompositionOperator([RavelOperator(in_structure=s), Mv2, Mv, RavelOperator(in_structure=s).T])))
    Rr = RavelOperator(in_structure=s)
    out.append(('Pk2,Rv,Rv.T,Pk2.T', CompositionOperator([
        PackOperator(jnp.asarray([True, False, True, True, False, True]), Rr.out_structure()), Rr, Rr.T,
        PackOperator(jnp.asarray([True, False, True, True, False, True]), Rr.out_structure()).T])))
    Ms = MoveAxisOperator(0, 0, in_structure=st)
    out.append(('R,Ms,Ms.T,R', CompositionOperator([R1, Ms, Ms.T, R2])))
    A, B2 = DiagonalOperator(g.vals(3), in_structure=s), DiagonalOperator(g.vals(3), in_structure=s)
    bd = BlockDiagonalOperator([A, B2])
    out += [('BD,BD', CompositionOperator([bd, BlockDiagonalOperator([B2, A])])),
            ('Row,BD', CompositionOperator([BlockRowOperator([A, B2]), bd])),
            ('BD,Col', CompositionOperator([bd, BlockColumnOperator([A, B2])])),
            ('Row,Col', CompositionOperator([BlockRowOperator([A, B2]), BlockColumnOperator([B2, A])])),
            ('BD{dict}', CompositionOperator([BlockDiagonalOperator({'x': A, 'y': B2}), BlockDiagonalOperator({'x': B2, 'y': A})])),
            ('A+B', AdditionOperator([A, B2])), ('Add[A]', AdditionOperator([A])),
            ('BD[I,I]', BlockDiagonalOperator([I, I])), ('BD.I', bd.I), ('BD.T', bd.T)]
    # block containers whose blocks hold no array data (only static fields)
    out += [('BD[W,W]', BlockDiagonalOperator([W, W])), ('BD{W,W}', BlockDiagonalOperator({'f1': W, 'f2': W})),
            ('BD[Lp,Lp]', BlockDiagonalOperator([Lp, Lp])), ('BD[Mv,Mv]', BlockDiagonalOperator([Mv, Mv])),
            ('BD[Lp,Lp],BD[W,W]', CompositionOperator([BlockDiagonalOperator([Lp, Lp]), BlockDiagonalOperator([W, W])])),
            ('BD[Rv,(Mv,Mv)]', BlockDiagonalOperator({'a': (Mv, Mv), 'b': RavelOperator(in_structure=s)})),
            ('BD[W,I]', BlockDiagonalOperator([W, IdentityOperator(st)]))]
    # containers with ONE part whose part is itself reducible: the part must come back reduced
    Pk1 = PackOperator(jnp.asarray([True, False, True, True, False, True]), Rr.out_structure())
    Yp = DiagonalOperator(g.vals(4), in_structure=Pk1.out_structure())
    out += [('Add[A.I@A]', AdditionOperator([CompositionOperator([A.I, A])])),
            ('X,Add[H@X@H],X', CompositionOperator([X, AdditionOperator([CompositionOperator([H1, X, H2])]), X])),
            ('Yp.I,Row[Pk],Col[Pk.T],Yp', CompositionOperator([Yp.I, BlockRowOperator([Pk1]), BlockColumnOperator([Pk1.T]), Yp])),
            ('Row[2Pk],Col[3Pk.T]', CompositionOperator([BlockRowOperator([H1.value * Pk1]), BlockColumnOperator([H2.value * Pk1.T])])),
            ('BD[A.I@A]', BlockDiagonalOperator([CompositionOperator([A.I, A])])),
            ('X,(D.I,D),X nested', CompositionOperator([X, CompositionOperator([D.I, D]), X]))]
    return out

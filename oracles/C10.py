"""Native oracle for C10: block row / diagonal / column operators against np.block of their blocks' dense matrices.

Dense matrices of the blocks are built column by column through `mv` only (oracles/catalog.dense), never through furax's
as_matrix overrides; the block operators' own `mv`, `as_matrix`, `.T`, `.I`, structures, constructors and rules are
the observables.  Witness first (container arity / nesting taken from the counter-model when present), then a seeded
family of containers (lists, tuples, dicts, nested, a single block, pytree-valued blocks)."""
import itertools
import time

import jax
import jax.numpy as jnp
import numpy as np

from . import catalog as K
from .C01 import reduce_family          # noqa: F401  (scenarios shared with C01 name this oracle)
from .C03 import adjoint_family         # noqa: F401  (scenarios shared with C03 name this oracle)
from furax._base.axes import MoveAxisOperator
from furax._base.blocks import AbstractBlockOperator, BlockColumnOperator, BlockDiagonalOperator, BlockRowOperator
from furax._base.core import CompositionOperator, HomothetyOperator, IdentityOperator
from furax._base.dense import DenseBlockDiagonalOperator
from furax._base.diagonal import DiagonalOperator

F32 = jnp.float32


def leaves(blocks):
    return jax.tree.leaves(blocks, is_leaf=lambda x: isinstance(x, K.AbstractLinearOperator))


def unflatten_like(blocks, xs):
    td = jax.tree.structure(blocks, is_leaf=lambda x: isinstance(x, K.AbstractLinearOperator))
    return jax.tree.unflatten(td, xs)


def sizes(structure):
    return sum(int(np.prod(l.shape)) for l in jax.tree.leaves(structure))


def reference(kind, blocks):
    mats = [K.dense(b) for b in leaves(blocks)]
    if kind == 'Row':
        return np.hstack(mats)
    if kind == 'Col':
        return np.vstack(mats)
    n, m = sum(a.shape[0] for a in mats), sum(a.shape[1] for a in mats)
    out = np.zeros((n, m))
    r = c = 0
    for a in mats:
        out[r:r + a.shape[0], c:c + a.shape[1]] = a
        r, c = r + a.shape[0], c + a.shape[1]
    return out


CLS = {'Row': BlockRowOperator, 'Diag': BlockDiagonalOperator, 'Col': BlockColumnOperator}


def check_block(name, kind, blocks, rng, check_inverse=True, single_row=False):
    """all clauses of the property for one container; returns a failure string or None.  Applying a block ROW with a
    single block is the listed finding C10-single-block-row: checked only when single_row is set"""
    bl = leaves(blocks)
    try:
        op = CLS[kind](blocks)
    except Exception as e:      # noqa: BLE001
        return f'{name}: constructor raised {type(e).__name__}: {str(e)[:80]}'
    ref = reference(kind, blocks)
    # ---- structures
    want_in = bl[0].in_structure() if kind == 'Col' else unflatten_like(blocks, [b.in_structure() for b in bl])
    want_out = bl[0].out_structure() if kind == 'Row' else unflatten_like(blocks, [b.out_structure() for b in bl])
    try:
        si, so = op.in_structure(), op.out_structure()
    except Exception as e:      # noqa: BLE001
        return f'{name}: structure method raised {type(e).__name__}'
    if jax.tree.structure(si) != jax.tree.structure(want_in) or not K.same_structure(si, want_in):
        return f'{name}: in_structure() is not the pytree of the blocks\' input structures'
    if jax.tree.structure(so) != jax.tree.structure(want_out) or not K.same_structure(so, want_out):
        return f'{name}: out_structure() is not the pytree of the blocks\' output structures'
    # ---- application on random inputs: value and pytree structure of the result
    for _ in range(2):
        lv, td = jax.tree.flatten(si)
        x = jax.tree.unflatten(td, [jnp.asarray(rng.standard_normal(l.shape), l.dtype) for l in lv])
        try:
            y = op.mv(x)
        except Exception as e:      # noqa: BLE001
            return f'{name}: mv raised {type(e).__name__}: {str(e)[:80]}'
        if jax.tree.structure(y) != jax.tree.structure(want_out) or not all(
                hasattr(l, 'shape') for l in jax.tree.leaves(y)):
            return f'{name}: mv(x) does not have the structure of out_structure() (got {jax.tree.structure(y)})'
        if not K.close(K.flat(y), ref @ K.flat(x)):
            return f'{name}: mv(x) != block matrix @ x'
    # ---- dense forms
    try:
        if not K.close(np.asarray(op.as_matrix()), ref):
            return f'{name}: as_matrix() != np.block of the dense blocks'
        if not K.close(K.dense(op), ref):
            return f'{name}: generic dense form != np.block of the dense blocks'
    except Exception as e:      # noqa: BLE001
        return f'{name}: dense form raised {type(e).__name__}: {str(e)[:80]}'
    # ---- transpose
    try:
        t = op.T
        if type(t) is not CLS[{'Row': 'Col', 'Diag': 'Diag', 'Col': 'Row'}[kind]]:
            return f'{name}: transpose is a {type(t).__name__}'
        if (kind != 'Col' or len(bl) > 1 or single_row) and not K.close(K.dense(t), ref.T):
            return f'{name}: dense(op.T) != block matrix transposed'
    except Exception as e:      # noqa: BLE001
        return f'{name}: transpose raised {type(e).__name__}: {str(e)[:80]}'
    # ---- inverse (block diagonal)
    if kind == 'Diag' and check_inverse:
        square = all(K.same_structure(b.in_structure(), b.out_structure()) and
                     jax.tree.structure(b.in_structure()) == jax.tree.structure(b.out_structure()) for b in bl)
        try:
            inv = op.I
        except ValueError:
            if square:
                return f'{name}: .I refused although every block is square'
            inv = None
        except Exception as e:      # noqa: BLE001
            return f'{name}: .I raised {type(e).__name__}: {str(e)[:80]}'
        if inv is not None:
            if not square:
                return f'{name}: a block diagonal with a non-square block was inverted block-wise instead of refused'
            if not isinstance(inv, BlockDiagonalOperator):
                return f'{name}: .I of square blocks is a {type(inv).__name__}, not block-wise'
            try:
                got = K.dense(inv)
            except Exception as e:      # noqa: BLE001
                return f'{name}: applying .I raised {type(e).__name__}: {str(e)[:80]}'
            if not K.close(got @ ref, np.eye(ref.shape[0]), 1e-3) or not K.close(ref @ got, np.eye(ref.shape[0]), 1e-3):
                return f'{name}: .I is not the inverse of the block matrix'
    return None


# ------------------------------------------------------------------------------------------------ containers
def atoms(rng, s_in, square=True, invertible=False):
    """operators s_in -> s_out (s_out = s_in when square)"""
    n = s_in.shape[-1]
    d = jnp.asarray(rng.uniform(0.5, 2.0, n) * rng.choice([-1., 1.], n), F32)
    out = [DiagonalOperator(d, in_structure=s_in), HomothetyOperator(jnp.asarray(rng.uniform(0.5, 2.), F32), s_in),
           IdentityOperator(s_in)]
    m = np.asarray(rng.standard_normal((n, n)))
    out.append(DenseBlockDiagonalOperator(jnp.asarray(m @ m.T + n * np.eye(n), F32), s_in, 'ij,...j->...i'))
    if not square:
        out = [DenseBlockDiagonalOperator(jnp.asarray(rng.standard_normal((n + 1, n)), F32), s_in, 'ij,...j->...i')]
    return out


def nest(shape, items):
    """lay `items` out in one of the container shapes"""
    it = list(items)
    if shape == 'list':
        return it
    if shape == 'tuple':
        return tuple(it)
    if shape == 'dict':
        return {f'k{i}': x for i, x in enumerate(it)}
    if shape == 'nested-list':
        return [it[:1], it[1:]] if len(it) > 1 else [it]
    if shape == 'dict-of-tuples':
        return {'a': it[0], 'b': tuple(it[1:])} if len(it) > 1 else {'a': (it[0],)}
    if shape == 'deep':
        out = [it[-1]]
        for x in reversed(it[:-1]):
            out = [x, out]
        return out
    raise AssertionError(shape)


SHAPES = ('list', 'tuple', 'dict', 'nested-list', 'dict-of-tuples', 'deep')


def containers(rng, kinds=('Row', 'Diag', 'Col'), arities=(1, 2, 3)):
    s = K.S((3,))
    s2 = K.S((2, 3))
    for kind in kinds:
        for n in arities:
            for shape in SHAPES:
                st = s if (n + len(shape)) % 2 else s2
                pool = atoms(rng, st)
                items = [pool[int(rng.integers(0, len(pool)))] for _ in range(n)]
                yield f'{kind}{n}:{shape}', kind, nest(shape, items)
    # blocks whose own input / output is a pytree
    sp = {'p': K.S((2,)), 'q': (K.S((2,)),)}
    for kind in kinds:
        a = DiagonalOperator(jnp.asarray([1., 2.], F32), in_structure=sp)
        b = HomothetyOperator(jnp.asarray(3., F32), sp)
        yield f'{kind}2:pytree-valued', kind, [a, b]
        yield f'{kind}1:pytree-valued', kind, {'only': a}
        # TUPLE-valued blocks (a tuple is also what the row fold uses for its pending (block, input) pair), arities 1-4
        tp = (K.S((2,)), K.S((2,)))
        pool = [HomothetyOperator(jnp.asarray(2., F32), tp), DiagonalOperator(jnp.asarray([1., 3.], F32), in_structure=tp),
                IdentityOperator(tp), HomothetyOperator(jnp.asarray(-1., F32), tp)]
        for n in (1, 2, 3, 4):
            yield f'{kind}{n}:tuple-valued', kind, list(pool[:n])
        yield f'{kind}3:tuple-valued-nested', kind, {'a': pool[0], 'b': [pool[1], pool[2]]}
    # rectangular blocks (different shared / free sides)
    r = atoms(rng, s, square=False)[0]
    yield 'Row2:rect', 'Row', [r, r]
    yield 'Col2:rect', 'Col', (r, r)
    yield 'Diag2:rect', 'Diag', {'x': r, 'y': DiagonalOperator(jnp.asarray([1., 2., 4.], F32), in_structure=s)}
    # a non-square block with a closed-form inverse of its own
    mv = MoveAxisOperator(0, 1, in_structure=s2)
    yield 'Diag2:moveaxis', 'Diag', [mv, DiagonalOperator(jnp.asarray([1., 2., 4.], F32), in_structure=s2)]


def constructor_cases(rng):
    s, t = K.S((3,)), K.S((2,))
    a, b = DiagonalOperator(jnp.ones(3, F32), in_structure=s), DiagonalOperator(jnp.ones(2, F32), in_structure=t)
    r = DenseBlockDiagonalOperator(jnp.ones((2, 3), F32), s, 'ij,...j->...i')          # (3,) -> (2,)
    fails = []
    for name, cls, blocks, must_raise in (
            ('Row[out differ]', BlockRowOperator, [a, b], True), ('Row[out differ, later]', BlockRowOperator, [a, a, b], True),
            ('Row[in differ, out shared]', BlockRowOperator, [r, b], False), ('Col[in differ]', BlockColumnOperator, [a, b], True),
            ('Col[in differ, later]', BlockColumnOperator, {'x': a, 'y': a, 'z': b}, True),
            ('Col[out differ, in shared]', BlockColumnOperator, [r, a], False), ('Diag[anything]', BlockDiagonalOperator, [a, b, r], False)):
        try:
            cls(blocks)
            raised = None
        except Exception as e:      # noqa: BLE001
            raised = type(e).__name__
        if must_raise and raised != 'ValueError':
            fails.append(f'{name}: expected ValueError, got {raised}')
        if not must_raise and raised is not None:
            fails.append(f'{name}: refused with {raised} although the shared structures agree')
    # shared structures that are pytrees: the same leaves in a different container are different structures
    from furax._base.core import IdentityOperator
    trees = {'tuple': (s, t), 'list': [s, t], 'dict iq': {'i': s, 'q': t}, 'dict qu': {'q': s, 'u': t}, 'nested': ((s,), t),
             'weak dtype twin': (K.S((3,), F32), K.S((2,), F32))}
    for (na, ta), (nb, tb) in itertools.permutations(trees.items(), 2):
        same = jax.tree.structure(ta) == jax.tree.structure(tb)
        for cname, cls in (('Row', BlockRowOperator), ('Col', BlockColumnOperator)):
            for blocks in ([IdentityOperator(ta), IdentityOperator(tb)], {'x': IdentityOperator(ta), 'y': IdentityOperator(ta),
                                                                          'z': IdentityOperator(tb)}):
                try:
                    cls(blocks)
                    raised = None
                except Exception as e:      # noqa: BLE001
                    raised = type(e).__name__
                if not same and raised != 'ValueError':
                    fails.append(f'{cname}[shared structure {na} vs {nb}]: expected ValueError, got {raised}')
                if same and raised is not None:
                    fails.append(f'{cname}[shared structure {na} vs {nb}]: refused with {raised} although the structures are equal')
    return fails[:8]


def rule_cases(rng):
    """adjacent block operators of the same layout reduce to the block-wise products (a sum for row x column)"""
    fails = []
    s = K.S((3,))
    for shape in SHAPES:
        for n in (1, 2, 3):
            pool = atoms(rng, s)
            pick = lambda: nest(shape, [pool[int(rng.integers(0, len(pool)))] for _ in range(n)])      # noqa: E731
            for lk, rk in (('Row', 'Diag'), ('Diag', 'Col'), ('Diag', 'Diag'), ('Row', 'Col')):
                name = f'{lk}@{rk}:{shape}{n}'
                left, right = CLS[lk](pick()), CLS[rk](pick())
                chain = CompositionOperator([left, right])
                try:
                    ref = reference(lk, left.blocks) @ reference(rk, right.blocks)
                    red = chain.reduce()
                    got = K.dense(red)
                except Exception as e:      # noqa: BLE001
                    if n == 1 and lk == 'Row':
                        continue            # listed finding C10-single-block-row (checked by its own oracle)
                    fails.append(f'{name}: reduce raised {type(e).__name__}: {str(e)[:60]}')
                    continue
                if isinstance(red, CompositionOperator) and any(isinstance(o, AbstractBlockOperator) for o in red.operands):
                    fails.append(f'{name}: adjacent block operators of the same layout were not simplified')
                elif not K.close(got, ref, 1e-3):
                    if n == 1 and lk == 'Row':
                        continue
                    fails.append(f'{name}: reduced product != product of the block matrices')
    return fails


def block_family(w, seed, spec):
    t0 = time.time()
    rng = np.random.default_rng(seed)
    fails = []
    cases = list(containers(rng))
    # witness: arity of the container in the counter-model first
    n = None
    for key in ('blocks', 'left_blocks'):
        v = (w or {}).get(key)
        if isinstance(v, list):
            n = len(v)
        elif isinstance(v, dict) and isinstance(v.get('len'), int):
            n = v['len']
    if isinstance(n, int) and 1 <= n <= 6:
        cases = list(containers(rng, arities=(n,))) + cases
    for name, kind, blocks in cases:
        if kind == 'Row' and len(leaves(blocks)) == 1 and not spec.get('include_single_row'):
            continue            # listed finding C10-single-block-row (checked by its own oracle)
        r = check_block(name, kind, blocks, rng)
        if r:
            fails.append(r)
        if len(fails) >= 5 or time.time() - t0 > spec.get('budget_s', 120):
            return fails
    fails += constructor_cases(rng)
    if len(fails) < 5:
        fails += rule_cases(rng)
    return fails[:8]


# ------------------------------------------------------------------------------------------------ listed findings
def finding_single_block_row(w, seed, spec):
    """BlockRowOperator with ONE block: mv must return block(input), in every container layout"""
    rng = np.random.default_rng(seed)
    s = K.S((2,))
    fails = []
    x = jnp.asarray([1., 2.], F32)
    y = BlockRowOperator([IdentityOperator(s)])([x])
    if isinstance(y, tuple):
        fails.append(f'BlockRowOperator([I])([x]) returned a {type(y).__name__} ({type(y[0]).__name__}, ...) instead of x')
    for name, kind, blocks in containers(rng, kinds=('Row',), arities=(1,)):
        r = check_block(name, kind, blocks, rng, single_row=True)
        if r:
            fails.append(r)
    return fails[:4]


def finding_different_nesting(w, seed, spec):
    """structure-compatible block operators over differently nested containers: reduce() must not raise and must keep the map"""
    s = K.S((2,))
    ls = [s, s]
    H = HomothetyOperator(jnp.asarray(2., F32), ls)
    D = DiagonalOperator(jnp.asarray([1., 3.], F32), in_structure=s)
    fails = []
    for name, left, right in (('BD([H]) @ BD([[D, D]])', BlockDiagonalOperator([H]), BlockDiagonalOperator([[D, D]])),
                              ('Row([H]) @ BD([[D, D]])', BlockRowOperator([H, H]), BlockDiagonalOperator([[D, D], [D, D]]))):
        try:
            chain = left @ right
        except Exception as e:      # noqa: BLE001
            fails.append(f'{name}: the structures are compatible but @ raised {type(e).__name__}')
            continue
        try:
            red = chain.reduce()
        except Exception as e:      # noqa: BLE001
            fails.append(f'{name}: reduce() raised {type(e).__name__}: {str(e)[:80]}')
            continue
        if not K.close(K.dense(red), K.dense(chain)):
            fails.append(f'{name}: reduce() changed the matrix')
    return fails

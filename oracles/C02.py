"""Native oracle for C02: operator arithmetic against NumPy arithmetic on generic dense matrices."""
import itertools
import time

import jax.numpy as jnp
import numpy as np

from . import catalog as K


def _try(f):
    try:
        return f(), None
    except Exception as e:      # noqa: BLE001
        return None, e


def arithmetic_family(w, seed, spec):
    from furax._base.core import CompositionOperator, AdditionOperator, HomothetyOperator, IdentityOperator
    t0 = time.time()
    fails = []
    g = K.Gen(seed)
    for s in g.structures():
        atoms = g.square_atoms(s)
        ops = [a for a in atoms]
        # composite operands: a composition, a sum, a lazy inverse
        a0, a1 = atoms[min(2, len(atoms) - 1)], atoms[-1]
        ops.append(('C', CompositionOperator([a0[1], a1[1]])))
        ops.append(('S', AdditionOperator([a0[1], a1[1]])))
        inv = [x for x in atoms if x[0] in ('H', 'D')]
        if inv:
            ops.append((inv[-1][0] + '.I', inv[-1][1].I))
        dens = {n: K.dense(o) for n, o in ops}
        for (na, a), (nb, b) in itertools.product(ops, ops):
            for sym, f, ref in (('@', lambda: a @ b, lambda: dens[na] @ dens[nb]), ('+', lambda: a + b, lambda: dens[na] + dens[nb]),
                                ('-', lambda: a - b, lambda: dens[na] - dens[nb])):
                r, e = _try(f)
                if e is not None:
                    fails.append(f'{na} {sym} {nb} raised {type(e).__name__}')
                    continue
                if not K.close(K.dense(r), ref()):
                    fails.append(f'{na} {sym} {nb}: wrong matrix')
                if sym == '@' and isinstance(r, CompositionOperator) and any(isinstance(o, CompositionOperator) for o in r.operands):
                    fails.append(f'{na} @ {nb}: nested composition')
                if sym in '+-' and isinstance(r, AdditionOperator) and any(isinstance(o, AdditionOperator) for o in r.operand_leaves):
                    fails.append(f'{na} {sym} {nb}: nested sum')
            if len(fails) > 5 or time.time() - t0 > spec.get('budget_s', 90):
                return fails
        for na, a in ops:
            for sym, f, ref in (('2.5*a', lambda: 2.5 * a, 2.5 * dens[na]), ('a*2.5', lambda: a * 2.5, 2.5 * dens[na]),
                                ('a/4', lambda: a / 4, dens[na] / 4), ('-a', lambda: -a, -dens[na]), ('+a', lambda: +a, dens[na])):
                r, e = _try(f)
                if e is not None:
                    fails.append(f'{sym} for {na} raised {type(e).__name__}')
                elif not K.close(K.dense(r), ref):
                    fails.append(f'{sym} for {na}: wrong matrix')
            for sym, f in (('vec*a', lambda: jnp.ones(2) * a), ('a/vec', lambda: a / jnp.ones(2))):
                r, e = _try(f)
                if not isinstance(e, ValueError):
                    fails.append(f'{sym} for {na}: non-scalar factor not rejected with ValueError')
        # scalars of another kind than the operator's dtype: integer-valued operators with real factors
        if isinstance(s, type(K.S((1,)))) and s.ndim == 1:
            from furax._base.diagonal import DiagonalOperator
            si = K.S(s.shape, jnp.int32)
            Di = DiagonalOperator(jnp.arange(1, s.shape[0] + 1, dtype=jnp.int32), in_structure=si)
            xi = jnp.arange(1, s.shape[0] + 1, dtype=jnp.int32)
            ref = np.arange(1, s.shape[0] + 1) ** 2
            for sym, f, want in (('2.5*Di', lambda: 2.5 * Di, 2.5 * ref), ('Di*0.5', lambda: Di * 0.5, 0.5 * ref),
                                 ('0.25*(Di@Di)', lambda: 0.25 * (Di @ Di), 0.25 * ref * np.arange(1, s.shape[0] + 1)),
                                 ('Di/4', lambda: Di / 4, ref / 4), ('-Di', lambda: -Di, -ref)):
                r, e = _try(lambda: np.asarray(f()(xi), dtype=np.float64))
                if e is not None:
                    fails.append(f'{sym} on an int32 operator raised {type(e).__name__}')
                elif not K.close(r, want):
                    fails.append(f'{sym} on an int32 operator: got {r}, expected {want}')
        # mismatching structures are rejected — for EVERY pair of operand kinds (plain, composition, sum, lazy inverse on
        # both sides: each pair takes its own route through the dunders)
        oatoms = g.square_atoms(K.S((5,)))
        other = list(oatoms[:3])
        other.append(('C5', CompositionOperator([oatoms[0][1], oatoms[-1][1]])))
        other.append(('S5', AdditionOperator([oatoms[0][1], oatoms[-1][1]])))
        composites = [o for o in ops if o[0] in ('C', 'S') or o[0].endswith('.I')]
        for (na, a), (nb, b) in list(itertools.product(ops[:4] + composites, other)) + \
                [((nb, b), (na, a)) for (na, a), (nb, b) in itertools.product(composites, other)]:
            for sym, f in (('@', lambda: a @ b), ('+', lambda: a + b), ('-', lambda: a - b)):
                r, e = _try(f)
                if not isinstance(e, ValueError):
                    fails.append(f'{na} {sym} {nb} on different structures: not rejected with ValueError')
        if len(fails) > 5:
            break
    fails += _rectangular(seed)
    return fails


def _rectangular(seed):
    """tall and wide compositions and sums under scalar factors, negation, subtraction and composition with scalar
    operators: the result keeps the operand's input and output structures and has the NumPy matrix"""
    from furax._base.core import CompositionOperator, AdditionOperator, HomothetyOperator
    from furax._base.diagonal import DiagonalOperator
    from furax._base.indices import IndexOperator
    fails = []
    rng = np.random.default_rng(seed + 5)
    d = lambda n: DiagonalOperator(jnp.asarray(rng.uniform(0.5, 1.5, n).astype(np.float32)), in_structure=K.S((n,)))  # noqa: E731
    tall = IndexOperator(jnp.array([2, 0, 2, 1, 1]), in_structure=K.S((3,)))          # 3 -> 5
    wide = IndexOperator(jnp.array([4, 0]), in_structure=K.S((5,)))                   # 5 -> 2
    cases = {'tall composition': CompositionOperator([tall, d(3)]), 'wide composition': CompositionOperator([wide, d(5)]),
             'tall composition of three': CompositionOperator([d(5), tall, d(3)]),
             'tall sum': AdditionOperator([tall, CompositionOperator([tall, d(3)])]),
             'tall plain': tall, 'wide plain': wide}
    for name, c in cases.items():
        m = K.dense(c)
        sin, sout = c.in_structure(), c.out_structure()
        hin, hout = HomothetyOperator(jnp.asarray(3., jnp.float32), sin), HomothetyOperator(jnp.asarray(3., jnp.float32), sout)
        for sym, f, ref in (('3*c', lambda: 3 * c, 3 * m), ('c*3', lambda: c * 3, 3 * m), ('c/4', lambda: c / 4, m / 4),
                            ('-c', lambda: -c, -m), ('H@c', lambda: hout @ c, 3 * m), ('c@H', lambda: c @ hin, 3 * m),
                            ('c-c', lambda: c - c, 0 * m), ('c+c', lambda: c + c, 2 * m), ('2*c-c', lambda: 2 * c - c, m)):
            r, e = _try(f)
            if e is not None:
                fails.append(f'{sym} for a {name} raised {type(e).__name__}: {str(e)[:60]}')
                continue
            if r.in_structure() != sin or r.out_structure() != sout:
                fails.append(f'{sym} for a {name}: structures {r.in_structure()} -> {r.out_structure()}, the operand has {sin} -> {sout}')
                continue
            dm, e = _try(lambda: K.dense(r))
            if e is not None:
                fails.append(f'{sym} for a {name}: application raised {type(e).__name__}')
            elif not K.close(dm, ref):
                fails.append(f'{sym} for a {name}: wrong matrix')
        for sym, f in (('H(in)@c', lambda: hin @ c), ('c@H(out)', lambda: c @ hout)):
            r, e = _try(f)
            if not isinstance(e, ValueError):
                fails.append(f'{sym} for a {name}: scalar operator on the wrong side structure not rejected with ValueError')
    return fails[:8]


def identity_homothety_matmul(w, seed, spec):
    """fixed finding: I(s2) @ X(s3) and H(s2) @ H(s3) must raise ValueError"""
    from furax._base.core import HomothetyOperator, IdentityOperator
    s2, s3 = K.S((2,)), K.S((3,))
    fails = []
    for name, f in (('I(s2) @ H(s3)', lambda: IdentityOperator(s2) @ HomothetyOperator(jnp.asarray(3.), s3)),
                    ('H(s2) @ H(s3)', lambda: HomothetyOperator(jnp.asarray(2.), s2) @ HomothetyOperator(jnp.asarray(3.), s3)),
                    ('I(s2) @ I(s3)', lambda: IdentityOperator(s2) @ IdentityOperator(s3))):
        r, e = _try(f)
        if not isinstance(e, ValueError):
            fails.append(f'{name} is accepted although the structures differ')
    return fails

"""Native oracle for C07: in op.reduce() no adjacent pair is accepted by any registered rule, at most one scalar
operator remains (on the side with fewer elements), no identity remains inside a longer chain."""
import time

import numpy as np

from . import catalog as K
from .C15 import *          # noqa: F401,F403  (shared scenarios name their oracles there)
from .C12 import *          # noqa: F401,F403  (scenarios shared with C12 name their oracles there)
from .C13 import *          # noqa: F401,F403


def _operands(op):
    from furax._base.core import CompositionOperator
    return list(op.operands) if isinstance(op, CompositionOperator) else [op]


def check_nf(name, op, allow_identity=False):
    from furax._base.core import HomothetyOperator, IdentityOperator
    from furax._base.rules import BINARY_RULE_REGISTRY, NoReduction
    try:
        red = op.reduce()
    except Exception as e:      # noqa: BLE001
        return f'{name}: reduce() raised {type(e).__name__}'
    ops = _operands(red)
    for l, r in zip(ops, ops[1:]):
        for rule in BINARY_RULE_REGISTRY:
            try:
                rule.check(l, r)
                rule.apply(l, r)
            except NoReduction:
                continue
            except Exception:       # noqa: BLE001
                continue
            return f'{name}: adjacent pair ({type(l).__name__}, {type(r).__name__}) is still reducible by {type(rule).__name__}'
    homs = [i for i, o in enumerate(ops) if isinstance(o, HomothetyOperator)]
    if len(homs) > 1:
        return f'{name}: {len(homs)} scalar operators remain'
    if homs and len(ops) > 1:
        left = ops[0].out_size() <= ops[-1].in_size()
        if homs[0] != (0 if left else len(ops) - 1):
            return f'{name}: the scalar operator is not on the side with fewer elements'
    if not allow_identity and len(ops) > 1 and any(isinstance(o, IdentityOperator) for o in ops):
        return f'{name}: an identity operator remains inside a chain of {len(ops)} operators'
    return None


def normal_form_family(w, seed, spec):
    t0 = time.time()
    fails = []
    cases = list(K.fixed_chains()) + K.Gen(seed).expressions(spec.get('n', 30), depth=2)
    fails += _inverse_pairs_vanish()
    skip_unique = _is_open('C12-unique-pair-not-reduced')     # (repaired in /repo: the pairs are checked again)
    for name, op in cases:
        if skip_unique and ('Is.T,Is' in name or 'Pk.T,Pk' in name):
            continue
        r = check_nf(name, op)
        if r:
            fails.append(r)
        if len(fails) >= 5 or time.time() - t0 > spec.get('budget_s', 60):
            break
    return fails


def _is_open(fid):
    import json
    import os
    try:
        k = json.load(open(os.path.join(os.path.dirname(os.path.dirname(os.path.abspath(__file__))), 'known_findings.json')))
        return any(f['id'] == fid and f.get('status') == 'open' for f in k['findings'])
    except Exception:       # noqa: BLE001
        return False


def _inverse_pairs_vanish():
    """an operator next to its own lazy inverse vanishes, whatever its neighbours"""
    import jax.numpy as jnp
    from furax._base.core import CompositionOperator
    from furax.landscapes import StokesIQUPyTree
    from furax.operators.hwp import HWPOperator
    from furax.operators.polarizers import LinearPolarizerOperator
    from furax.operators.qu_rotations import QURotationOperator
    st = StokesIQUPyTree.structure_for((2,), jnp.float32)
    R = QURotationOperator(jnp.asarray([0.3, -1.1], jnp.float32), st)
    Lp, W = LinearPolarizerOperator(st), HWPOperator(st)
    out = []
    for name, ops, expected in (('Lp,R.T,R', [Lp, R.T, R], ['LinearPolarizerOperator']),
                                ('R,R.T,W', [R, R.T, W], ['HWPOperator']),
                                ('Lp,R.T,R,W', [Lp, R.T, R, W], ['LinearPolarizerOperator'])):
        red = CompositionOperator(ops).reduce()
        got = [type(o).__name__ for o in _operands(red)]
        if got != expected:
            out.append(f'{name}: reduced to {got}, the rotation next to its own transpose should vanish ({expected})')
    return out


def identity_from_rule(w, seed, spec):
    """listed finding: an identity produced by a block rule stays in the chain"""
    import jax.numpy as jnp
    from furax._base.blocks import BlockDiagonalOperator
    from furax._base.core import CompositionOperator
    from furax._base.dense import DenseBlockDiagonalOperator
    from furax._base.diagonal import DiagonalOperator
    s = K.S((3,))
    g = K.Gen(1)
    D1, D2 = DiagonalOperator(g.vals(3), in_structure=s), DiagonalOperator(g.vals(3), in_structure=s)
    X = DiagonalOperator(g.vals(3), in_structure=[s, s])      # an ordinary operator on the container structure
    op = CompositionOperator([X, BlockDiagonalOperator([D1.I, D2.I]), BlockDiagonalOperator([D1, D2]), X])
    r = check_nf('[X, BD([D1.I, D2.I]), BD([D1, D2]), X]', op)
    return [r] if r else []

"""Native oracles for C04 (run under /venv/bin/python against the real furax).

  linearity : op(a x + b y) == a op(x) + b op(y) and op(0) == 0 for one instance of every operator class (filtered by
              spec['cls']) and seeded random expressions
  dense     : op.as_matrix() (whatever override the class resolves to) == the dense matrix built column by column through
              mv by a plain Python loop (oracles/catalog.dense) == AbstractLinearOperator.as_matrix(op) (furax's generic
              builder); shape (out_size, in_size), dtype out_promoted_dtype, op(x) == M @ flat(x)
  generic   : the generic builder alone, on pytrees with several leaves of different sizes / dict key order / nesting
"""
import warnings

import jax
import jax.numpy as jnp
import numpy as np

from . import catalog
from .C18 import instances
from .common import S, rand_tree

warnings.filterwarnings('ignore')
F32 = jnp.float32


def _flat(tree):
    leaves = jax.tree.leaves(tree)
    return np.concatenate([np.asarray(l, dtype=np.complex128 if np.iscomplexobj(l) else np.float64).ravel()
                           for l in leaves]) if leaves else np.zeros(0)


def _comb(a, x, b, y):
    return jax.tree.map(lambda u, v: (a * u + b * v).astype(u.dtype), x, y)


def _tol(name):
    return 5e-3 if 'Inverse' in name or '.I' in name else 2e-4


def extra_instances(seed):
    """operators on pytrees with several leaves / nested containers / composites: what the per-class table lacks"""
    from furax._base import axes, blocks, core, dense, diagonal, indices
    from furax.landscapes import StokesIQUPyTree, StokesQUPyTree
    from furax.operators import hwp, qu_rotations, toeplitz

    def _exact(make):
        import lineax as lx
        from furax import Config
        with Config(solver=lx.LU(), solver_callback=lambda solution: None):
            return make()
    rng = np.random.default_rng(seed + 17)
    r = lambda *sh: jnp.asarray(rng.uniform(0.5, 1.5, sh).astype(np.float32))     # noqa: E731
    tree = {'b': S((2, 3)), 'a': [S((3,)), S((1, 3))]}
    lst = [S((2, 2)), S((2, 2, 3))]
    st = StokesIQUPyTree.structure_for((2, 2), np.float32)
    qu = StokesQUPyTree.structure_for((3,), np.float32)
    D = lambda s: diagonal.DiagonalOperator(r(3), in_structure=s)       # noqa: E731
    out = {
        'IdentityOperator{tree}': lambda: core.IdentityOperator(tree),
        'IdentityOperator{int32}': lambda: core.IdentityOperator(S((3,), jnp.int32)),
        'HomothetyOperator{int32}': lambda: core.HomothetyOperator(jnp.asarray(3, jnp.int32), S((2,), jnp.int32)),
        'HomothetyOperator{tree}': lambda: core.HomothetyOperator(r(), tree),
        'DiagonalOperator{tree}': lambda: D(tree),
        'DiagonalInverseOperator{tree}': lambda: D(tree).I,
        'DiagonalOperator{3 axes, cyclic}': lambda: diagonal.DiagonalOperator(r(3, 4, 2), axis_destination=(1, 2, 0),
                                                                             in_structure=S((2, 3, 4))),
        'DiagonalOperator{3 equal axes, cyclic}': lambda: diagonal.DiagonalOperator(r(3, 3, 3), axis_destination=(2, 3, 1),
                                                                                   in_structure=S((2, 3, 3, 3))),
        'DiagonalInverseOperator{3 axes, cyclic}': lambda: diagonal.DiagonalOperator(
            r(4, 2, 3), axis_destination=(-1, -3, -2), in_structure=S((2, 3, 4))).I,
        'BroadcastDiagonalOperator{2 axes swapped}': lambda: diagonal.BroadcastDiagonalOperator(
            r(3, 2), axis_destination=(1, 0), in_structure=S((2, 3))),
        'RavelOperator{list}': lambda: axes.RavelOperator(0, 1, in_structure=lst),
        'ReshapeOperator{list}': lambda: axes.ReshapeOperator((-1, 2), in_structure=lst),
        'ReshapeTransposeOperator{list}': lambda: axes.RavelOperator(0, 1, in_structure=lst).T,
        'MoveAxisOperator{list}': lambda: axes.MoveAxisOperator(0, -1, in_structure=lst),
        'AdditionOperator{3 terms,tree}': lambda: core.AdditionOperator([D(tree), core.HomothetyOperator(r(), tree),
                                                                         core.IdentityOperator(tree)]),
        'AdditionOperator{dict of terms}': lambda: core.AdditionOperator({'x': D(tree), 'y': [D(tree), D(tree)]}),
        'CompositionOperator{rect}': lambda: indices.IndexOperator(jnp.array([2, 0, 2, 1]), in_structure=S((3,)))
        @ diagonal.DiagonalOperator(r(3), in_structure=S((3,))),
        'BlockRowOperator{dict}': lambda: blocks.BlockRowOperator({'p': D(S((2, 3))), 'q': core.HomothetyOperator(r(), S((2, 3)))}),
        'BlockColumnOperator{nested}': lambda: blocks.BlockColumnOperator({'p': D(S((3,))), 'q': [D(S((3,))), D(S((3,)))]}),
        'BlockDiagonalOperator{nested}': lambda: blocks.BlockDiagonalOperator(
            [D(S((3,))), {'u': dense.DenseBlockDiagonalOperator(r(2, 3), S((3,)), 'ij,j->i'), 'v': D(S((2, 3)))}]),
        'TransposeOperator{rect}': lambda: core.TransposeOperator(dense.DenseBlockDiagonalOperator(r(4, 3), S((2, 3)), 'ij,...j->...i')),
        'HWPOperator{IQU}': lambda: hwp.HWPOperator(st),
        'QURotationOperator{QU}': lambda: qu_rotations.QURotationOperator(r(3), qu),
        'QURotationTransposeOperator{IQU}': lambda: qu_rotations.QURotationOperator(r(2, 2), st).T,
        'Lazy(D+H).I': lambda: core.InverseOperator(D(S((3,))) + core.HomothetyOperator(1 + r(), S((3,)))),
        # lazy inverses of symmetric operators that are NOT positive definite (exact solver, so that the
        # column-by-column reference is trustworthy): a dense form taken through a Cholesky route is NaN here
        'InverseOperator{HWP, indefinite}': lambda: _exact(lambda: hwp.HWPOperator(st).I),
        'InverseOperator{Toeplitz [1, 2], indefinite}': lambda: _exact(
            lambda: toeplitz.SymmetricBandToeplitzOperator(jnp.array([1., 2.], jnp.float32), S((4,))).I),
        'InverseOperator{Toeplitz [3, 1], definite}': lambda: _exact(
            lambda: toeplitz.SymmetricBandToeplitzOperator(jnp.array([3., 1.], jnp.float32), S((4,))).I),
    }
    for name, make in out.items():
        try:
            yield name, make()
        except Exception as e:      # noqa: BLE001
            yield name, e


def all_instances(seed, only=None, extras=True):
    for name, op, _ in instances(seed, None):
        if only and not name.startswith(only):
            continue
        yield name, op
    if extras:
        for name, op in extra_instances(seed):
            if only and not name.startswith(only):
                continue
            yield name, op


# ---------------------------------------------------------------------------------------- linearity
def _check_linear(name, op, seed, fails):
    s = op.in_structure()
    x, y = rand_tree(s, seed + 1), rand_tree(s, seed + 2)
    rng = np.random.default_rng(seed + 3)
    a, b = float(rng.uniform(-2, 2)), float(rng.uniform(0.5, 3))
    try:
        lhs = op.mv(_comb(a, x, b, y))
        fx, fy = op.mv(x), op.mv(y)
        zero = op.mv(jax.tree.map(jnp.zeros_like, x))
    except Exception as e:      # noqa: BLE001
        fails.append(f'{name}: application raises {type(e).__name__}: {str(e)[:90]}')
        return
    if jax.tree.structure(lhs) != jax.tree.structure(fx):
        fails.append(f'{name}: result tree differs between inputs')
        return
    l, r = _flat(lhs), a * _flat(fx) + b * _flat(fy)
    tol = _tol(name)
    if l.shape != r.shape or not np.allclose(l, r, rtol=tol, atol=tol * max(1.0, float(np.abs(r).max(initial=0)))):
        fails.append(f'{name}: op(a x + b y) != a op(x) + b op(y) (a={a:.3f}, b={b:.3f}; max deviation '
                     f'{float(np.abs(l - r).max()) if l.shape == r.shape else "shape"})')
    z = _flat(zero)
    if z.size and float(np.abs(z).max()) > tol:
        fails.append(f'{name}: op(0) != 0 (max |op(0)| = {float(np.abs(z).max()):.4f})')


def linearity(w, seed, spec):
    fails = []
    only = spec.get('cls')
    done = 0
    for name, op in all_instances(seed, only):
        if isinstance(op, Exception):
            fails.append(f'{name}: cannot be built: {type(op).__name__}: {str(op)[:80]}')
            continue
        _check_linear(name, op, seed, fails)
        done += 1
    if only and done == 0 and not fails:
        return linearity(w, seed, {})
    if not only or spec.get('expressions'):
        for desc, op in catalog.Gen(seed).expressions(8, depth=2):
            _check_linear(desc, op, seed, fails)
    return fails[:8]


# ---------------------------------------------------------------------------------------- dense forms
def _check_dense(name, op, seed, fails, generic_only=False):
    from furax._base.core import AbstractLinearOperator
    tol = _tol(name)
    try:
        ref = catalog.dense(op)                                           # python loop over basis vectors, mv only
        gen = np.asarray(AbstractLinearOperator.as_matrix(op))            # furax's generic builder
        own = gen if generic_only else np.asarray(op.as_matrix())         # whatever the class resolves to
        n_in, n_out, dt = op.in_size(), op.out_size(), op.out_promoted_dtype
    except Exception as e:      # noqa: BLE001
        fails.append(f'{name}: as_matrix raises {type(e).__name__}: {str(e)[:90]}')
        return

    def cmp(what, m):
        if m.shape != ref.shape:
            fails.append(f'{name}: {what} has shape {m.shape}, the column-by-column matrix {ref.shape}')
        elif not np.allclose(m, ref, rtol=tol, atol=tol * max(1.0, float(np.abs(ref).max(initial=0)))):
            j = int(np.argmax(np.abs(m - ref).max(axis=0)))
            fails.append(f'{name}: {what} differs from the column-by-column matrix (first in column {j}, max deviation '
                         f'{float(np.abs(m - ref).max()):.4f})')
    cmp('AbstractLinearOperator.as_matrix(op)', gen)
    if not generic_only:
        cmp('op.as_matrix()', own)
        if own.dtype != np.dtype(dt):
            fails.append(f'{name}: op.as_matrix() has dtype {own.dtype}, out_promoted_dtype is {dt}')
    if gen.shape != (n_out, n_in):
        fails.append(f'{name}: generic matrix shape {gen.shape} != (out_size, in_size) = {(n_out, n_in)}')
    if gen.dtype != np.dtype(dt):
        fails.append(f'{name}: generic matrix dtype {gen.dtype} != out_promoted_dtype {dt}')
    x = rand_tree(op.in_structure(), seed + 5)
    try:
        y = _flat(op.mv(x))
    except Exception as e:      # noqa: BLE001
        fails.append(f'{name}: application raises {type(e).__name__}')
        return
    if own.shape[1:] == _flat(x).shape and not np.allclose(own @ _flat(x), y, rtol=tol, atol=10 * tol):
        fails.append(f'{name}: op(x) != as_matrix() @ flat(x)')


def dense(w, seed, spec):
    fails = []
    only = spec.get('cls')
    done = 0
    for name, op in all_instances(seed, only):
        if isinstance(op, Exception):
            fails.append(f'{name}: cannot be built: {type(op).__name__}: {str(op)[:80]}')
            continue
        _check_dense(name, op, seed, fails)
        done += 1
        if len(fails) > 6:
            break
    if only and done == 0 and not fails:
        return dense(w, seed, {})
    if not only:
        for desc, op in catalog.Gen(seed).expressions(6, depth=2):
            _check_dense(desc, op, seed, fails)
    return fails[:8]


def generic(w, seed, spec):
    """the generic builder on pytrees with several leaves (different sizes, dict order, nesting, size-1 leaves), through
    operators whose mv is a plain per-leaf function and a user operator mixing the leaves"""
    from furax._base import core, diagonal
    from furax._base.axes import MoveAxisOperator
    fails = []
    rng = np.random.default_rng(seed)
    r = lambda *sh: jnp.asarray(rng.uniform(0.5, 1.5, sh).astype(np.float32))     # noqa: E731
    trees = [S((3,)), [S((2,)), S((3,))], {'z': S((2, 2)), 'a': S((1,)), 'm': [S((3,)), S((2, 1))]},
             (S((2, 3)), S((3, 2)), S((1, 1)))]      # (structures with an EMPTY leaf: listed finding, see finding_empty_leaf)
    n = w.get('nleaves') if isinstance(w, dict) else None
    if isinstance(n, int) and 1 <= n <= 5:
        trees.insert(0, [S((k + 1,)) for k in range(n)])
    for t in trees:
        ops = [('H', core.HomothetyOperator(r(), t)), ('I', core.IdentityOperator(t)),
               ('M', MoveAxisOperator(0, -1, in_structure=t))]
        try:
            class Shift(core.AbstractLinearOperator):          # a user operator mixing the leaves: out = reversed leaves
                s: object = None

                def mv(self, x):
                    leaves = jax.tree.leaves(x)
                    return [2 * l for l in reversed(leaves)] + [leaves[0].sum()]

                def in_structure(self):
                    return self.s
            ops.append(('UserOp', Shift(t)))
        except Exception:       # noqa: BLE001
            pass
        for nm, op in ops:
            _check_dense(f'{nm} on {jax.tree.structure(t)}', op, seed, fails, generic_only=True)
    return fails[:8]


def overrides(w, seed, spec):
    return dense(w, seed, spec)


def finding_empty_leaf(w, seed, spec):
    """listed finding: the generic builder raises when an input leaf has no element (lax.fori_loop traces its body even
    for zero iterations, and `.at[index]` on a size-0 array is refused statically)"""
    from furax._base import core
    fails = []
    n = w.get('leaf_size') if isinstance(w, dict) else None
    trees = [S((0,)), {'k': S((0,)), 'l': S((2,))}, [S((2,)), S((0, 3))]]
    if isinstance(n, int) and n > 0:
        trees = [S((n,))]
    for t in trees:
        op = core.HomothetyOperator(jnp.asarray(2., F32), t)
        try:
            m = np.asarray(core.AbstractLinearOperator.as_matrix(op))
        except Exception as e:      # noqa: BLE001
            fails.append(f'AbstractLinearOperator.as_matrix raises {type(e).__name__} for the input structure {t}: {str(e)[:70]}')
            continue
        ref = catalog.dense(op)
        if m.shape != ref.shape or not np.allclose(m, ref):
            fails.append(f'generic matrix differs for the input structure {t}')
    return fails[:4]

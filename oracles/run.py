"""Native oracle runner (under /venv/bin/python, real furax from /repo).  stdin: JSON spec
{"name": <function in oracles/<prop>.py>, "witness": {...}, "seed": int, ...}.
exit 1: the property statement fails on the witness or in its neighbourhood (details printed);
exit 0: it holds on everything tried; exit 2: oracle error / witness not constructible."""
import importlib
import json
import os
import sys
import traceback

HERE = os.path.dirname(os.path.abspath(__file__))
sys.path.insert(0, os.path.dirname(HERE))
repo = os.environ.get('VF_REPO', '/repo')
if repo != '/repo':
    sys.path.insert(0, os.path.join(repo, 'src'))


def main():
    prop = sys.argv[1]
    spec = json.load(sys.stdin)
    if spec.get('x64'):
        import jax
        jax.config.update('jax_enable_x64', True)
    try:
        mod = importlib.import_module(f'oracles.{prop}')
        fn = getattr(mod, spec['name'])
    except Exception:
        traceback.print_exc()
        sys.exit(2)
    try:
        failures = fn(spec.get('witness') or {}, int(spec.get('seed', 0)), spec)
    except Exception:
        traceback.print_exc()
        sys.exit(2)
    for f in failures or []:
        print('FAIL:', f)
    if failures:
        sys.exit(1)
    print('oracle: property held on everything tried')
    sys.exit(0)


if __name__ == '__main__':
    main()

"""Native oracles for C17: the closed pixel formula, exhaustive bijection count on small maps, healpy as the
HEALPix reference, histograms by counting."""
import itertools

import jax
import jax.numpy as jnp
import numpy as np


def _cls():
    from furax.landscapes import StokesLandscape

    class PlainLandscape(StokesLandscape):        # StokesLandscape is abstract: pixel coordinates = (theta, phi)
        def world2pixel(self, theta, phi):
            return (theta, phi)[: len(self.shape)] if len(self.shape) <= 2 else (theta, phi, jnp.zeros_like(theta))
    return PlainLandscape


def _pshapes(w, seed):
    """pixel shapes (n0 fastest): the witness first, then a seeded family of 1-3 dimensional maps"""
    out = []
    ns = [w.get(f'n{d}') for d in range(3)]
    ns = [n for n in ns if isinstance(n, int)]
    if ns and all(1 <= n <= 12 for n in ns):
        out.append(tuple(ns))
    rng = np.random.default_rng(seed)
    out += [(5,), (1,), (4, 3), (3, 4), (1, 5), (2, 3, 4), (4, 1, 2), (3, 3, 3)]
    for _ in range(6):
        out.append(tuple(int(v) for v in rng.integers(1, 6, int(rng.integers(1, 4)))))
    return out


def _ref_index(coords, pshape):
    """closed formula: round half to even, first coordinate fastest, -1 outside"""
    ks = [np.rint(np.asarray(c, dtype=np.float64)).astype(np.int64) for c in coords]
    valid = np.ones(ks[0].shape, bool)
    idx = np.zeros(ks[0].shape, np.int64)
    stride = 1
    for k, n in zip(ks, pshape):
        valid &= (0 <= k) & (k < n)
        idx += k * stride
        stride *= n
    return np.where(valid, idx, -1)


def shapes(w, seed, spec):
    from furax.landscapes import HealpixLandscape
    L = _cls()
    fails = []
    for ps in _pshapes(w, seed):
        shape = tuple(reversed(ps))
        for kw in ({'shape': shape}, {'pixel_shape': ps}):
            try:
                l = L(**kw)
            except Exception as e:      # noqa: BLE001
                fails.append(f'{kw}: {type(e).__name__}')
                continue
            if tuple(l.shape) != shape or tuple(l.pixel_shape) != ps:
                fails.append(f'{kw}: shape {l.shape}, pixel_shape {l.pixel_shape}; expected {shape} / {ps}')
            if len(l) != int(np.prod(shape)):
                fails.append(f'{kw}: len {len(l)} != {int(np.prod(shape))}')
        for kw in ({}, {'shape': shape, 'pixel_shape': ps}):
            try:
                L(**kw)
                fails.append(f'no TypeError for {sorted(kw)}')
            except TypeError:
                pass
    nsides = [w['nside']] if isinstance(w.get('nside'), int) and 1 <= w['nside'] <= 64 else []
    for nside in nsides + [1, 2, 3, 4, 8]:
        h = HealpixLandscape(nside)
        if tuple(h.shape) != (12 * nside ** 2,) or tuple(h.pixel_shape) != (12 * nside ** 2,) or h.nside != nside:
            fails.append(f'HealpixLandscape({nside}).shape = {h.shape}')
    return fails[:8]


def pixel2index(w, seed, spec):
    L = _cls()
    fails = []
    rng = np.random.default_rng(seed)
    for ps in _pshapes(w, seed):
        l = L(pixel_shape=ps)
        npts = 400
        coords = []
        for d, n in enumerate(ps):
            c = rng.uniform(-1.5, n + 0.5, npts)
            c[: 2 * n + 6] = (np.arange(2 * n + 6) - 2) / 2.0           # all half-integers around the map: tie rounding
            if isinstance(w.get(f'c{d}'), (int, float)) and abs(w[f'c{d}']) < 1e6:
                c[-1] = w[f'c{d}']
            coords.append(c)
        if len(ps) > 1:
            perm = rng.permutation(npts)
            coords[1] = coords[1][perm]
        got = np.asarray(l.pixel2index(*[jnp.asarray(c, dtype=jnp.float32) for c in coords]))
        ref = _ref_index([np.asarray(c, dtype=np.float32) for c in coords], ps)
        if got.shape != ref.shape or not (got == ref).all():
            bad = int(np.flatnonzero(got != ref)[0])
            fails.append(f'pixel_shape {ps}: coordinates {[float(c[bad]) for c in coords]} -> {int(got[bad])}, '
                         f'closed formula gives {int(ref[bad])}')
        try:
            l.pixel2index()
            fails.append('no TypeError without coordinates')
        except TypeError:
            pass
    # dtype wide enough for N (needs 64-bit mode to be observable): every index 0..N-1 is representable, and the last
    # and first pixels get their indices (the range test is exact)
    if jax.config.jax_enable_x64:
        for shape in [(2 ** 31 - 1,), (2 ** 31,), (2 ** 31 + 1,), (1, 2 ** 31), (2 ** 16, 2 ** 15), (2 ** 16, 2 ** 15 + 1), (7,)]:
            l = L(shape)
            n = int(np.prod(shape))
            c = [jnp.asarray([float(m - 1), 0.0, 1.0 if m > 1 else 0.0]) for m in l.pixel_shape]
            r = l.pixel2index(*c)
            if np.iinfo(np.dtype(str(r.dtype))).max < n - 1:
                fails.append(f'shape {shape}: index dtype {r.dtype} cannot hold the largest index {n - 1}')
            want = [n - 1, 0, sum(int(np.prod(l.pixel_shape[:d])) for d, m in enumerate(l.pixel_shape) if m > 1)]
            if [int(v) for v in r] != want:
                fails.append(f'shape {shape}: corner pixels get indices {[int(v) for v in r]}, expected {want} (dtype {r.dtype})')
    return fails[:8]


def bijection(w, seed, spec):
    L = _cls()
    fails = []
    for ps in _pshapes(w, seed):
        l = L(pixel_shape=ps)
        grid = np.array(list(itertools.product(*[range(n) for n in ps])), dtype=np.float32).reshape(-1, len(ps))
        got = np.asarray(l.pixel2index(*[jnp.asarray(grid[:, d]) for d in range(len(ps))]))
        n = int(np.prod(ps))
        if sorted(got.tolist()) != list(range(n)):
            fails.append(f'pixel_shape {ps}: in-map integer coordinates are not in bijection with 0..{n - 1}: {sorted(got.tolist())[:12]}')
    return fails[:8]


def healpix(w, seed, spec):
    import healpy as hp
    from furax.landscapes import HealpixLandscape
    fails = []
    rng = np.random.default_rng(seed)
    # the dtype of the landscape is the dtype of the MAP VALUES: it must not leak into the pointing angles
    for nside, dt in [(1, None), (2, None), (4, None), (16, None), (4, np.float16), (16, np.int32), (1, np.float16),
                      (8, np.float32)]:
        h = HealpixLandscape(nside) if dt is None else HealpixLandscape(nside, dtype=dt)
        theta = rng.uniform(0.05, np.pi - 0.05, 300)
        phi = rng.uniform(0, 2 * np.pi, 300)
        got = np.asarray(h.world2index(jnp.asarray(theta), jnp.asarray(phi)))
        ref = hp.ang2pix(nside, theta.astype(np.float32).astype(np.float64), phi.astype(np.float32).astype(np.float64))
        # float32 inputs: tolerate disagreements only where the float64 direction is within rounding of a pixel border
        ref64 = hp.ang2pix(nside, theta, phi)
        bad = (got != ref) & (got != ref64)
        if bad.mean() > 0.02:
            i = int(np.flatnonzero(bad)[0])
            fails.append(f'nside {nside}, landscape dtype {np.dtype(h.dtype).name}: world2index({theta[i]}, {phi[i]}) = '
                         f'{got[i]}, healpy gives {ref[i]} ({bad.sum()} of 300 differ)')
    return fails


def _coverage_case(L, Sampling, ps, x, y, fails, what):
    """coverage against counting: total = number of samples, every pixel carries at least its own hits; exactly its
    hits except the last pixel, which also receives the out-of-map samples (index -1 wraps in .at[].add)"""
    l = L(pixel_shape=ps)
    ns = len(x)
    try:
        cov = np.asarray(l.get_coverage(Sampling(jnp.asarray(x), jnp.asarray(y), jnp.zeros(ns))))
    except Exception as e:      # noqa: BLE001
        fails.append(f'pixel_shape {ps} ({what}): get_coverage raises {type(e).__name__}: {str(e)[:80]}')
        return
    shape = tuple(reversed(ps))
    ref = np.zeros(shape, np.int64)
    outside = 0
    for a, b in zip(np.rint(x).astype(int), np.rint(y).astype(int)):
        inside = 0 <= a < ps[0] and (len(ps) == 1 or 0 <= b < ps[1])
        if not inside:
            outside += 1
        elif len(ps) > 1:
            ref[b, a] += 1
        else:
            ref[a] += 1
    if cov.shape != shape:
        fails.append(f'pixel_shape {ps} ({what}): coverage shape {cov.shape} != {shape}')
        return
    if int(cov.sum()) != ns:
        fails.append(f'pixel_shape {ps} ({what}): coverage sums to {int(cov.sum())} but there are {ns} samples '
                     f'({outside} out of the map); coverage {cov.tolist()}, in-map hits {ref.tolist()}')
    if (cov < ref).any():
        fails.append(f'pixel_shape {ps} ({what}): pixels {np.argwhere(cov < ref).tolist()} have fewer counts than hits: '
                     f'coverage {cov.tolist()}, in-map hits {ref.tolist()}')
    exact = ref.copy()
    exact.flat[-1] += outside
    if not (cov == exact).all() and int(cov.sum()) == ns and not (cov < ref).any():
        fails.append(f'pixel_shape {ps} ({what}): coverage {cov.tolist()} != histogram {exact.tolist()} (out-of-map samples '
                     f'counted on the last pixel)')


def coverage(w, seed, spec):
    from furax.landscapes import HealpixLandscape
    from furax.samplings import Sampling
    L = _cls()
    fails = []
    rng = np.random.default_rng(seed)
    for ps in [p for p in _pshapes(w, seed) if len(p) <= 2][:6]:
        n0, n1 = ps[0], (ps[1] if len(ps) > 1 else 1)
        # (a) random in-map samples
        ns = int(rng.integers(0, 40)) if ps != (1,) else 5
        x = rng.integers(0, n0, ns).astype(np.float32)
        y = rng.integers(0, n1, ns).astype(np.float32)
        _coverage_case(L, Sampling, ps, x, y, fails, 'in-map samples')
        # (b) every pixel hit (some twice) and samples that fall outside the map
        gx, gy = np.meshgrid(np.arange(n0), np.arange(n1))
        x = np.concatenate([gx.ravel(), gx.ravel()[:2], [n0 + 3.0, -2.0]]).astype(np.float32)
        y = np.concatenate([gy.ravel(), gy.ravel()[:2], [0.0, 0.0]]).astype(np.float32)
        _coverage_case(L, Sampling, ps, x, y, fails, 'every pixel hit + out-of-map samples')
        # (c) partial coverage with out-of-map samples
        x = np.asarray([0.0, n0 + 1.0, 0.0], np.float32)
        y = np.asarray([0.0, 0.0, float(n1 - 1)], np.float32)
        _coverage_case(L, Sampling, ps, x, y, fails, 'partial coverage + out-of-map sample')
        if len(fails) > 6:
            return fails[:8]
    h = HealpixLandscape(2)
    theta = rng.uniform(0.1, 3.0, 50)
    phi = rng.uniform(0, 6.2, 50)
    try:
        cov = np.asarray(h.get_coverage(Sampling(jnp.asarray(theta), jnp.asarray(phi), jnp.zeros(50))))
    except Exception as e:      # noqa: BLE001
        return (fails + [f'healpix get_coverage raises {type(e).__name__}: {str(e)[:80]}'])[:8]
    idx = np.asarray(h.world2index(jnp.asarray(theta), jnp.asarray(phi)))
    ref = np.bincount(idx, minlength=48)
    if cov.shape != (48,) or not (cov == ref).all() or cov.sum() != 50:
        fails.append('healpix coverage is not the histogram of world2index')
    return fails[:8]


def finding_int32_boundary(w, seed, spec):
    L = _cls()
    fails = []
    for shape in [(2 ** 31,), (1, 2 ** 31)]:
        l = L(shape)
        c = [jnp.asarray([5.0 if n > 1 else 0.0]) for n in l.pixel_shape]
        r = l.pixel2index(*c)
        if int(r[0]) != 5:
            fails.append(f'shape {shape}: pixel2index of the in-map coordinate 5 is {int(r[0])} (dtype {r.dtype})')
    return fails

"""Native oracle for C03: dense(op.T) == dense(op).T, structures swapped, op.T.T denotes op; dot test."""
import time

import numpy as np

from . import catalog as K


def check_T(name, op):
    try:
        t = op.T
        a, b = K.dense(op), K.dense(t)
    except Exception as e:      # noqa: BLE001
        return f'{name}: transpose raised {type(e).__name__}: {str(e)[:80]}'
    if not K.close(b, a.T):
        return f'{name}: dense(op.T) != dense(op).T'
    if not K.same_structure(t.in_structure(), op.out_structure()) or not K.same_structure(t.out_structure(), op.in_structure()):
        return f'{name}: structures of the transpose are not swapped'
    try:
        tt = K.dense(t.T)
    except Exception as e:      # noqa: BLE001
        return f'{name}: op.T.T raised {type(e).__name__}'
    if not K.close(tt, a):
        return f'{name}: op.T.T does not denote op'
    return None


def adjoint_family(w, seed, spec):
    t0 = time.time()
    fails = []
    g = K.Gen(seed)
    cases = []
    for s in g.structures():
        cases += g.square_atoms(s) + g.rect_pairs(s)
    cases = [(n, o) for n, o in cases if n not in ('Lp',)] + [(n, o) for n, o in cases if n == 'Lp']
    cases += [c for c in K.fixed_chains() if '.I' not in c[0]]
    cases += [c for c in g.expressions(spec.get('n', 25), depth=2) if '.I' not in c[0]]
    for name, op in cases:
        r = check_T(name, op)
        if r:
            fails.append(r)
        if len(fails) >= 5 or time.time() - t0 > spec.get('budget_s', 90):
            break
    return fails

"""Native oracle for C03: dense(op.T) == dense(op).T, structures swapped, op.T.T denotes op; dot test."""
import time

import numpy as np

from . import catalog as K


def check_T(name, op):
    try:
        t = op.T
        a, b = K.dense(op), K.dense(t)
    except Exception as e:      # noqa: BLE001
        return f'{name}: transpose raised {type(e).__name__}: {str(e)[:80]}'
    if not K.close(b, a.T):
        return f'{name}: dense(op.T) != dense(op).T'
    if not K.same_structure(t.in_structure(), op.out_structure()) or not K.same_structure(t.out_structure(), op.in_structure()):
        return f'{name}: structures of the transpose are not swapped'
    try:
        tt = K.dense(t.T)
    except Exception as e:      # noqa: BLE001
        return f'{name}: op.T.T raised {type(e).__name__}'
    if not K.close(tt, a):
        return f'{name}: op.T.T does not denote op'
    return None


def _index_cases():
    """indexing / packing with everything NumPy accepts in bounds: negative and repeated entries, index arrays of rank 2,
    masks, pytrees — the transposes must scatter-add exactly what the operator gathers"""
    import jax
    import jax.numpy as jnp
    from furax._base.indices import IndexOperator
    S = jax.ShapeDtypeStruct
    out = []
    s = S((6, 2), jnp.float32)
    tree = {'a': S((4, 3), jnp.float32), 'b': S((4,), jnp.float32)}
    for name, idx, st in [('Ix[neg]', jnp.asarray([5, -1, 0, 2, -1, -4]), s), ('Ix[neg,2d]', jnp.asarray([[0, -1], [-6, 3]]), s),
                          ('Ix[last axis]', (slice(None), jnp.asarray([-1, -1, 0])), s), ('Ix[tree,neg]', jnp.asarray([-1, 1, -3, -1]), tree),
                          ('Ix[int]', -2, s), ('Ix[slice]', slice(None, None, -2), s),
                          ('Ix[mask]', jnp.asarray([True, False, True, True, False, True]), s)]:
        try:
            o = jax.eval_shape(lambda x, idx=idx: jax.tree.map(lambda l: l[idx], x), st)
            out.append((name, IndexOperator(idx, in_structure=st, out_structure=o)))
        except Exception:       # noqa: BLE001
            pass
    return out


def adjoint_family(w, seed, spec):
    t0 = time.time()
    fails = []
    g = K.Gen(seed)
    cases = []
    for s in g.structures():
        cases += g.square_atoms(s) + g.rect_pairs(s)
    cases = [(n, o) for n, o in cases if n not in ('Lp',)] + [(n, o) for n, o in cases if n == 'Lp']
    cases = _index_cases() + cases
    cases += [c for c in K.fixed_chains() if '.I' not in c[0]]
    cases += [c for c in g.expressions(spec.get('n', 25), depth=2) if '.I' not in c[0]]
    for name, op in cases:
        r = check_T(name, op)
        if r:
            fails.append(r)
        if len(fails) >= 5 or time.time() - t0 > spec.get('budget_s', 90):
            break
    return fails

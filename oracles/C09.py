"""Native oracles for C09: every method and as_matrix() against an explicit NumPy band matrix, per batch row,
with jax_enable_x64 off and on.  References are plain NumPy; furax is only *called*.

The two known defects of the unchanged tree have their own oracle functions (`finding_x64_float32`,
`finding_batched_fft_size`); the general oracles skip exactly those input classes unless the spec asks for them
(`include_findings`), so that they return [] on the unchanged tree."""
import itertools

import jax
import jax.numpy as jnp
import numpy as np

METHODS = ('dense', 'direct', 'fft', 'overlap_save')


def _T(band, n):
    """T[i, j] = band[|i-j|] if |i-j| < K else 0"""
    K = len(band)
    i, j = np.indices((n, n))
    d = np.abs(i - j)
    return np.where(d < K, np.asarray(band, dtype=np.float64)[np.minimum(d, K - 1)], 0.0)


def _set_x64(flag):
    jax.config.update('jax_enable_x64', bool(flag))


def _case(n, K, method, fft_size, x64, dtype, xbatch=(), bbatch=(), seed=0, check_matrix=True):
    """returns a failure string or None"""
    from furax.operators.toeplitz import SymmetricBandToeplitzOperator as Op
    _set_x64(x64)
    rng = np.random.default_rng(seed)
    npdt = np.dtype(dtype)
    band = rng.integers(-3, 4, size=tuple(bbatch) + (K,)).astype(npdt)
    x = rng.integers(-4, 5, size=tuple(xbatch) + (n,)).astype(npdt)
    desc = f'n={n} K={K} method={method} fft_size={fft_size} x64={x64} dtype={dtype} xbatch={xbatch} bbatch={bbatch}'
    kw = {'method': method}
    if fft_size is not None:
        kw['fft_size'] = fft_size
    jx, jb = jnp.asarray(x), jnp.asarray(band)
    if jx.dtype != npdt:
        return None           # dtype not representable in this precision mode
    try:
        op = Op(jb, jax.ShapeDtypeStruct(jx.shape, jx.dtype), **kw)
    except ValueError as e:
        return f'{desc}: constructor refused an admissible configuration ({e})'
    if method == 'overlap_save' and not (op.fft_size is not None and op.fft_size >= 2 * K - 1):
        return f'{desc}: fft_size {op.fft_size} < 2K-1'
    try:
        y = op.mv(jx)
    except Exception as e:           # noqa: BLE001
        return f'{desc}: mv raised {type(e).__name__}: {str(e)[:120]}'
    y = np.asarray(y)
    if y.shape != x.shape:
        return f'{desc}: output shape {y.shape} != input shape {x.shape}'
    if y.dtype != npdt:
        return f'{desc}: output dtype {y.dtype} != input dtype {npdt}'
    bb = np.broadcast_to(band, tuple(xbatch) + (K,)).reshape(-1, K)
    xx = x.reshape(-1, n)
    ref = np.stack([_T(b, n) @ r.astype(np.float64) for b, r in zip(bb, xx)]).reshape(x.shape)
    tol = 1e-3 if npdt == np.float32 else 1e-9
    if not np.allclose(y, ref, rtol=tol, atol=tol):
        return f'{desc}: mv differs from T x (max abs error {np.max(np.abs(y - ref)):.3g})'
    if check_matrix:
        try:
            M = np.asarray(op.as_matrix())
        except Exception as e:       # noqa: BLE001
            return f'{desc}: as_matrix raised {type(e).__name__}: {str(e)[:120]}'
        N = xx.shape[0] * n
        ref_m = np.zeros((N, N))
        for k, b in enumerate(bb):
            ref_m[k * n:(k + 1) * n, k * n:(k + 1) * n] = _T(b, n)
        if M.shape != ref_m.shape or not np.allclose(M, ref_m, rtol=tol, atol=tol):
            return f'{desc}: as_matrix() is not the block-diagonal band matrix'
        if not np.allclose(M, M.T):
            return f'{desc}: as_matrix() is not symmetric'
    return None


def _is_finding_x64(method, x64, dtype):
    return method == 'overlap_save' and x64 and np.dtype(dtype) == np.float32


def _int(w, k):
    v = w.get(k)
    return v if isinstance(v, int) and not isinstance(v, bool) else None


def methods(w, seed, spec):
    """witness (n, K, fft_size, x64, x_dtype) with spec['method']; then a seeded family of small cases"""
    include = bool(spec.get('include_findings'))
    only = spec.get('method')
    fails = []
    cases = []
    n, K, fs = _int(w, 'n'), _int(w, 'K'), _int(w, 'fft_size')
    meths = [only] if only in METHODS else list(METHODS)
    if n is not None and K is not None and 1 <= n <= 4000 and 1 <= K <= 2000:
        for m in meths:
            f = fs if (m == 'overlap_save' and fs is not None and fs >= 2 * K - 1) else None
            modes = [(False, 'float32'), (True, 'float32'), (True, 'float64')]
            if isinstance(w.get('x64'), bool) and w.get('x_dtype') in ('float32', 'float64'):
                modes = [(w['x64'], w['x_dtype'])] + modes
            for x64, dt in modes:
                cases.append((n, K, m, f, x64, dt, (), ()))
    rng = np.random.default_rng(seed)
    grid = [(n_, K_) for n_ in (1, 2, 3, 4, 5, 7, 9, 12) for K_ in (1, 2, 3, 4, 6)]
    rng.shuffle(grid)
    for n_, K_ in grid[:6]:
        for m in meths:
            sizes = [None]
            if m == 'overlap_save':
                sizes = [None, 2 * K_ - 1, 2 * K_, 2 * K_ + int(rng.integers(1, 6))]
            for f in sizes:
                x64 = bool(rng.integers(0, 2))
                dt = 'float64' if (x64 and rng.integers(0, 2)) else 'float32'
                cases.append((n_, K_, m, f, x64, dt, (), ()))
    # more bands than rows ("band counts K" is not limited by n: the outer bands fall outside the matrix)
    for n_, K_ in [(3, 5), (4, 6), (4, 7), (5, 8), (2, 5), (1, 3), (3, 4)]:
        for m in meths:
            cases.append((n_, K_, m, None, False, 'float32', (), ()))
    cases.append((3, 5, 'dense' if 'dense' in meths else meths[0], None, False, 'float32', (2,), (2,)))
    # batches: band values broadcast to the input's batch shape; fft_size left to the default (finding (a) otherwise)
    for m in meths:
        cases.append((4, 2, m, None, False, 'float32', (2,), (2,)))
        cases.append((3, 3, m, None, True, 'float64', (2, 3), (3,)))
        cases.append((5, 2, m, None, False, 'float32', (2, 2), ()))
    seen = set()
    for c in cases:
        if c in seen:
            continue
        seen.add(c)
        if not include and _is_finding_x64(c[2], c[4], c[5]):
            continue
        # as_matrix() does not depend on the method: checked once per configuration (with the dense method,
        # or with the only method asked for)
        r = _case(*c, seed=seed, check_matrix=(c[2] == 'dense' or only in METHODS and len(seen) <= 6))
        if r:
            fails.append(r)
            if len(fails) > 5:
                break
    _set_x64(False)
    return fails


def constructor(w, seed, spec):
    """ValueError iff method not in METHODS, or fft_size given for a non-overlap method, or fft_size < 2K-1
    (K = last-axis length of band_values)"""
    from furax.operators.toeplitz import SymmetricBandToeplitzOperator as Op
    include = bool(spec.get('include_findings'))
    fails = []
    cases = []
    K, fs, bs = _int(w, 'K'), _int(w, 'fft_size'), _int(w, 'band_batch_size')
    wm = spec.get('method')
    if K is not None and 1 <= K <= 500:
        bshapes = [()]
        if bs is not None and 1 < bs <= 64:
            bshapes.append((bs,))
        for b in bshapes:
            for m in ([wm] if wm else list(METHODS) + ['overlap_add', 'bogus']):
                cases.append((K, m, fs, b))
                cases.append((K, m, None, b))
    for K_ in (1, 2, 3, 5):
        for m in list(METHODS) + ['overlap_add', 'bogus', '']:
            for f in (None, 0, 2 * K_ - 2, 2 * K_ - 1, 2 * K_, 4 * K_ + 3):
                for b in ((), (1,), (2,), (2, 3)):
                    cases.append((K_, m, f, b))
    for K_, m, f, b in cases:
        batched = int(np.prod(b)) > 1
        if batched and f is not None and not include:
            continue
        illegal = m not in METHODS or (f is not None and (not m.startswith('overlap_') or f < 2 * K_ - 1))
        band = jnp.ones(tuple(b) + (K_,), jnp.float32)
        kw = {'method': m}
        if f is not None:
            kw['fft_size'] = f
        try:
            op = Op(band, jax.ShapeDtypeStruct(tuple(b) + (6,), jnp.float32), **kw)
        except ValueError:
            if not illegal:
                fails.append(f'constructor refused legal K={K_} method={m!r} fft_size={f} band batch {b}')
        except Exception as e:       # noqa: BLE001
            fails.append(f'constructor K={K_} method={m!r} fft_size={f}: unexpected {type(e).__name__}')
        else:
            if illegal:
                fails.append(f'constructor accepted illegal K={K_} method={m!r} fft_size={f} band batch {b}')
            elif m == 'overlap_save' and not (op.fft_size is not None and op.fft_size >= 2 * K_ - 1
                                              and (f is None or op.fft_size == f)):
                fails.append(f'constructor K={K_} fft_size={f}: stored fft_size {op.fft_size}')
            elif m != 'overlap_save' and op.fft_size is not None:
                fails.append(f'constructor K={K_} method={m!r}: fft_size {op.fft_size} stored for a non-overlap method')
        if len(fails) > 5:
            break
    return fails


def default_fft_size(w, seed, spec):
    from furax.operators.toeplitz import SymmetricBandToeplitzOperator as Op
    fails = []
    bns = list(range(1, 300)) + [2 ** k + d for k in range(8, 20) for d in (-1, 0, 1)]
    bn = _int(w, 'band_number')
    if bn is not None and 1 <= bn < 2 ** 40:
        bns.insert(0, bn)
    for b in bns:
        r = Op._get_default_fft_size(b)
        if not (isinstance(r, int) and r >= b):
            fails.append(f'_get_default_fft_size({b}) = {r!r} is not an int >= band number')
            if len(fails) > 5:
                break
    return fails


def finding_x64_float32(w, seed, spec):
    """overlap_save on float32 input while jax_enable_x64 is on"""
    fails = []
    n, K = _int(w, 'n') or spec.get('n', 5), _int(w, 'K') or spec.get('K', 2)
    for n_, K_ in {(n, K), (5, 2), (1, 1), (3, 4)}:
        if not (1 <= n_ <= 4000 and 1 <= K_ <= 2000):
            continue
        r = _case(n_, K_, 'overlap_save', None, True, 'float32', seed=seed)
        if r:
            fails.append(r)
    _set_x64(False)
    return fails


def finding_batched_fft_size(w, seed, spec):
    """an admissible fft_size (>= 2K-1, K = last axis) with batched band values"""
    from furax.operators.toeplitz import SymmetricBandToeplitzOperator as Op
    fails = []
    cases = [(tuple(spec.get('band_shape', (2, 3))), spec.get('fft_size', 8))]
    K, fs, bs = _int(w, 'K'), _int(w, 'fft_size'), _int(w, 'band_batch_size')
    if K and fs and bs and 1 <= K <= 200 and 1 < bs <= 64 and fs >= 2 * K - 1:
        cases.append(((bs, K), fs))
    for shape, f in cases:
        K_ = shape[-1]
        band = jnp.ones(shape, jnp.float32)
        try:
            Op(band, jax.ShapeDtypeStruct(shape[:-1] + (7,), jnp.float32), method='overlap_save', fft_size=f)
        except ValueError as e:
            if f >= 2 * K_ - 1:
                fails.append(f'band values of shape {shape}, fft_size={f} >= 2K-1={2 * K_ - 1} refused: {e}')
    if not fails:
        r = _case(7, 3, 'overlap_save', 8, False, 'float32', (2,), (2,), seed=seed)
        if r:
            fails.append(r)
    return fails


def conformance(w, seed, spec):
    """bounded conformance of the dependency contracts of theories/elem.py against the real jax/numpy on small
    arguments (never counted as proof; run by hand: echo '{"name":"conformance"}' | /venv/bin/python oracles/run.py C09)"""
    from jax import lax
    fails = []
    rng = np.random.default_rng(seed)

    def eq(a, b, what):
        a, b = np.asarray(a, dtype=np.float64), np.asarray(b, dtype=np.float64)
        if a.shape != b.shape or not np.allclose(a, b, atol=1e-4):
            fails.append(f'{what}: {a.tolist()} != {b.tolist()}')
    for x64 in (False, True):
        _set_x64(x64)
        if jnp.zeros(3).dtype != (np.float64 if x64 else np.float32):
            fails.append(f'zeros default dtype with x64={x64}: {jnp.zeros(3).dtype}')
        import warnings
        with warnings.catch_warnings():
            warnings.simplefilter('ignore')
            z64 = jnp.zeros(3, dtype=np.float64).dtype
        if z64 != (np.float64 if x64 else np.float32):
            fails.append(f'zeros(float64) canonicalisation with x64={x64}')
        for n in range(1, 6):
            a = rng.integers(-3, 4, n).astype(np.float32)
            ja = jnp.asarray(a)
            for p, q in itertools.product(range(3), repeat=2):
                eq(jnp.pad(ja, (p, q)), [a[i - p] if p <= i < p + n else 0 for i in range(p + n + q)], 'pad')
            for lo, hi in itertools.product([None] + list(range(-n - 1, n + 2)), repeat=2):
                eq(ja[lo:hi], a[lo:hi], 'slice')
                eq(ja[lo:hi:-1], a[lo:hi:-1], 'reversed slice')
            eq(jnp.concatenate((ja[-1:0:-1], ja)), list(a[:0:-1]) + list(a), 'kernel mirror')
            for k in range(1, n + 1):
                kk = rng.integers(-3, 4, k).astype(np.float32)
                ref = [sum(kk[j] * a[p + k - 1 - j] for j in range(k)) for p in range(n - k + 1)]
                eq(jnp.convolve(ja, jnp.asarray(kk), mode='valid'), ref, 'convolve valid')
                for N in range(max(n, k), n + 3):
                    if N != n:
                        continue
                    ref = [sum(kk[j] * a[(t - j) % N] for j in range(k)) for t in range(N)]
                    eq(jnp.fft.ifft(jnp.fft.fft(ja) * jnp.fft.fft(jnp.asarray(kk), N)).real, ref, 'circular convolution')
                    if jnp.fft.ifft(jnp.fft.fft(ja) * jnp.fft.fft(jnp.asarray(kk), N)).real.dtype != np.float32:
                        fails.append('ifft(...).real dtype for float32 input')
            for m in range(1, n + 1):
                for s in range(-2, n + 2):
                    cs = min(max(s + n if s < 0 else s, 0), n - m)
                    eq(lax.dynamic_slice(ja, (s,), (m,)), a[cs:cs + m], 'dynamic_slice clamping')
                    u = np.arange(1, m + 1, dtype=np.float32) * 10
                    ref = a.copy()
                    ref[cs:cs + m] = u
                    eq(lax.dynamic_update_slice(ja, jnp.asarray(u), (s,)), ref, 'dynamic_update_slice clamping')
            idx = np.arange(-n - 2, n + 3)
            ref = a.copy()
            for i in idx:
                if -n <= i < n:
                    ref[i] = 9
            eq(ja.at[jnp.asarray(idx)].set(9.0), ref, '.at[].set with out-of-range indices')
            eq(jnp.arange(n - 3), np.arange(max(n - 3, 0)), 'arange of a non-positive count')
            M = rng.integers(-3, 4, (n, n)).astype(np.float32)
            eq(jnp.asarray(M.ravel()).reshape(n, n), M, 'reshape row-major')
            eq(jnp.asarray(M) @ ja, M.astype(np.float64) @ a, 'matvec')
            eq(lax.fori_loop(0, n, lambda i, c: c.at[i].set(c[i] + i), jnp.zeros(n)), np.arange(n), 'fori_loop')
        if x64:
            try:
                lax.dynamic_update_slice(jnp.zeros(4), jnp.ones(2, dtype=np.float32), (0,))
                fails.append('dynamic_update_slice accepted different dtypes')
            except TypeError:
                pass
    _set_x64(False)
    for v in (0.2, 1.0, 2.5, 7.0 / 3):
        if np.ceil(v) != -(-v // 1) or np.floor(v) != v // 1:
            fails.append('ceil/floor')
    for b in range(1, 70):
        if 2 ** np.ceil(np.log2(b)) < b or 2 ** (np.ceil(np.log2(b)) - 1) >= b and b > 1:
            fails.append(f'log2/ceil/pow2 inequalities at {b}')
    f = jnp.vectorize(lambda a, k: a * k.sum(), signature='(n),(k)->(n)')
    a = np.arange(12.0).reshape(2, 3, 2)
    k = np.arange(1.0, 10).reshape(3, 3)
    eq(f(jnp.asarray(a), jnp.asarray(k)), a * k.sum(-1)[None, :, None], 'vectorize broadcasting per batch row')
    import jax.scipy.linalg as jsl
    blocks = np.arange(8.0).reshape(2, 2, 2)
    ref = np.zeros((4, 4))
    ref[:2, :2], ref[2:, 2:] = blocks[0], blocks[1]
    eq(jsl.block_diag(*jnp.asarray(blocks)), ref, 'block_diag order')
    return fails[:12]

"""Native oracle for C08: lineax tag queries and furax's decorator wiring against the dense matrix (built column by
column through mv only), for instances of every operator class with seeded parameters."""
import inspect
import re

import jax
import jax.numpy as jnp
import lineax as lx
import numpy as np

from .C18 import instances
from .common import dense

TAGS = {
    'is_diagonal': lambda M: np.allclose(M, np.diag(np.diag(M)), atol=1e-6) if M.shape[0] == M.shape[1] else False,
    'is_lower_triangular': lambda M: M.shape[0] == M.shape[1] and np.allclose(M, np.tril(M), atol=1e-6),
    'is_upper_triangular': lambda M: M.shape[0] == M.shape[1] and np.allclose(M, np.triu(M), atol=1e-6),
    'is_tridiagonal': lambda M: M.shape[0] == M.shape[1] and np.allclose(M, np.triu(np.tril(M, 1), -1), atol=1e-6),
    'is_symmetric': lambda M: M.shape[0] == M.shape[1] and np.allclose(M, M.T, atol=1e-5),
    'is_positive_semidefinite': lambda M: M.shape[0] == M.shape[1] and np.allclose(M, M.T, atol=1e-5)
    and np.all(np.linalg.eigvalsh((M + M.T) / 2) >= -1e-5),
    'is_negative_semidefinite': lambda M: M.shape[0] == M.shape[1] and np.allclose(M, M.T, atol=1e-5)
    and np.all(np.linalg.eigvalsh((M + M.T) / 2) <= 1e-5),
}


def declared(cls):
    """furax decorators written above the class or above one of its bases"""
    out = set()
    for c in cls.__mro__:
        if not c.__module__.startswith('furax'):
            continue
        try:
            src = inspect.getsource(c)
        except (OSError, TypeError):
            continue
        for line in src.splitlines():
            line = line.strip()
            if line.startswith('class '):
                break
            m = re.match(r'@(\w+)', line)
            if m:
                out.add(m.group(1))
    if 'diagonal' in out:
        out.add('symmetric')
    if out & {'symmetric', 'lower_triangular', 'upper_triangular', 'positive_semidefinite', 'negative_semidefinite', 'orthogonal'}:
        out.add('square')
    return out


def _check(name, op, fails):
    try:
        M = dense(op)
    except Exception as e:      # noqa: BLE001
        fails.append(f'{name}: dense matrix cannot be built: {type(e).__name__}: {str(e)[:80]}')
        return
    for tag, holds in TAGS.items():
        try:
            v = getattr(lx, tag)(op)
        except Exception as e:      # noqa: BLE001
            fails.append(f'{name}: lineax.{tag}(op) raises {type(e).__name__}')
            continue
        if v is True and not holds(M):
            fails.append(f'{name}: lineax.{tag}(op) is True but the dense matrix does not have the property')
        if v not in (True, False):
            fails.append(f'{name}: lineax.{tag}(op) returns {v!r}')
    d = declared(type(op))
    if lx.is_symmetric(op) is True or 'symmetric' in d:
        if op.T is not op:
            fails.append(f'{name}: declared symmetric but op.T is not op')
        if not TAGS['is_symmetric'](M):
            fails.append(f'{name}: declared symmetric but M != M^T')
    if 'orthogonal' in d:
        if M.shape[0] != M.shape[1] or not np.allclose(M.T @ M, np.eye(M.shape[1]), atol=1e-5):
            fails.append(f'{name}: declared orthogonal but M^T M != I')
        try:
            Mi, Mt = dense(op.I), dense(op.T)
            if not np.allclose(Mi, Mt, atol=1e-5) or not np.allclose(Mt, M.T, atol=1e-5):
                fails.append(f'{name}: declared orthogonal but op.I does not act as op.T (= M^T)')
        except Exception as e:      # noqa: BLE001
            fails.append(f'{name}: declared orthogonal: op.I / op.T: {type(e).__name__}: {str(e)[:80]}')
    if 'square' in d:
        if op.out_structure() != op.in_structure():
            fails.append(f'{name}: declared square but out_structure() != in_structure()')
        if M.shape[0] != M.shape[1]:
            fails.append(f'{name}: declared square but the dense matrix is {M.shape}')


def tags(w, seed, spec):
    fails = []
    only = spec.get('cls')
    n = 0
    for s in (seed, seed + 1, seed + 2):
        for name, op, _mask in instances(s, only):
            if isinstance(op, Exception):
                fails.append(f'{name}: cannot be built: {type(op).__name__}: {str(op)[:80]}')
                continue
            n += 1
            _check(name, op, fails)
            if len(fails) > 6:
                return fails[:8]
        if only is None and s == seed:
            break
    if n == 0 and only:
        return tags(w, seed, {})
    return fails[:8]


def _assumed():
    import ast
    import os
    src = open(os.path.join(os.path.dirname(os.path.dirname(os.path.abspath(__file__))), 'theories', 'dispatch.py')).read()
    tree = ast.parse(src)
    vals = {}
    for s in tree.body:
        if isinstance(s, ast.Assign) and isinstance(s.targets[0], ast.Name) and s.targets[0].id in ('LINEAX_CLASSES', 'TAGS'):
            vals[s.targets[0].id] = ast.literal_eval(s.value)
    return vals


def lineax_registry(w, seed, spec):
    """conformance of the assumed contract in theories/dispatch.py: the classes lineax pre-registers"""
    a = _assumed()
    fails = []
    for t in a['TAGS'] + ['linearise', 'conj']:
        f = getattr(lx, t)
        got = sorted(c.__name__ for c in f.registry if c.__module__.startswith('lineax'))
        if got != sorted(a['LINEAX_CLASSES']):
            fails.append(f'ASSUMPTION-MISMATCH lineax.{t}.registry pre-registers {got}, theory assumes {sorted(a["LINEAX_CLASSES"])}')
        if object not in f.registry:
            fails.append(f'ASSUMPTION-MISMATCH lineax.{t} has no object default')
    import furax._base.core as core
    bases = [c.__name__ for c in core.AbstractLinearOperator.__mro__ if c.__module__.startswith('lineax')]
    if bases != ['AbstractLinearOperator']:
        fails.append(f'ASSUMPTION-MISMATCH furax operators derive from lineax classes {bases}')
    return fails


def user_tagged(w, seed, spec):
    """user-declared tagged operators (the public decorators exist for this) and their furax wrappers A.T, A.T.T, A.I:
    every lineax tag answered True must hold for the dense matrix (the inverse's matrix is numpy's inverse)"""
    from furax.operators import (AbstractLinearOperator, lower_triangular, negative_semidefinite, positive_semidefinite,
                                 symmetric, upper_triangular)
    from furax.operators import diagonal as diagonal_deco

    class _Dense(AbstractLinearOperator):
        matrix: jax.Array

        def mv(self, x):
            return self.matrix @ x

        def in_structure(self):
            return jax.ShapeDtypeStruct((self.matrix.shape[1],), self.matrix.dtype)

    @lower_triangular
    class Lower(_Dense):
        pass

    @upper_triangular
    class Upper(_Dense):
        pass

    @symmetric
    class Sym(_Dense):
        pass

    @positive_semidefinite
    class Psd(_Dense):
        pass

    @negative_semidefinite
    class Nsd(_Dense):
        pass

    @diagonal_deco
    class Diag(_Dense):
        pass
    rng = np.random.default_rng(seed)
    fails = []
    for n in (3, 4):
        R = rng.uniform(0.5, 1.5, (n, n)).astype(np.float32)
        spd = (R @ R.T + n * np.eye(n)).astype(np.float32)
        ops = {
            'L': Lower(jnp.asarray(np.tril(R) + n * np.eye(n, dtype=np.float32))),
            'U': Upper(jnp.asarray(np.triu(R) + n * np.eye(n, dtype=np.float32))),
            'S': Sym(jnp.asarray(R + R.T)),
            'P': Psd(jnp.asarray(spd)),
            'N': Nsd(jnp.asarray(-spd)),
            'D': Diag(jnp.asarray(np.diag(np.diag(R)))),
        }
        for name, op in ops.items():
            M = dense(op)
            cases = [(name, op, M)]
            try:
                cases.append((f'{name}.T', op.T, dense(op.T)))
                if not np.allclose(cases[-1][2], M.T, atol=1e-5):
                    fails.append(f'{name}.T: dense matrix is not the transpose')
                cases.append((f'{name}.T.T', op.T.T, M))
                cases.append((f'{name}.I', op.I, np.linalg.inv(M.astype(np.float64))))
                cases.append((f'{name}.I.T', op.I.T, np.linalg.inv(M.astype(np.float64)).T))
            except Exception as e:      # noqa: BLE001
                fails.append(f'{name}: building wrappers: {type(e).__name__}: {str(e)[:80]}')
            for label, o, mat in cases:
                for tag, holds in TAGS.items():
                    try:
                        v = getattr(lx, tag)(o)
                    except Exception as e:      # noqa: BLE001
                        fails.append(f'{label}: lineax.{tag} raises {type(e).__name__}')
                        continue
                    if v is True and not holds(np.asarray(mat, np.float64)):
                        fails.append(f'{label}: lineax.{tag} is True but the dense matrix does not have the property '
                                     f'({type(o).__name__} wrapping a user operator declared {type(op).__name__})')
            if len(fails) > 6:
                return fails[:8]
        # composites of tagged user operators: products and sums in both orders, scalar multiples, block diagonals — a tag
        # derived from the parts must hold for the matrix of the whole (symmetric x symmetric is not symmetric unless
        # the factors commute; triangular x triangular of opposite kinds is not triangular; ...)
        from furax._base.blocks import BlockDiagonalOperator
        S2 = Sym(jnp.asarray((R + R.T)[::-1, ::-1] * np.arange(1, n + 1, dtype=np.float32)[:, None]
                             + ((R + R.T)[::-1, ::-1] * np.arange(1, n + 1, dtype=np.float32)[:, None]).T))
        comps = {}
        for a, b in [('S', 'D'), ('D', 'S'), ('S', 'P'), ('L', 'U'), ('U', 'L'), ('P', 'N'), ('L', 'D'), ('P', 'P')]:
            comps[f'{a}@{b}'] = ops[a] @ ops[b]
            comps[f'{a}+{b}'] = ops[a] + ops[b]
        comps['S@S2'] = ops['S'] @ S2
        comps['2*S'] = 2 * ops['S']
        comps['D@S@D'] = ops['D'] @ ops['S'] @ ops['D']
        comps['BD[S,L]'] = BlockDiagonalOperator([ops['S'], ops['L']])
        for label, o in comps.items():
            try:
                mat = dense(o)
            except Exception as e:      # noqa: BLE001
                fails.append(f'{label}: dense form: {type(e).__name__}')
                continue
            for tag, holds in TAGS.items():
                try:
                    v = getattr(lx, tag)(o)
                except Exception as e:      # noqa: BLE001
                    fails.append(f'{label}: lineax.{tag} raises {type(e).__name__}')
                    continue
                if v is True and not holds(np.asarray(mat, np.float64)):
                    fails.append(f'{label}: lineax.{tag} is True but the dense matrix of the {type(o).__name__} does not have '
                                 f'the property')
            if len(fails) > 6:
                return fails[:8]
    return fails[:8]
